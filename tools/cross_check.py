#!/venv/bin/python
"""Cross-property sanity of shared rules: when the check of property Q fires on a seeded change S made for another property P, does S really
break Q? Evidence: run the demonstration programs of Q's own seeds (independent property testers with their own oracles) on the tree changed by S.
No failing demo = candidate false alarm of Q's check (or Q's demos do not cover it) -> manual review. Writes seeded/CROSS.json."""
import collections, concurrent.futures as cf, glob, json, os, shutil, subprocess, sys, tempfile
VERIF = os.path.dirname(os.path.dirname(os.path.abspath(__file__)))
REPO = "/repo"
res = json.load(open(os.path.join(VERIF, "seeded", "RESULTS.json")))
pairs = collections.defaultdict(list)
for x in res:
    for Q, v in x["checks"].items():
        if Q != x["property"] and v.get("exit") == 1:
            for rule in v.get("rules") or []:
                pairs[(Q, rule)].append(x["name"])
per = int(sys.argv[1]) if len(sys.argv) > 1 else 2
jobs = []
for (Q, rule), names in sorted(pairs.items()):
    for s in names[:per]:
        jobs.append((Q, rule, s))
by_seed = collections.defaultdict(set)
for Q, rule, s in jobs:
    by_seed[s].add(Q)


def run(item):
    s, Qs = item
    wt = tempfile.mkdtemp(prefix="cross-")
    out = {}
    try:
        subprocess.run(["rsync", "-a", "--exclude", ".git", REPO + "/", wt + "/"], check=True)
        r = subprocess.run(["git", "apply", os.path.join(VERIF, "seeded", s, "patch.diff")], cwd=wt, capture_output=True, text=True)
        if r.returncode != 0:
            r = subprocess.run(["patch", "-p1", "-s", "-i", os.path.join(VERIF, "seeded", s, "patch.diff")], cwd=wt, capture_output=True, text=True)
            if r.returncode != 0:
                return s, None
        for Q in sorted(Qs):
            fails, total = [], 0
            for demo in sorted(glob.glob(os.path.join(VERIF, "seeded", f"{Q}-*", "demo.py"))):
                total += 1
                try:
                    c = subprocess.run(["/venv/bin/python", demo], cwd=wt, env=dict(os.environ, PYTHONPATH=wt), capture_output=True, text=True, timeout=600)
                    if c.returncode != 0:
                        fails.append(os.path.basename(os.path.dirname(demo)))
                except subprocess.TimeoutExpired:
                    fails.append(os.path.basename(os.path.dirname(demo)) + "(timeout)")
            out[Q] = (fails, total)
        return s, out
    finally:
        shutil.rmtree(wt, ignore_errors=True)


with cf.ThreadPoolExecutor(int(os.environ.get("JOBS", "8"))) as ex:
    results = dict(ex.map(run, by_seed.items()))
rows = []
for Q, rule, s in jobs:
    r = results.get(s)
    fails, total = (r or {}).get(Q, (None, 0))
    rows.append({"check": Q, "rule": rule, "seed": s, "failing_demos_of_check_property": fails, "demos_run": total})
    print(Q, rule, s, "->", ("n/a" if fails is None else f"{len(fails)}/{total} demos of {Q} fail: {fails[:5]}"), flush=True)
json.dump(rows, open(os.path.join(VERIF, "seeded", "CROSS.json"), "w"), indent=1)
