#!/venv/bin/python
"""Mutation audit of the checks (a validation of the checkers, not a deciding step): small syntactic mutants of the anchored matid modules are
generated from the AST; a mutant that the pinned suite kills is dropped; for a survivor every check is run (VERIF_REPO=<scratch copy>); for a survivor
that no check reports, a battery of the demonstration programs of the seeded changes (independent testers of the properties, written by sub-agents)
is run: a failing demo means a property is broken and no check sees it - a miss to look at; no failing demo means the mutant is (as far as the demos
can tell) behaviour-preserving for the properties.

usage: tools/mutation_audit.py [--max N] [--jobs J] [--seed S] [--files f1,f2,...]
Scratch copies live under a mkdtemp directory outside /repo and /verif and are removed. Results: seeded/MUTATION_AUDIT.json"""
import argparse, ast, copy, glob, json, os, random, shutil, subprocess, sys, tempfile, concurrent.futures as cf

VERIF = os.path.dirname(os.path.dirname(os.path.abspath(__file__)))
REPO = "/repo"
PY = "/venv/bin/python"
FILES = {
    "matid/clustering/sbc.py": ["C01", "C02", "C03", "C13", "C19", "C04"],
    "matid/clustering/cluster.py": ["C13", "C04", "C01", "C03", "C19"],
    "matid/core/periodicfinder.py": ["C02", "C03", "C04", "C17", "C18", "C01"],
    "matid/core/linkedunits.py": ["C03", "C17", "C18", "C02"],
    "matid/geometry/geometry.py": ["C09", "C10", "C16", "C20", "C13", "C19", "C01", "C17"],
    "matid/symmetry/symmetryanalyzer.py": ["C05", "C06", "C07", "C08", "C11", "C12", "C14", "C15"],
    "matid/classification/classifier.py": ["C17", "C18", "C19"],
    "matid/core/distances.py": ["C10", "C09"],
    "matid/utils/segfault_protect.py": ["C05", "C06"],
    "matid/classification/classifications.py": ["C17", "C18"],
    "matid/core/system.py": ["C12", "C07", "C20"],
    "matid/symmetry/wyckoffset.py": ["C07", "C08"],
    "matid/data/element_data.py": ["C19", "C09"],
}
CMP = {ast.Lt: ast.LtE, ast.LtE: ast.Lt, ast.Gt: ast.GtE, ast.GtE: ast.Gt, ast.Eq: ast.NotEq, ast.NotEq: ast.Eq, ast.Is: ast.IsNot, ast.IsNot: ast.Is,
       ast.In: ast.NotIn, ast.NotIn: ast.In}
BIN = {ast.Add: ast.Sub, ast.Sub: ast.Add, ast.Mult: ast.Div, ast.Div: ast.Mult}


def mutants_of(path):
    src = open(os.path.join(REPO, path)).read()
    tree = ast.parse(src)
    out = []
    funcs = {}
    for fn in ast.walk(tree):
        if isinstance(fn, (ast.FunctionDef,)):
            for n in ast.walk(fn):
                funcs.setdefault(id(n), fn.name)
    nodes = list(ast.walk(tree))
    for i, n in enumerate(nodes):
        where = (funcs.get(id(n), "<module>"), getattr(n, "lineno", 0))
        if isinstance(n, ast.Compare) and len(n.ops) == 1 and type(n.ops[0]) in CMP:
            out.append((i, "cmp", f"{type(n.ops[0]).__name__}->{CMP[type(n.ops[0])].__name__}", where))
        elif isinstance(n, ast.BinOp) and type(n.op) in BIN and not isinstance(n.left, ast.Constant) or (isinstance(n, ast.BinOp) and type(n.op) in BIN and isinstance(n.left, ast.Constant) and not isinstance(n.left.value, str)):
            out.append((i, "bin", f"{type(n.op).__name__}->{BIN[type(n.op)].__name__}", where))
        elif isinstance(n, ast.BoolOp):
            out.append((i, "bool", "and<->or", where))
        elif isinstance(n, ast.UnaryOp) and isinstance(n.op, ast.Not):
            out.append((i, "not", "drop not", where))
        elif isinstance(n, ast.Subscript) and isinstance(n.slice, ast.Constant) and isinstance(n.slice.value, int) and n.slice.value in (0, 1, 2, -1):
            out.append((i, "idx", f"[{n.slice.value}]->[{ {0: 1, 1: 0, 2: 1, -1: 0}[n.slice.value] }]", where))
        elif isinstance(n, ast.Call) and len(n.args) == 2 and not n.keywords and isinstance(n.func, ast.Attribute) and n.func.attr in ("dot", "matmul", "cross"):
            out.append((i, "swap", "swap the two arguments", where))
        elif isinstance(n, ast.Expr) and isinstance(n.value, ast.Call) and isinstance(n.value.func, ast.Attribute) and n.value.func.attr in (
                "wrap", "center", "translate", "set_pbc", "set_cell", "append", "extend", "update", "add", "reset", "sort"):
            out.append((i, "drop", f"drop `{ast.unparse(n)[:40]}`", where))
        elif isinstance(n, ast.Constant) and isinstance(n.value, bool):
            out.append((i, "const", f"{n.value}->{not n.value}", where))
        elif isinstance(n, ast.keyword) and n.arg in ("wrap", "pbc", "axis") and isinstance(n.value, ast.Constant) and isinstance(n.value.value, (bool, int)):
            out.append((i, "kw", f"{n.arg}={n.value.value} flipped", where))
        elif isinstance(n, ast.Call) and isinstance(n.func, ast.Attribute) and n.func.attr == "copy" and not n.args and not n.keywords:
            out.append((i, "uncopy", f"`{ast.unparse(n)[:40]}` without the copy", where))
        elif isinstance(n, ast.Attribute) and n.attr == "T" and isinstance(n.ctx, ast.Load):
            out.append((i, "unT", f"`{ast.unparse(n)[:40]}` without the transpose", where))
        elif isinstance(n, ast.Call) and isinstance(n.func, ast.Attribute) and n.func.attr in ("array", "asarray") and len(n.args) == 1 and not n.keywords \
                and isinstance(n.args[0], (ast.Name, ast.Attribute, ast.Call)):
            out.append((i, "unarray", f"`{ast.unparse(n)[:40]}` aliased instead of converted", where))
        elif isinstance(n, ast.Call) and len(n.args) >= 2 and not any(isinstance(a, ast.Starred) for a in n.args) and isinstance(n.func, ast.Attribute) \
                and (ast.unparse(n.func).startswith(("matid.", "self.")) ) and all(isinstance(a, (ast.Name, ast.Attribute)) for a in n.args[:2]):
            out.append((i, "swapargs", f"first two arguments of `{ast.unparse(n.func)[:40]}` exchanged", where))
    return src, out


def apply(path, idx, kind):
    tree = ast.parse(open(os.path.join(REPO, path)).read())
    n = list(ast.walk(tree))[idx]
    if kind == "cmp":
        n.ops = [CMP[type(n.ops[0])]()]
    elif kind == "bin":
        n.op = BIN[type(n.op)]()
    elif kind == "bool":
        n.op = ast.Or() if isinstance(n.op, ast.And) else ast.And()
    elif kind == "not":
        # replace `not x` by `x`: mutate in place by turning the operator into a double negation's inner
        n.op = ast.UAdd() if False else n.op
        parent_fix = ast.NodeTransformer()
        class T(ast.NodeTransformer):
            def visit_UnaryOp(self, node):
                self.generic_visit(node)
                return node.operand if node is n else node
        tree = T().visit(tree)
    elif kind == "idx":
        n.slice = ast.Constant({0: 1, 1: 0, 2: 1, -1: 0}[n.slice.value])
    elif kind == "swap":
        n.args = [n.args[1], n.args[0]]
    elif kind == "drop":
        class D(ast.NodeTransformer):
            def visit_Expr(self, node):
                return ast.Pass() if node is n else node
        tree = D().visit(tree)
    elif kind == "const":
        n.value = not n.value
    elif kind in ("uncopy", "unarray", "unT"):
        repl = n.func.value if kind == "uncopy" else n.args[0] if kind == "unarray" else n.value

        class R(ast.NodeTransformer):
            def generic_visit(self, node):
                for f, v in ast.iter_fields(node):
                    if isinstance(v, list):
                        for j, x in enumerate(v):
                            if x is n:
                                v[j] = repl
                            elif isinstance(x, ast.AST):
                                self.generic_visit(x)
                    elif v is n:
                        setattr(node, f, repl)
                    elif isinstance(v, ast.AST):
                        self.generic_visit(v)
                return node
        tree = R().generic_visit(tree)
    elif kind == "swapargs":
        n.args[0], n.args[1] = n.args[1], n.args[0]
    elif kind == "kw":
        v = n.value.value
        n.value = ast.Constant((not v) if isinstance(v, bool) else (1 - v if v in (0, 1) else 0))
    ast.fix_missing_locations(tree)
    return ast.unparse(tree) + "\n"


def run(cmd, cwd, env, timeout):
    try:
        r = subprocess.run(cmd, cwd=cwd, env=env, capture_output=True, text=True, timeout=timeout)
        return r.returncode, r.stdout + r.stderr
    except subprocess.TimeoutExpired:
        return 124, "timeout"


def work(job):
    path, idx, kind, desc, where, scratch, claimed, demos_per_prop = job
    wt = scratch
    orig = open(os.path.join(REPO, path)).read()
    res = {"file": path, "function": where[0], "line": where[1], "kind": kind, "what": desc}
    try:
        try:
            mutated = apply(path, idx, kind)
            compile(mutated, path, "exec")
        except Exception as e:
            res["status"] = "invalid"
            return res
        open(os.path.join(wt, path), "w").write(mutated)
        env = dict(os.environ, PYTHONPATH=wt, PYTHONDONTWRITEBYTECODE="1", OMP_NUM_THREADS="1", OPENBLAS_NUM_THREADS="1")
        rc, out = run([PY, "-m", "pytest", "-q", "-x", "-p", "no:cacheprovider", "--timeout=300"], wt, env, 900)
        if rc != 0:
            res["status"] = "killed_by_pinned_suite"
            return res
        fired, errs = [], []
        for pid in claimed:
            rc, out = run([os.path.join(VERIF, "check"), pid], VERIF, dict(os.environ, VERIF_REPO=wt, VERIF_NO_EVIDENCE="1"), 600)
            if rc == 1:
                fired.append(pid)
            elif rc != 0:
                errs.append(pid)
        res["checks_violation"], res["checks_analysis_error"] = fired, errs
        if fired:
            res["status"] = "reported"
            return res
        failing = []
        for pid in FILES[path]:
            for demo in sorted(glob.glob(os.path.join(VERIF, "seeded", f"{pid}-*", "demo.py")))[:demos_per_prop]:
                rc, out = run([PY, demo], wt, env, 600)
                if rc != 0:
                    failing.append(os.path.basename(os.path.dirname(demo)))
        res["failing_demos"] = failing
        res["status"] = ("missed" if failing else "no_demo_fails") + ("_analysis_error" if errs else "")
        return res
    finally:
        open(os.path.join(wt, path), "w").write(orig)


def main():
    ap = argparse.ArgumentParser()
    ap.add_argument("--max", type=int, default=400)
    ap.add_argument("--jobs", type=int, default=14)
    ap.add_argument("--seed", type=int, default=1)
    ap.add_argument("--files", default="")
    ap.add_argument("--demos", type=int, default=3)
    ap.add_argument("--kinds", default="")
    a = ap.parse_args()
    sys.path.insert(0, VERIF)
    from vstatic.main import CLAIMED
    files = [f for f in FILES if not a.files or f in a.files.split(",")]
    allm = []
    for f in files:
        _, ms = mutants_of(f)
        allm += [(f, i, k, d, w) for i, k, d, w in ms if not a.kinds or k in a.kinds.split(",")]
    random.Random(a.seed).shuffle(allm)
    allm = allm[:a.max]
    base = tempfile.mkdtemp(prefix="mutaudit-")
    try:
        scratches = []
        for j in range(a.jobs):
            d = os.path.join(base, f"w{j}")
            subprocess.run(["rsync", "-a", "--exclude", ".git", REPO + "/", d + "/"], check=True)
            scratches.append(d)
        results = []
        # one scratch per worker: partition the jobs round-robin and run each partition sequentially in its own thread
        parts = [[] for _ in scratches]
        for n, m in enumerate(allm):
            parts[n % len(scratches)].append(m)

        def seq(k):
            out = []
            for f, i, kind, desc, where in parts[k]:
                r = work((f, i, kind, desc, where, scratches[k], CLAIMED, a.demos))
                out.append(r)
                print(f"{r['status']:28s} {r['file']}:{r['line']} {r['function']} {r['what']} {r.get('checks_violation', '')} {r.get('failing_demos', '')}", flush=True)
            return out
        with cf.ThreadPoolExecutor(len(scratches)) as ex:
            for out in ex.map(seq, range(len(scratches))):
                results += out
    finally:
        shutil.rmtree(base, ignore_errors=True)
    p = os.path.join(VERIF, "seeded", "MUTATION_AUDIT.json")
    old = json.load(open(p)) if os.path.exists(p) else []
    key = lambda r: (r["file"], r["function"], r["line"], r["kind"], r["what"])
    merged = {key(r): r for r in old}
    merged.update({key(r): r for r in results})
    json.dump(sorted(merged.values(), key=key), open(p, "w"), indent=1)
    import collections
    c = collections.Counter(r["status"] for r in results)
    print(dict(c))


if __name__ == "__main__":
    main()
