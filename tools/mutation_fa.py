#!/venv/bin/python
"""false-alarm side of the mutation audit: for every mutant some check reports, run demonstration programs of the *reporting* properties on the mutated
tree. A reported mutant on which none of them fails is a candidate false alarm (or the demos are not sensitive to it) and is listed for reading."""
import glob, json, os, shutil, subprocess, sys, tempfile, concurrent.futures as cf, importlib.util
VERIF = os.path.dirname(os.path.dirname(os.path.abspath(__file__)))
spec = importlib.util.spec_from_file_location("ma", os.path.join(VERIF, "tools", "mutation_audit.py"))
ma = importlib.util.module_from_spec(spec); spec.loader.exec_module(ma)
p = os.path.join(VERIF, "seeded", "MUTATION_AUDIT.json")
recs = json.load(open(p))
todo = [r for r in recs if r["status"] == "reported" and "demos_of_reporting_checks" not in r]
jobs = int(os.environ.get("JOBS", "12"))
per = int(os.environ.get("DEMOS", "5"))
base = tempfile.mkdtemp(prefix="mutfa-")


def find_idx(r):
    _, ms = ma.mutants_of(r["file"])
    for i, k, d, w in ms:
        if k == r["kind"] and d == r["what"] and w[0] == r["function"] and w[1] == r["line"]:
            return i


def work(args):
    k, rs = args
    wt = os.path.join(base, f"w{k}")
    subprocess.run(["rsync", "-a", "--exclude", ".git", ma.REPO + "/", wt + "/"], check=True)
    env = dict(os.environ, PYTHONPATH=wt, PYTHONDONTWRITEBYTECODE="1", OMP_NUM_THREADS="1", OPENBLAS_NUM_THREADS="1")
    for r in rs:
        i = find_idx(r)
        if i is None:
            continue
        orig = open(os.path.join(ma.REPO, r["file"])).read()
        open(os.path.join(wt, r["file"]), "w").write(ma.apply(r["file"], i, r["kind"]))
        out = {}
        for pid in r["checks_violation"]:
            fails, n = [], 0
            for demo in sorted(glob.glob(os.path.join(VERIF, "seeded", f"{pid}-*", "demo.py")))[:per]:
                n += 1
                try:
                    c = subprocess.run([ma.PY, demo], cwd=wt, env=env, capture_output=True, text=True, timeout=600)
                    if c.returncode != 0:
                        fails.append(os.path.basename(os.path.dirname(demo)))
                except subprocess.TimeoutExpired:
                    fails.append("timeout")
            out[pid] = {"failing": fails, "run": n}
        open(os.path.join(wt, r["file"]), "w").write(orig)
        r["demos_of_reporting_checks"] = out
        quiet = [pid for pid, v in out.items() if not v["failing"]]
        print(("ALL QUIET   " if len(quiet) == len(out) else "some quiet  " if quiet else "confirmed   ") + f"{r['file']}:{r['line']} {r['function']} {r['what']} quiet={quiet} "
              f"failing={ {pid: v['failing'][:2] for pid, v in out.items() if v['failing']} }", flush=True)
    return rs


try:
    with cf.ThreadPoolExecutor(jobs) as ex:
        list(ex.map(work, [(k, todo[k::jobs]) for k in range(jobs)]))
finally:
    shutil.rmtree(base, ignore_errors=True)
json.dump(recs, open(p, "w"), indent=1)
