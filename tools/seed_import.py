#!/venv/bin/python
"""import sub-agent deliveries from /tmp/seed_out/<ID>/ into /verif/seeded/<ID>-<k>/"""
import json, os, shutil, sys, glob
VERIF = os.path.dirname(os.path.dirname(os.path.abspath(__file__)))
slot = sys.argv[1]                      # property id, optionally followed by the angle letter of tools/seed_prompts.py (C20d)
pid = slot[:3]
src = (sys.argv[2] if len(sys.argv) > 2 else "/tmp/seed_out") + f"/{slot}"
existing = [int(os.path.basename(x).split("-")[1]) for x in glob.glob(os.path.join(VERIF, "seeded", f"{pid}-*"))]
offset = int(sys.argv[3]) if len(sys.argv) > 3 else (max(existing) if existing and len(sys.argv) > 2 else 0)
def _body(path):
    """the changed lines of a patch, whitespace-normalised: two deliveries with the same body are the same change"""
    out, cur = [], ""
    for l in open(path, errors="replace"):
        if l.startswith("+++ "):
            cur = l[4:].strip()
        elif l.startswith("@@"):
            # where the hunk is: the enclosing definition (stable across fix commits); in the table file, where every hunk has the same
            # context, the line number
            ctx = l.split("@@")[2].strip() if l.count("@@") >= 2 else ""
            out.append((cur, l.split()[1] if cur.endswith("symmetry_data.py") else ctx))
        elif l[:1] in "+-" and not l.startswith(("+++", "---")) and l[1:].strip() and not l[1:].strip().startswith("#"):
            out.append(" ".join(l.split()))
    return tuple(out)


known = {}
for d0 in glob.glob(os.path.join(VERIF, "seeded", "C*-*")):
    if os.path.exists(os.path.join(d0, "patch.diff")):
        known.setdefault(_body(os.path.join(d0, "patch.diff")), os.path.basename(d0))
nxt = (max(existing) if existing else 0)
for patch in sorted(glob.glob(f"{src}/patch*.diff")):
    k = os.path.basename(patch)[5:-5]
    dup = known.get(_body(patch))
    if dup:
        print(f"skipped {patch}: same change as {dup}")
        continue
    demo, notes = f"{src}/demo{k}.py", f"{src}/notes{k}.md"
    if not os.path.exists(demo):
        print("no demo for", patch); continue
    nxt += 1
    d = os.path.join(VERIF, "seeded", f"{pid}-{nxt if len(sys.argv) > 2 else int(k) + offset}")
    os.makedirs(d, exist_ok=True)
    shutil.copy(patch, os.path.join(d, "patch.diff"))
    shutil.copy(demo, os.path.join(d, "demo.py"))
    if os.path.exists(notes):
        shutil.copy(notes, os.path.join(d, "notes.md"))
    mp = os.path.join(d, "meta.json")
    if not os.path.exists(mp):
        json.dump({"property": pid, "source": "independent sub-agent given only the property text and a scratch worktree",
                   "needs_to_manifest": "see notes.md", "confirmed": None}, open(mp, "w"), indent=1)
    print("imported", d)
