#!/bin/bash
# offline setup: nothing to install; verify the interpreter and its libraries, byte-compile, run fixtures
set -e
cd "$(dirname "$0")/.."
/venv/bin/python - <<'PY'
import ast, networkx, numpy, spglib, sys
print("python", sys.version.split()[0], "networkx", networkx.__version__, "numpy", numpy.__version__, "spglib", spglib.__version__)
PY
PYTHONDONTWRITEBYTECODE=1 /venv/bin/python -c "import sys; sys.path.insert(0,'.'); import vstatic.main, vstatic.model, vstatic.cfg, vstatic.dataflow, vstatic.tables, vstatic.spgref, vstatic.tableobl; print('vstatic imports ok')"
mkdir -p evidence/replay .cache
