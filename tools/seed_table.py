#!/venv/bin/python
"""writes seeded/README.md (one row per seeded change) from seeded/RESULTS.json and the notes; fills meta.json"""
import json, os, glob
VERIF = os.path.dirname(os.path.dirname(os.path.abspath(__file__)))
res = {r["name"]: r for r in json.load(open(os.path.join(VERIF, "seeded", "RESULTS.json")))}
rows = []
for d in sorted(glob.glob(os.path.join(VERIF, "seeded", "*", "")), key=lambda p: (os.path.basename(p.rstrip("/")).split("-")[0], int(os.path.basename(p.rstrip("/")).split("-")[1]))):
    name = os.path.basename(d.rstrip("/"))
    notes = os.path.join(d, "notes.md")
    head = open(notes).read().splitlines()[0].lstrip("# ").strip() if os.path.exists(notes) else ""
    r = res.get(name)
    mp = os.path.join(d, "meta.json")
    meta = json.load(open(mp))
    if r:
        own = r["checks"].get(r["property"], {})
        others = sorted(p for p, v in r["checks"].items() if p != r["property"] and v["exit"] == 1)
        meta.update({"what": head, "needs_to_manifest": "see notes.md (written by the sub-agent that produced the change)",
                     "confirmed": {"pinned_suite_with_change": r.get("pytest"), "demo_exit_unchanged_tree": r.get("demo_clean"),
                                   "demo_exit_with_change": r.get("demo_patched"),
                                   "commands": ["git worktree add <tmp> HEAD; PYTHONPATH=<tmp> /venv/bin/python demo.py  (unchanged: exit 0)",
                                                "git -C <tmp> apply patch.diff; PYTHONPATH=<tmp> /venv/bin/python demo.py  (changed: exit 1)",
                                                "cd <tmp> && PYTHONPATH=<tmp> /venv/bin/python -m pytest -q -p no:cacheprovider --timeout=900",
                                                "VERIF_REPO=<tmp> ./check <ID>  for every claimed property"]},
                     "detected_by_own_check": own.get("exit") == 1, "own_check_rules": own.get("rules"), "other_checks_firing": others})
        json.dump(meta, open(mp, "w"), indent=1)
        rows.append((name, r["property"], head, own.get("exit"), ",".join(own.get("rules") or []), ",".join(others), r.get("demo_clean"), r.get("demo_patched"), r.get("pytest", "")[:10]))
with open(os.path.join(VERIF, "seeded", "README.md"), "w") as f:
    f.write("# Seeded breaking changes\n\nEach directory holds `patch.diff` (apply with `git -C <copy of /repo> apply`), `demo.py` (exit 0 = property holds, 1 = violated),\n"
            "`notes.md` (what / why / what it needs to manifest, written by the independent sub-agent that produced it) and `meta.json`.\n"
            "All were produced by sub-agents that saw only the property text and a scratch worktree, and were re-confirmed here with `tools/seed_eval.py --confirm --all-checks`\n"
            "(pinned suite passes with the change, demo passes without and fails with it). None is committed to /repo.\n\n"
            "| seed | property | change | own check | rules firing | other checks firing | demo unchanged/changed | pinned suite |\n|---|---|---|---|---|---|---|---|\n")
    for r in rows:
        f.write(f"| {r[0]} | {r[1]} | {r[2][:140]} | exit {r[3]} | {r[4]} | {r[5]} | {r[6]}/{r[7]} | {r[8]} |\n")
print(len(rows), "rows")
