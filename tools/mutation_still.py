#!/venv/bin/python
"""regression side of the mutation audit: every mutant that was reported when the audit ran (status `reported`, or a former miss that a later rule reports) is
regenerated and the checks that reported it are run again; a mutant none of them reports any more is listed (a rule or a normal form added later lost it)."""
import json, os, shutil, subprocess, sys, tempfile, concurrent.futures as cf, importlib.util
VERIF = os.path.dirname(os.path.dirname(os.path.abspath(__file__)))
spec = importlib.util.spec_from_file_location("ma", os.path.join(VERIF, "tools", "mutation_audit.py"))
ma = importlib.util.module_from_spec(spec); spec.loader.exec_module(ma)
recs = json.load(open(os.path.join(VERIF, "seeded", "MUTATION_AUDIT.json")))
todo = [r for r in recs if r["status"] == "reported" and r.get("checks_violation") and "false alarm repaired" not in str(r.get("status_after_rules", ""))]
jobs = int(os.environ.get("JOBS", "12"))
base = tempfile.mkdtemp(prefix="mutstill-")


def find_idx(r):
    _, ms = ma.mutants_of(r["file"])
    for i, k, d, w in ms:
        if k == r["kind"] and d == r["what"] and w[0] == r["function"] and w[1] == r["line"]:
            return i


def work(args):
    k, rs = args
    wt = os.path.join(base, f"w{k}")
    subprocess.run(["rsync", "-a", "--exclude", ".git", ma.REPO + "/", wt + "/"], check=True)
    lost = []
    for r in rs:
        i = find_idx(r)
        if i is None:
            continue
        orig = open(os.path.join(ma.REPO, r["file"])).read()
        open(os.path.join(wt, r["file"]), "w").write(ma.apply(r["file"], i, r["kind"]))
        codes = {}
        for pid in r["checks_violation"]:
            c = subprocess.run([os.path.join(VERIF, "check"), pid], cwd=VERIF, env=dict(os.environ, VERIF_REPO=wt, VERIF_NO_EVIDENCE="1"), capture_output=True, text=True)
            codes[pid] = c.returncode
            if c.returncode == 1:
                break
        open(os.path.join(wt, r["file"]), "w").write(orig)
        if 1 not in codes.values():
            lost.append((r["file"], r["line"], r["function"], r["what"], codes))
            print("LOST", r["file"], r["line"], r["function"], r["what"], codes, flush=True)
    return lost


try:
    with cf.ThreadPoolExecutor(jobs) as ex:
        out = [x for l in ex.map(work, [(k, todo[k::jobs]) for k in range(jobs)]) for x in l]
finally:
    shutil.rmtree(base, ignore_errors=True)
print(f"{len(todo)} formerly reported mutants re-run, {len(out)} no longer reported")
sys.exit(1 if out else 0)
