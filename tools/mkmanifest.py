#!/venv/bin/python
"""Regenerates MANIFEST.json from the table below (run from /verif)."""
import json, os, sys
here = os.path.dirname(os.path.dirname(os.path.abspath(__file__)))
sys.path.insert(0, here)

NA = {}      # every property is claimed, C02 / C03 / C04 / C18 for their structural clauses only (see their "claim" text and DESIGN.md section 6)

# pid -> (level category, level text, note, technique, design_ref, has_thorough)
CHECKS = {}

def load_checks():
    import importlib
    from vstatic.main import CLAIMED
    for pid in CLAIMED:
        try:
            mod = importlib.import_module(f"vstatic.rules.{pid.lower()}")
        except ModuleNotFoundError:
            continue
        meta = getattr(mod, "META", None)
        if meta:
            CHECKS[pid] = meta

def main():
    load_checks()
    checks = []
    for pid in sorted(CHECKS):
        m = CHECKS[pid]
        checks.append({
            "property_id": pid,
            "quick_cmd": f"./check {pid} --tier quick",
            "thorough_cmd": f"./check {pid} --tier thorough",
            "evidence_file": f"/verif/evidence/{pid}.json",
            "replay_cmd_template": f"./check {pid} --replay {{path}}",
            "engine": "vstatic",
            "level_claimed": {"category": m["level"], "text": m["text"], "design_ref": m.get("design_ref", f"DESIGN.md section 3, {pid}")},
            "level_note": m["note"],
            "technique": m["technique"],
        })
    from vstatic.main import CLAIMED
    na = [{"property_id": k, "reason": v} for k, v in sorted(NA.items())]
    for pid in CLAIMED:
        if pid not in CHECKS:
            na.append({"property_id": pid, "reason": "check not built yet in this session (planned, see DESIGN.md section 3); not claimed until it exists"})
    man = {
        "version": 1,
        "setup_cmd": "./tools/setup.sh",
        "hooks": {
            "guard": "MATID_VERIF",
            "enable": "no hooks: the checks only parse the sources under /repo (ast / clang AST), nothing in /repo is instrumented; MATID_VERIF is reserved and unused",
            "baseline_off_cmd": "cd /repo && /venv/bin/python -m pytest -ra -q -p no:cacheprovider --timeout=900 --continue-on-collection-errors",
            "source_commits": [],
            "add_only": True,
        },
        "engines": [
            {"name": "vstatic", "path": "/verif/vstatic", "serves_properties": sorted(CHECKS),
             "kind_free_text": "repository-specific static analysis: ast-based repository model (imports, class hierarchy, receiver typing, call graph), statement CFG with path queries and reaching definitions, flow-sensitive alias/effect analysis, exact-arithmetic obligations over the literal symmetry tables against spglib's Hall database, clang AST rules for the C++ extension"},
        ],
        "checks": checks,
        "not_applicable": sorted(na, key=lambda x: x["property_id"]),
        "notes": "Exit codes of every check: 0 held / only known findings, 1 VIOLATION, 2 ANALYSIS-ERROR (anchor vanished or shape not modelled: the check is broken, never a silent pass). Genuine defects found on the pinned tree were repaired by 'fix:' commits in /repo and are recorded in known_findings.json under 'fixed'.",
    }
    json.dump(man, open(os.path.join(here, "MANIFEST.json"), "w"), indent=1)
    print("claimed:", sorted(CHECKS), "n/a:", [x["property_id"] for x in man["not_applicable"]])

main()
