#!/venv/bin/python
"""Evaluate seeded breaking changes: for each /verif/seeded/<name>/patch.diff apply it to a scratch
git worktree of /repo (outside /repo and /verif), optionally re-confirm it (pinned suite passes, demo
fails with / passes without), run the checks against the patched copy, remove the worktree.

usage: tools/seed_eval.py [--confirm] [--all-checks] [name ...]
"""
import argparse, json, os, shutil, subprocess, sys, tempfile, glob

VERIF = os.path.dirname(os.path.dirname(os.path.abspath(__file__)))
PY = "/venv/bin/python"
sys.path.insert(0, VERIF)
from vstatic.main import CLAIMED  # noqa: E402


def sh(cmd, **kw):
    return subprocess.run(cmd, shell=isinstance(cmd, str), capture_output=True, text=True, **kw)


def one(patch, a):
    d = os.path.dirname(patch)
    name = os.path.basename(d)
    meta = json.load(open(os.path.join(d, "meta.json")))
    wt = tempfile.mkdtemp(prefix="seedwt-")
    os.rmdir(wt)
    try:
        r = sh(["git", "-C", "/repo", "worktree", "add", "-q", "--detach", wt, "HEAD"])
        if r.returncode:
            print(name, "worktree failed", r.stderr)
            return None
        for so in glob.glob("/repo/matid/*.so"):
            shutil.copy(so, os.path.join(wt, "matid"))
        env = dict(os.environ, PYTHONPATH=wt, PYTHONDONTWRITEBYTECODE="1")
        demo = os.path.join(d, "demo.py")
        res = {"name": name, "property": meta["property"]}
        if a.confirm:
            res["demo_clean"] = sh([PY, demo], env=env, cwd=wt).returncode
        r = sh(["git", "-C", wt, "apply", patch])
        if r.returncode:
            print(name, "patch does not apply:", r.stderr.strip())
            return None
        if a.confirm:
            res["demo_patched"] = sh([PY, demo], env=env, cwd=wt).returncode
            t = sh([PY, "-m", "pytest", "-q", "-p", "no:cacheprovider", "--timeout=900", "-x"], env=env, cwd=wt)
            res["pytest"] = t.stdout.strip().splitlines()[-1] if t.stdout.strip() else t.stderr[-200:]
        pids = CLAIMED if a.all_checks else [meta["property"]]
        fired = {}
        for pid in pids:
            c = sh([os.path.join(VERIF, "check"), pid], env=dict(os.environ, VERIF_REPO=wt, VERIF_NO_EVIDENCE="1"), cwd=VERIF)
            rules = sorted({l.split()[1] for l in c.stdout.splitlines() if l.strip().startswith("violated ")})
            fired[pid] = {"exit": c.returncode, "rules": rules}
        res["checks"] = fired
        own = fired.get(meta["property"], {})
        print(f'{name:10s} {meta["property"]} own-check exit={own.get("exit")} rules={own.get("rules")} '
              + (f'demo clean/patched={res.get("demo_clean")}/{res.get("demo_patched")} pytest="{res.get("pytest")}" ' if a.confirm else "")
              + (" others: " + ", ".join(f"{p}:{v['rules']}" for p, v in fired.items() if p != meta["property"] and v["exit"] != 0) if a.all_checks else ""), flush=True)
        return res
    finally:
        sh(["git", "-C", "/repo", "worktree", "remove", "--force", wt])
        shutil.rmtree(wt, ignore_errors=True)


def main():
    ap = argparse.ArgumentParser()
    ap.add_argument("names", nargs="*")
    ap.add_argument("--confirm", action="store_true", help="re-run pinned suite and demo")
    ap.add_argument("--all-checks", action="store_true")
    ap.add_argument("--jobs", type=int, default=1)
    a = ap.parse_args()
    seeds = sorted(glob.glob(os.path.join(VERIF, "seeded", "*", "patch.diff")))
    rows = []
    todo = [p for p in seeds if not a.names or os.path.basename(os.path.dirname(p)) in a.names]
    import concurrent.futures as cf
    with cf.ThreadPoolExecutor(a.jobs) as ex:
        for res in ex.map(lambda p: one(p, a), todo):
            if res:
                rows.append(res)
    # merge into the stored results: a partial run updates only the seeds it looked at; a run without --confirm keeps the stored confirmation
    rp = os.path.join(VERIF, "seeded", "RESULTS.json")
    try:
        stored = {r["name"]: r for r in json.load(open(rp))}
    except (FileNotFoundError, ValueError):
        stored = {}
    for r in rows:
        old = stored.get(r["name"], {})
        merged = dict(old)
        checks = dict(old.get("checks", {}))
        checks.update(r.get("checks", {}))
        merged.update(r)
        merged["checks"] = checks
        stored[r["name"]] = merged
    existing = {os.path.basename(os.path.dirname(x)) for x in seeds}
    out = [stored[k] for k in sorted(stored, key=lambda n: (n.split("-")[0], int(n.split("-")[1]))) if k in existing]
    tmp = rp + ".tmp"
    json.dump(out, open(tmp, "w"), indent=1)
    os.replace(tmp, rp)
    missed = [r["name"] for r in rows if r["checks"].get(r["property"], {}).get("exit") != 1]
    print(f"{len(rows)} seeded changes, {len(rows) - len(missed)} detected by the check of their property, missed: {missed}")


main()
