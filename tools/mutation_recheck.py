#!/venv/bin/python
"""re-runs the checks (only the checks) on the mutants of seeded/MUTATION_AUDIT.json whose status starts with `missed`, after rules were added;
updates the records with `recheck` = list of checks that now report / [] and prints what is still missed"""
import json, os, shutil, subprocess, sys, tempfile, concurrent.futures as cf, importlib.util
VERIF = os.path.dirname(os.path.dirname(os.path.abspath(__file__)))
spec = importlib.util.spec_from_file_location("ma", os.path.join(VERIF, "tools", "mutation_audit.py"))
ma = importlib.util.module_from_spec(spec); spec.loader.exec_module(ma)
sys.path.insert(0, VERIF)
from vstatic.main import CLAIMED
p = os.path.join(VERIF, "seeded", "MUTATION_AUDIT.json")
recs = json.load(open(p))
todo = [r for r in recs if r["status"].startswith("missed")]
base = tempfile.mkdtemp(prefix="mutrecheck-")
jobs = int(os.environ.get("JOBS", "8"))


def find_idx(r):
    _, ms = ma.mutants_of(r["file"])
    for i, k, d, w in ms:
        if k == r["kind"] and d == r["what"] and w[0] == r["function"] and w[1] == r["line"]:
            return i
    return None


def work(args):
    k, rs = args
    wt = os.path.join(base, f"w{k}")
    subprocess.run(["rsync", "-a", "--exclude", ".git", ma.REPO + "/", wt + "/"], check=True)
    for r in rs:
        i = find_idx(r)
        if i is None:
            r["recheck"] = "mutant not found"
            continue
        orig = open(os.path.join(ma.REPO, r["file"])).read()
        open(os.path.join(wt, r["file"]), "w").write(ma.apply(r["file"], i, r["kind"]))
        fired = []
        for pid in CLAIMED:
            c = subprocess.run([os.path.join(VERIF, "check"), pid], cwd=VERIF, env=dict(os.environ, VERIF_REPO=wt, VERIF_NO_EVIDENCE="1"), capture_output=True, text=True)
            if c.returncode == 1:
                fired.append(pid)
        open(os.path.join(wt, r["file"]), "w").write(orig)
        r["recheck"] = fired
        print(("now reported " if fired else "STILL MISSED ") + f"{r['file']}:{r['line']} {r['function']} {r['what']} {fired} demos={r.get('failing_demos')}", flush=True)
    return rs


try:
    parts = [(k, todo[k::jobs]) for k in range(jobs)]
    with cf.ThreadPoolExecutor(jobs) as ex:
        list(ex.map(work, parts))
finally:
    shutil.rmtree(base, ignore_errors=True)
json.dump(recs, open(p, "w"), indent=1)
print(sum(1 for r in todo if r.get("recheck")), "of", len(todo), "formerly missed mutants are reported now")
