#!/venv/bin/python
"""regenerates the block between SEEDS-BEGIN/SEEDS-END in DESIGN.md from seeded/RESULTS.json"""
import json, os, collections
VERIF = os.path.dirname(os.path.dirname(os.path.abspath(__file__)))
res = json.load(open(os.path.join(VERIF, "seeded", "RESULTS.json")))
by = collections.defaultdict(list)
for r in res:
    by[r["property"]].append(r)
lines = ["| property | seeded changes | detected by own check | rules of the own check that fire (seed numbers) | other checks that also fire |", "|---|---|---|---|---|"]
for pid in sorted(by):
    rs = sorted(by[pid], key=lambda r: int(r["name"].split("-")[1]))
    det = [r for r in rs if r["checks"].get(pid, {}).get("exit") == 1]
    rules = collections.defaultdict(list)
    for r in rs:
        for rule in r["checks"].get(pid, {}).get("rules") or []:
            rules[rule].append(r["name"].split("-")[1])
    others = collections.Counter(p for r in rs for p, v in r["checks"].items() if p != pid and v.get("exit") == 1)
    lines.append(f"| {pid} | {len(rs)} | {len(det)} | " + "; ".join(f"{k} ({','.join(v)})" for k, v in sorted(rules.items())) + " | "
                 + ", ".join(f"{p}×{n}" for p, n in sorted(others.items())) + " |")
nconf = sum(1 for r in res if r.get("demo_clean") == 0 and r.get("demo_patched") == 1 and "110 passed" in (r.get("pytest") or ""))
lines.append("")
lines.append(f"{len(res)} changes; {nconf} re-confirmed in the last full run (pinned suite `110 passed` with the change, demo 0 unchanged / 1 changed); "
             f"{sum(1 for r in res if r['checks'].get(r['property'], {}).get('exit') == 1)} reported by the check of their own property.")
p = os.path.join(VERIF, "DESIGN.md")
s = open(p).read()
a, b = s.index("<!-- SEEDS-BEGIN -->") + len("<!-- SEEDS-BEGIN -->"), s.index("<!-- SEEDS-END -->")
open(p, "w").write(s[:a] + "\n" + "\n".join(lines) + "\n" + s[b:])
print("\n".join(lines[-1:]))
