#!/venv/bin/python
"""regenerates the rule inventory (block RULES-BEGIN/RULES-END of DESIGN.md) from the evidence files written by the checks"""
import json, os, glob, re
VERIF = os.path.dirname(os.path.dirname(os.path.abspath(__file__)))


def key(r):
    m = re.findall(r"\d+", r)
    return ([int(x) for x in m] + [10 ** 6] * 3)[:3] + [r]      # R05.T (no second number) sorts after the numbered rules
lines = ["| property | rule | statement | obligations on /repo (hold / fail) |", "|---|---|---|---|"]
for f in sorted(glob.glob(os.path.join(VERIF, "evidence", "C*.json"))):
    d = json.load(open(f))
    rules = d["coverage"].get("rules") or {}
    for rid in sorted(rules, key=key):
        r = rules[rid]
        lines.append(f"| {d['property_id']} | {rid} | {r['text']} | {r['holds']} / {r['fails']} |")
p = os.path.join(VERIF, "DESIGN.md")
s = open(p).read()
a, b = s.index("<!-- RULES-BEGIN -->") + len("<!-- RULES-BEGIN -->"), s.index("<!-- RULES-END -->")
open(p, "w").write(s[:a] + "\n" + "\n".join(lines) + "\n" + s[b:])
print(len(lines) - 2, "rules")
