#!/venv/bin/python
"""second look at the mutants of seeded/MUTATION_AUDIT.json that no check reports and that made none of the first three demos per property fail: run the next
demos (4th .. Nth) of the properties anchored in the mutated module; a failing demo turns the record into a miss to triage"""
import glob, json, os, shutil, subprocess, sys, tempfile, concurrent.futures as cf, importlib.util
VERIF = os.path.dirname(os.path.dirname(os.path.abspath(__file__)))
spec = importlib.util.spec_from_file_location("ma", os.path.join(VERIF, "tools", "mutation_audit.py"))
ma = importlib.util.module_from_spec(spec); spec.loader.exec_module(ma)
p = os.path.join(VERIF, "seeded", "MUTATION_AUDIT.json")
recs = json.load(open(p))
todo = [r for r in recs if r["status"].startswith("no_demo_fails") and "deeper" not in r]
jobs = int(os.environ.get("JOBS", "14"))
lo, hi = int(os.environ.get("FROM", "3")), int(os.environ.get("TO", "8"))
base = tempfile.mkdtemp(prefix="mutdeep-")


def find_idx(r):
    _, ms = ma.mutants_of(r["file"])
    for i, k, d, w in ms:
        if k == r["kind"] and d == r["what"] and w[0] == r["function"] and w[1] == r["line"]:
            return i


def work(args):
    k, rs = args
    wt = os.path.join(base, f"w{k}")
    subprocess.run(["rsync", "-a", "--exclude", ".git", ma.REPO + "/", wt + "/"], check=True)
    env = dict(os.environ, PYTHONPATH=wt, PYTHONDONTWRITEBYTECODE="1", OMP_NUM_THREADS="1", OPENBLAS_NUM_THREADS="1")
    for r in rs:
        i = find_idx(r)
        if i is None:
            continue
        orig = open(os.path.join(ma.REPO, r["file"])).read()
        open(os.path.join(wt, r["file"]), "w").write(ma.apply(r["file"], i, r["kind"]))
        fails = []
        for pid in ma.FILES[r["file"]]:
            for demo in sorted(glob.glob(os.path.join(VERIF, "seeded", f"{pid}-*", "demo.py")))[lo:hi]:
                try:
                    c = subprocess.run([ma.PY, demo], cwd=wt, env=env, capture_output=True, text=True, timeout=600)
                    if c.returncode != 0:
                        fails.append(os.path.basename(os.path.dirname(demo)))
                except subprocess.TimeoutExpired:
                    fails.append("timeout")
        open(os.path.join(wt, r["file"]), "w").write(orig)
        r["deeper"] = fails
        print(("DEEPER MISS " if fails else "still quiet ") + f"{r['file']}:{r['line']} {r['function']} {r['what']} {fails[:6]}", flush=True)


try:
    with cf.ThreadPoolExecutor(jobs) as ex:
        list(ex.map(work, [(k, todo[k::jobs]) for k in range(jobs)]))
finally:
    shutil.rmtree(base, ignore_errors=True)
json.dump(recs, open(p, "w"), indent=1)
