#!/venv/bin/python
"""Prepare one seeding round: for every requested property (optionally several agents per property, each with a generic 'angle' that comes
from this file and not from any check) create a scratch git worktree of /repo under /tmp/wt<R>/<slot> (compiled extension copied in) and a
prompt /tmp/seed_out<R>/<slot>.prompt that contains ONLY the text of the property from properties.jsonl. Nothing from /verif's rules, seeds
or findings is handed to the agents. usage: seed_prompts.py <round> <ID[:angles]> ...   e.g.  seed_prompts.py 7 C03:ab C04:ab C18:a
Afterwards: launch one sub-agent per slot, `tools/seed_import.py <ID> /tmp/seed_out<R>/<slot>` style import (see seed_round_import below),
and `git -C /repo worktree remove --force /tmp/wt<R>/<slot>` for every slot."""
import glob, json, os, shutil, subprocess, sys
VERIF = os.path.dirname(os.path.dirname(os.path.abspath(__file__)))
REPO = "/repo"
ANGLES = {
    "a": "In this round prefer the CORE mechanisms named under WHERE IT LIVES: a dropped or reordered step, a changed comparison or boundary, "
         "a swapped argument or index, a wrong axis, an early exit, a changed loop range, a quantity taken from the wrong object.",
    "b": "In this round go SIDEWAYS: follow the call chain into helper functions and other modules the property silently depends on "
         "(matid/geometry/geometry.py helpers, matid/core/*.py, matid/utils/*.py, matid/data/*.py constants and tables, "
         "matid/symmetry/*.py, matid/clustering/*.py), look at argument defaults and module-level constants, and at how results of one "
         "function are consumed by the next (shapes, dtypes, ordering, units, in-place edits, aliasing, copies).",
    "c": "In this round prefer STATE and OPTIONS: stale caches or memoised results across repeated calls or reused objects, options / flags / "
         "modes that are stored but not forwarded (or forwarded to the wrong place), defaults that differ between two entry points, "
         "objects handed out and later modified, and boundary inputs inside the quantified family (single atom, mixed periodicity, "
         "left-handed or sheared cells, atoms outside the cell, supercells, elements at the end of a table, extreme but allowed option values).",
    "d": "In this round prefer changes that a maintainer could make while MODERNISING the code: vectorising a loop, replacing a hand-written "
         "computation by a library call (numpy / ASE / spglib / networkx) with subtly different semantics, merging two similar functions, "
         "hoisting an invariant, replacing a dict/list lookup by another, simplifying a condition, removing an apparently redundant copy, wrap or check.",
}
TEMPLATE = """You are testing how well a library's guarantees are protected. The library is nomad-coe/matid (Python + a small C++ extension), checked out as a scratch git worktree at {wt} (work ONLY inside that directory and {out}; never read or modify /repo or /verif).

Environment: run python as `/venv/bin/python`; to use the worktree's code set `PYTHONPATH={wt}` (this overrides the installed copy; verify with `PYTHONPATH={wt} /venv/bin/python -c "import matid; print(matid.__file__)"`). The compiled extension matid/ext*.so is already copied into the worktree; the C++ sources CANNOT be rebuilt here (no pybind11), so change Python code (or the data tables) only. There is no network. Other agents work on this machine in sibling worktrees of the same repository: never use `pkill` / `killall`, and never use `git stash` (the stash is shared by all worktrees) - to set an edit aside use `git diff > file`, `git checkout -- .` and `git apply file`. The pinned test suite is run with: `cd {wt} && PYTHONPATH={wt} /venv/bin/python -m pytest -q -p no:cacheprovider --timeout=900` (110 tests, all pass on the unchanged tree; on a busy machine it can take a few minutes).

Here is one semantic property the library is supposed to satisfy:

Property {pid}: {title}

STATEMENT: {statement}

QUANTIFIED OVER: {quant}

WHY THE EXISTING TESTS CANNOT SETTLE IT: {why}

WHERE IT LIVES (files / mechanisms): {files}
{mech}

{angle}

YOUR TASK: produce {n} different, realistic source changes (each independent, each starting from the unchanged worktree) that BREAK this property while the code still imports and ALL 110 pinned tests still pass. Think of plausible maintenance mistakes: a refactor that subtly changes behaviour, an optimisation, a "cleanup", a wrong default, an off-by-one, a dropped step, a swapped argument, a cache that is not invalidated, a table entry typo ... Prefer changes that need something specific to manifest (an unusual input, a particular parameter value, a multi-step sequence of calls, two cooperating sites that each look fine alone, a space group/element/cell shape no test touches) rather than ones ordinary use would expose at once. The changes should break the property in DIFFERENT ways (different functions or mechanisms if possible, different clauses of the statement). Keep each change small (a few lines); at least one of them should be syntactically tiny (one or two tokens). Work from the current HEAD of the worktree (it contains several small bug fixes made since the property was written).

For each change k in 1..{n} deliver in {out}/:
  - patchK.diff : `git diff` of the worktree (relative to HEAD) containing only that change (apply-able with `git apply` at the repo root);
  - demoK.py : a small self-contained program (uses `import matid...`, ASE, numpy, spglib as needed) that exits 0 and prints PASS when the property holds and exits 1 and prints FAIL with details when it is violated. It must PASS on the unchanged worktree and FAIL with your change applied. Keep its run time under ~60 s. It must test the PROPERTY as stated (with an independent oracle where possible), not the presence of your edit.
  - notesK.md : 5-10 lines: first line = a one-line title of the change; then what you changed, why it breaks the property, what is needed for it to manifest, and the exact commands you ran with their outcomes (pytest result with the change: must be 110 passed; demo result without and with the change).

Procedure per change: edit -> run the full pinned suite (must be 110 passed) -> run the demo (must FAIL) -> `git diff > {out}/patchK.diff` -> `git checkout -- .` (worktree clean again) -> run the demo again (must PASS). Leave the worktree clean at the end (`git status` shows nothing modified).

BONUS (optional, do not spend more than a few minutes): if while exploring you notice that the UNCHANGED code already violates the property for some input, write a minimal reproducer to {out}/existing_defect.py and describe it in {out}/existing_defect.md.

If after honest effort you can find fewer such changes, deliver those and say so. Finish with a short summary of what you delivered.
"""


def main():
    rnd = sys.argv[1]
    n = int(os.environ.get("SEEDS_PER_AGENT", "2"))
    props = {json.loads(l)["id"]: json.loads(l) for l in open(os.path.join(VERIF, "properties.jsonl"))}
    so = glob.glob(os.path.join(REPO, "matid", "ext*.so"))
    for spec in sys.argv[2:]:
        pid, _, angles = spec.partition(":")
        for a in (angles or "a"):
            slot = f"{pid}{a}"
            wt, out = f"/tmp/wt{rnd}/{slot}", f"/tmp/seed_out{rnd}/{slot}"
            os.makedirs(os.path.dirname(wt), exist_ok=True)
            os.makedirs(out, exist_ok=True)
            if not os.path.isdir(wt):
                subprocess.run(["git", "-C", REPO, "worktree", "add", "--detach", wt, "HEAD"], check=True, capture_output=True)
                for s in so:
                    shutil.copy(s, os.path.join(wt, "matid"))
            p = props[pid]
            anchors = p.get("anchors", {})
            mech = "\n".join(f"  - {m['name']} ({m['where']})" for m in anchors.get("mechanism", []))
            state = "\n".join(f"  - state {m['name']}: {m['meaning']} ({m['where']})" for m in anchors.get("state", []))
            text = TEMPLATE.format(wt=wt, out=out, pid=pid, title=p["title"], statement=p["statement"], quant=p["quantifier"]["text"],
                                   why=p["why_tests_cant"], files=json.dumps(anchors.get("files", [])), mech=(state + "\n" + mech).strip("\n"),
                                   angle=ANGLES[a], n=n)
            open(f"/tmp/seed_out{rnd}/{slot}.prompt", "w").write(text)
            print(slot, wt, out)


main()
