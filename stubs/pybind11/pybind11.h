#pragma once
#include <vector>
#include <cstddef>
#include <initializer_list>
#include <stdexcept>
#include <cmath>
#include <unordered_map>
#include <tuple>
#include <string>
#include <map>
#include <memory>
#include <algorithm>
namespace pybind11 {
typedef long ssize_t;
namespace detail {
template <typename T, int N> struct unchecked_reference {
    const T& operator()(ssize_t i) const; const T& operator()(ssize_t i, ssize_t j) const; const T& operator()(ssize_t i, ssize_t j, ssize_t k) const;
    ssize_t shape(int d) const; ssize_t size() const;
};
template <typename T, int N> struct unchecked_mutable_reference {
    T& operator()(ssize_t i); T& operator()(ssize_t i, ssize_t j); T& operator()(ssize_t i, ssize_t j, ssize_t k);
    ssize_t shape(int d) const; ssize_t size() const;
};
}
template <typename T> class array_t {
public:
    array_t(); array_t(std::initializer_list<ssize_t> shape); array_t(const array_t&);
    template <int N> detail::unchecked_reference<T,N> unchecked() const;
    template <int N> detail::unchecked_mutable_reference<T,N> mutable_unchecked();
    ssize_t shape(int d) const; ssize_t size() const;
};
}
