"""Existing defect (unchanged tree): for a flat 2D layer whose atoms lie on the
mirror plane z = 0 of the standardised cell and carry a free in-plane Wyckoff
parameter, get_wyckoff_sets_conventional(return_parameters=True) raises
ValueError.

Prints DEFECT PRESENT and exits 1 when the call fails, prints OK and exits 0
when the parameters are returned and regenerate the atoms.
"""
import sys

import numpy as np
from ase import Atoms

from matid.symmetry.symmetryanalyzer import SymmetryAnalyzer

x = 0.13
atoms = Atoms(
    "CO2",
    scaled_positions=[[0, 0, 0.5], [x, 0, 0.5], [-x, 0, 0.5]],
    cell=[4, 3, 10],
    pbc=[True, True, False],
)
analyzer = SymmetryAnalyzer(atoms, symmetry_tol=0.01)
print("space group:", analyzer.get_space_group_number())
conv = analyzer.get_conventional_system()
print("conventional scaled positions:\n", conv.get_scaled_positions())
print("conventional Wyckoff letters:", analyzer.get_wyckoff_letters_conventional())
print("has free parameters:", analyzer.get_has_free_wyckoff_parameters())
try:
    sets = analyzer.get_wyckoff_sets_conventional(return_parameters=True)
except ValueError as e:
    print("DEFECT PRESENT:", e)
    sys.exit(1)
for wset in sets:
    print(wset, wset.representative)
print("OK")
sys.exit(0)
