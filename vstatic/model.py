"""Repository model: parsed modules, definitions, import resolution, class hierarchy,
light type propagation for repo classes, resolved call graph.

Everything is computed from the sources under REPO/matid with `ast`; matid is never imported.
"""
import ast
import os

from .report import REPO, AnalysisError

PKG = "matid"
SKIP_FILES = ("symmetry_data.py",)          # 60 000-line literal tables: handled by vstatic.tables
SKIP_DIRS = ("symmetry_info_generation",)  # web-scraping scripts, not part of the library behaviour


def unparse(n):
    return ast.unparse(n) if n is not None else ""


class CanonCompare(ast.NodeTransformer):
    """comparison normal form, applied to every parsed module so that rules see one spelling of `a < b` / `b > a`:
    a numeric constant, a parameter of the enclosing function or a `self.<attr>` configuration value goes to the RIGHT
    (`0 < len(x)` -> `len(x) > 0`, `tolerance >= d` -> `d <= tolerance`, `self.min_coverage <= c` -> `c >= self.min_coverage`)"""
    FLIP = {ast.Lt: ast.Gt, ast.Gt: ast.Lt, ast.LtE: ast.GtE, ast.GtE: ast.LtE, ast.Eq: ast.Eq, ast.NotEq: ast.NotEq}

    def __init__(self):
        self.params = [set()]
        self.np_alias = set()

    def visit_Import(self, node):
        """alias normal form: whatever numpy is imported as is read as `np`"""
        for a in node.names:
            if a.name == "numpy" and a.asname not in (None, "np"):
                self.np_alias.add(a.asname)
                a.asname = "np"
        return node

    def visit_Name(self, node):
        if node.id in self.np_alias:
            return ast.copy_location(ast.Name(id="np", ctx=node.ctx), node)
        return node

    def visit_FunctionDef(self, node):
        a = node.args
        ps = {x.arg for x in a.posonlyargs + a.args + a.kwonlyargs} - {"self", "cls"}
        self.params.append(ps)
        self.generic_visit(node)
        self.params.pop()
        return node

    def _rank(self, e):
        if isinstance(e, ast.Constant):
            return 3
        if isinstance(e, ast.UnaryOp) and isinstance(e.op, ast.USub) and isinstance(e.operand, ast.Constant):
            return 3
        if isinstance(e, ast.Attribute) and isinstance(e.value, ast.Name) and e.value.id == "self":
            return 2
        if isinstance(e, ast.Name) and e.id in self.params[-1]:
            return 1
        return 0

    def visit_If(self, node):
        """branch normal form: `if not c: B else: A` is read as `if c: A else: B` (plain if/else only, elif chains are left alone)"""
        # (decided on the test as written, before the negation normal form turns `not a == b` into `a != b`)
        while isinstance(node.test, ast.UnaryOp) and isinstance(node.test.op, ast.Not) and node.orelse \
                and not (len(node.orelse) == 1 and isinstance(node.orelse[0], ast.If)):
            node = ast.copy_location(ast.If(test=node.test.operand, body=node.orelse, orelse=node.body), node)
        self.generic_visit(node)
        # conjunction normal form: `if a: if b: X` (neither with an else) is read as `if a and b: X`
        while not node.orelse and len(node.body) == 1 and isinstance(node.body[0], ast.If) and not node.body[0].orelse:
            inner = node.body[0]
            vals = []
            for t in (node.test, inner.test):
                vals.extend(t.values if isinstance(t, ast.BoolOp) and isinstance(t.op, ast.And) else [t])
            node = ast.copy_location(ast.If(test=ast.copy_location(ast.BoolOp(op=ast.And(), values=vals), node.test), body=inner.body, orelse=[]), node)
        return node

    def visit_UnaryOp(self, node):
        """negation normal form: `not a == b`, `not a in b`, `not a is b` (and their duals) are read as the single comparison with the opposite operator"""
        self.generic_visit(node)
        c = node.operand
        if isinstance(node.op, ast.Not) and isinstance(c, ast.Compare) and len(c.ops) == 1 and type(c.ops[0]) in EXACT_NEGATION:
            return ast.copy_location(ast.Compare(left=c.left, ops=[EXACT_NEGATION[type(c.ops[0])]()], comparators=c.comparators), node)
        return node

    def visit_Compare(self, node):
        self.generic_visit(node)
        if len(node.ops) == 1 and type(node.ops[0]) in self.FLIP:
            l, r = node.left, node.comparators[0]
            if self._rank(l) > self._rank(r):
                new = ast.Compare(left=r, ops=[self.FLIP[type(node.ops[0])]()], comparators=[l])
                node = ast.copy_location(new, node)
            # emptiness normal form: `len(x) > 0`, `len(x) >= 1` are read as `len(x) != 0`; `len(x) < 1`, `len(x) <= 0` as `len(x) == 0`
            l, r, op = node.left, node.comparators[0], type(node.ops[0])
            if isinstance(l, ast.Call) and isinstance(l.func, ast.Name) and l.func.id == "len" and isinstance(r, ast.Constant) \
                    and type(r.value) is int:
                if (op, r.value) in ((ast.Gt, 0), (ast.GtE, 1)):
                    node = ast.copy_location(ast.Compare(left=l, ops=[ast.NotEq()], comparators=[ast.copy_location(ast.Constant(0), r)]), node)
                elif (op, r.value) in ((ast.Lt, 1), (ast.LtE, 0)):
                    node = ast.copy_location(ast.Compare(left=l, ops=[ast.Eq()], comparators=[ast.copy_location(ast.Constant(0), r)]), node)
        return node


TERMINATORS = (ast.Return, ast.Raise, ast.Continue, ast.Break)


def _blocks(node):
    for f in ("body", "orelse", "finalbody"):
        v = getattr(node, f, None)
        if isinstance(v, list) and v and isinstance(v[0], ast.stmt):
            yield node, f, v      # ExceptHandler nodes have a `body` of their own and are reached by the walk


EXACT_NEGATION = {ast.Eq: ast.NotEq, ast.NotEq: ast.Eq, ast.Is: ast.IsNot, ast.IsNot: ast.Is, ast.In: ast.NotIn, ast.NotIn: ast.In}


def canon_blocks(tree):
    """block normal forms, applied after CanonCompare:
    * `if c: ...; return/raise/continue/break  else: REST` (and the same spelled as an elif chain) is read as `if c: ...` followed by REST;
    * `t = E; return t` with t used nowhere else in the function is read as `return E`;
    * an annotated assignment of a local name is read as a plain assignment, and a `pass` that is not the only statement of its block is dropped;
    * `x = A if c else B` is read as `if c: x = A  else: x = B`;
    * a guard clause `if not c: continue` (bare `return` at function level) followed by REST is read as `if c: REST`;
    * `u = CALL; a = u[0]; b = u[1]` with u used nowhere else is read as `a, b = CALL`;
    * `t = g(...); x = f(..., t, ...)` with t used nowhere else is read as `x = f(..., g(...), ...)` (a temporary introduced for a nested call)."""
    def flatten(stmts):
        out = []
        for s in stmts:
            out.append(s)
            if isinstance(s, ast.If) and s.orelse and isinstance(s.body[-1], TERMINATORS):
                rest, s.orelse = s.orelse, []
                out.extend(flatten(rest))
        return out

    def plain(stmts):
        """`x: T = E` is read as `x = E` (the annotation of a local has no run-time effect); a `pass` next to other statements is dropped"""
        out = []
        for s in stmts:
            if isinstance(s, ast.AnnAssign) and s.value is not None and s.simple and isinstance(s.target, ast.Name):
                s = ast.copy_location(ast.Assign(targets=[s.target], value=s.value, type_comment=None), s)
            if isinstance(s, ast.Assign) and isinstance(s.value, ast.IfExp) and len(s.targets) == 1 and isinstance(s.targets[0], ast.Name):
                # `x = A if c else B` is read as `if c: x = A  else: x = B`
                t2 = ast.Name(id=s.targets[0].id, ctx=ast.Store())
                s = ast.copy_location(ast.If(test=s.value.test, body=[ast.copy_location(ast.Assign(targets=[s.targets[0]], value=s.value.body, type_comment=None), s)],
                                             orelse=[ast.copy_location(ast.Assign(targets=[ast.copy_location(t2, s)], value=s.value.orelse, type_comment=None), s)]), s)
            out.append(s)
        kept = [s for s in out if not isinstance(s, ast.Pass)]
        return kept if kept else out[:1]

    for node in list(ast.walk(tree)):
        for owner, f, v in list(_blocks(node)):
            if not isinstance(owner, ast.ClassDef):
                setattr(owner, f, plain(v))
    def unguard(stmts, leave):
        """`if not c: continue` followed by REST up to the end of the loop body is read as `if c: REST` (same for a bare `return` at function level)"""
        for i, s in enumerate(stmts[:-1]):
            if isinstance(s, ast.If) and not s.orelse and len(s.body) == 1 and isinstance(s.body[0], leave) and getattr(s.body[0], "value", None) is None:
                if isinstance(s.test, ast.UnaryOp) and isinstance(s.test.op, ast.Not):
                    pos = s.test.operand
                elif isinstance(s.test, ast.Compare) and len(s.test.ops) == 1 and type(s.test.ops[0]) in EXACT_NEGATION:
                    pos = ast.copy_location(ast.Compare(left=s.test.left, ops=[EXACT_NEGATION[type(s.test.ops[0])]()], comparators=s.test.comparators), s.test)
                else:
                    pos = ast.copy_location(ast.UnaryOp(op=ast.Not(), operand=s.test), s.test)
                rest = unguard(stmts[i + 1:], leave)
                return stmts[:i] + [ast.copy_location(ast.If(test=pos, body=rest, orelse=[]), s)]
        return stmts

    for node in list(ast.walk(tree)):
        if isinstance(node, (ast.For, ast.While)):
            node.body = unguard(node.body, ast.Continue)
        elif isinstance(node, (ast.FunctionDef, ast.AsyncFunctionDef)) and not any(isinstance(x, (ast.Yield, ast.YieldFrom)) for x in ast.walk(node)):
            node.body = unguard(node.body, ast.Return)
    for node in list(ast.walk(tree)):
        for owner, f, v in list(_blocks(node)):
            setattr(owner, f, flatten(v))
    for fn in [n for n in ast.walk(tree) if isinstance(n, (ast.FunctionDef, ast.AsyncFunctionDef))]:
        counts = {}
        for n in ast.walk(fn):
            if isinstance(n, ast.Name):
                counts[n.id] = counts.get(n.id, 0) + 1
        pairs = {}
        for node in ast.walk(fn):
            for owner, f, v in list(_blocks(node)):
                if len(v) >= 2 and isinstance(v[-1], ast.Return) and isinstance(v[-1].value, ast.Name) and isinstance(v[-2], ast.Assign) \
                        and len(v[-2].targets) == 1 and isinstance(v[-2].targets[0], ast.Name) and v[-2].targets[0].id == v[-1].value.id:
                    pairs.setdefault(v[-1].value.id, []).append(v)
        for name, blocks in pairs.items():
            if counts.get(name) == 2 * len(blocks):     # every occurrence of the name is one of these assign-then-return pairs
                for v in blocks:
                    v[-1].value = v[-2].value
                    del v[-2]
        # `u = CALL; a = u[0]; b = u[1]; ...` (u occurring nowhere else, indices 0..n-1 in order, plain names on the left) is read as `a, b, ... = CALL`
        counts = {}
        for n in ast.walk(fn):
            if isinstance(n, ast.Name):
                counts[n.id] = counts.get(n.id, 0) + 1
        for node in ast.walk(fn):
            for owner, f, v in list(_blocks(node)):
                i = 0
                while i < len(v):
                    a = v[i]
                    if isinstance(a, ast.Assign) and len(a.targets) == 1 and isinstance(a.targets[0], ast.Name) and isinstance(a.value, ast.Call):
                        u, k, names = a.targets[0].id, 0, []
                        while i + 1 + k < len(v):
                            b = v[i + 1 + k]
                            if isinstance(b, ast.Assign) and len(b.targets) == 1 and isinstance(b.targets[0], ast.Name) and isinstance(b.value, ast.Subscript) \
                                    and isinstance(b.value.value, ast.Name) and b.value.value.id == u and isinstance(b.value.slice, ast.Constant) and b.value.slice.value == k:
                                names.append(b.targets[0])
                                k += 1
                            else:
                                break
                        if k >= 2 and counts.get(u) == 1 + k and len({x.id for x in names}) == k:
                            tup = ast.copy_location(ast.Tuple(elts=names, ctx=ast.Store()), a)
                            v[i] = ast.copy_location(ast.Assign(targets=[tup], value=a.value, type_comment=None), a)
                            del v[i + 1:i + 1 + k]
                    i += 1
        # `t = g(...); x = f(..., t, ...)` (t occurring nowhere else in the function, t a direct positional argument of the call that is the
        # value of the next statement, every earlier argument free of calls) is read as `x = f(..., g(...), ...)`
        changed = True
        while changed:
            changed = False
            counts = {}
            for n in ast.walk(fn):
                if isinstance(n, ast.Name):
                    counts[n.id] = counts.get(n.id, 0) + 1
            for node in ast.walk(fn):
                for owner, f, v in list(_blocks(node)):
                    for i in range(len(v) - 1):
                        a, b = v[i], v[i + 1]
                        if not (isinstance(a, ast.Assign) and len(a.targets) == 1 and isinstance(a.targets[0], ast.Name) and isinstance(a.value, ast.Call)):
                            continue
                        t = a.targets[0].id
                        call = b.value if isinstance(b, (ast.Assign, ast.Return, ast.Expr)) else None
                        if counts.get(t) != 2 or not isinstance(call, ast.Call) or any(isinstance(x, ast.Call) for x in ast.walk(call.func)):
                            continue
                        for k, arg in enumerate(call.args):
                            if isinstance(arg, ast.Name) and arg.id == t:
                                if not any(isinstance(x, ast.Call) for e in call.args[:k] for x in ast.walk(e)):
                                    call.args[k] = a.value
                                    del v[i]
                                    changed = True
                                break
                        if changed:
                            break
                    if changed:
                        break
                if changed:
                    break
    return tree


def norm(n):
    """normalised text of a construct: formatting-independent key for findings"""
    return " ".join(ast.unparse(n).split())


def slice_text(sub):
    """text of the index of a Subscript node, e.g. ':, 0:3'"""
    whole, base = ast.unparse(sub), ast.unparse(sub.value)
    return " ".join(whole[len(base) + 1:-1].split())


class Model:
    def __init__(self, root=None):
        self.root = root or REPO
        self.mods = {}
        self.paths = {}
        self.src = {}
        pk = os.path.join(self.root, PKG)
        if not os.path.isdir(pk):
            raise AnalysisError(f"package directory {pk} missing")
        for dp, dn, fn in os.walk(pk):
            if any(s in dp for s in SKIP_DIRS):
                continue
            for f in sorted(fn):
                if f.endswith(".py") and f not in SKIP_FILES:
                    p = os.path.join(dp, f)
                    name = os.path.relpath(p, self.root)[:-3].replace("/", ".")
                    if name.endswith(".__init__"):
                        name = name[:-9]
                    text = open(p).read()
                    try:
                        self.mods[name] = ast.fix_missing_locations(canon_blocks(CanonCompare().visit(ast.parse(text, p))))
                    except SyntaxError as e:
                        raise AnalysisError(f"{p} does not parse: {e}")
                    self.paths[name] = p
                    self.src[name] = text
        self.defs = {}
        self.owner_mod = {}
        self.parent = {}       # qual -> enclosing qual (function/class) or module
        for m, t in self.mods.items():
            self._collect(m, t, m)
        self.ns = {m: {} for m in self.mods}
        for _ in range(4):
            for m, t in self.mods.items():
                self._imports(m, t)
        self._own = {}
        self._types = None
        self._cg = None
        self.canon_calls = self._canon_calls()

    def _canon_calls(self):
        """argument normal form for calls of package functions / methods / constructors (callee resolved through imports, receiver types
        and the class hierarchy): keyword arguments that continue the positional prefix of the callee's parameter list are read as
        positional (`f(system=s, threshold=t, radii=r)` with `def f(system, threshold, dist=None, radii=...)` -> `f(s, t, radii=r)`;
        `f(s, t, d, radii=r)` -> `f(s, t, d, r)`), so a rule sees one spelling whichever way a call passes its leading arguments"""
        n = 0
        for fq, d in list(self.defs.items()):
            if not isinstance(d, (ast.FunctionDef, ast.AsyncFunctionDef)):
                continue
            for call in [x for x in self.own_nodes(fq) if isinstance(x, ast.Call)]:
                if not call.keywords or any(isinstance(a, ast.Starred) for a in call.args) or any(k.arg is None for k in call.keywords):
                    continue
                cs = self.callees_of_call(fq, call)
                if len(cs) != 1:
                    continue
                callee = next(iter(cs))
                fn = self.defs[callee]
                if fn.args.vararg or fn.args.posonlyargs:
                    continue
                ps = self.params(callee)
                kws = {k.arg: k for k in call.keywords}
                moved = False
                while len(call.args) < len(ps) and ps[len(call.args)] in kws:
                    k = kws.pop(ps[len(call.args)])
                    call.args.append(k.value)
                    call.keywords.remove(k)
                    moved = True
                n += moved
        return n

    # ------------------------------------------------------------------ definitions
    def _collect(self, m, node, prefix):
        for ch in ast.iter_child_nodes(node):
            if isinstance(ch, (ast.FunctionDef, ast.AsyncFunctionDef, ast.ClassDef)):
                q = prefix + "." + ch.name
                if q in self.defs and any(unparse(d).endswith((".setter", ".deleter"))
                                          for d in getattr(ch, "decorator_list", [])):
                    q = q + "@" + unparse(ch.decorator_list[-1]).rsplit(".", 1)[1]
                self.defs[q] = ch
                self.owner_mod[q] = m
                self.parent[q] = prefix
                self._collect(m, ch, q)
            elif not isinstance(ch, ast.expr):
                self._collect(m, ch, prefix)

    def _mod_attr(self, modname, attr):
        q = modname + "." + attr
        if q in self.defs:
            return q
        if modname in self.ns and attr in self.ns[modname]:
            return self.ns[modname][attr]
        if q in self.mods:
            return ("module", q)
        return None

    def _imports(self, m, t):
        for n in ast.walk(t):
            if isinstance(n, ast.ImportFrom) and n.module:
                for a in n.names:
                    if n.module == PKG or n.module.startswith(PKG + "."):
                        if a.name == "*":
                            src = n.module
                            for q in list(self.defs):
                                if q.rsplit(".", 1)[0] == src:
                                    self.ns[m][q.rsplit(".", 1)[1]] = q
                            for k, v in self.ns.get(src, {}).items():
                                self.ns[m].setdefault(k, v)
                            # module-level constants of the source are visible too
                            for k in self.module_globals(src):
                                self.ns[m].setdefault(k, ("global", src + "." + k))
                        else:
                            r = self._mod_attr(n.module, a.name)
                            if r:
                                self.ns[m][a.asname or a.name] = r
                            else:
                                self.ns[m][a.asname or a.name] = ("global", n.module + "." + a.name)
                    else:
                        self.ns[m][a.asname or a.name] = ("ext", n.module + "." + a.name)
            elif isinstance(n, ast.Import):
                for a in n.names:
                    top = a.name.split(".")[0]
                    if top == PKG:
                        self.ns[m][a.asname or top] = ("module", a.name if a.asname else top)
                    else:
                        self.ns[m][a.asname or top] = ("ext", a.name if a.asname else top)

    def module_globals(self, m):
        out = {}
        t = self.mods.get(m)
        if t is None:
            return out
        for s in t.body:
            if isinstance(s, ast.Assign):
                for tg in s.targets:
                    if isinstance(tg, ast.Name):
                        out[tg.id] = s.value
        return out

    def functions(self):
        return {q: d for q, d in self.defs.items() if isinstance(d, (ast.FunctionDef, ast.AsyncFunctionDef))}

    def classes(self):
        return {q: d for q, d in self.defs.items() if isinstance(d, ast.ClassDef)}

    def func(self, q):
        d = self.defs.get(q)
        if not isinstance(d, (ast.FunctionDef, ast.AsyncFunctionDef)):
            raise AnalysisError(f"anchor function {q} not found in {self.root}")
        return d

    def cls(self, q):
        d = self.defs.get(q)
        if not isinstance(d, ast.ClassDef):
            raise AnalysisError(f"anchor class {q} not found in {self.root}")
        return d

    def where(self, q, node=None):
        m = self.owner_mod.get(q, q)
        p = os.path.relpath(self.paths.get(m, m), self.root)
        ln = getattr(node, "lineno", None) or getattr(self.defs.get(q), "lineno", "?")
        return f"{p}:{ln} ({q.replace('matid.', '', 1)})"

    # ------------------------------------------------------------------ hierarchy
    def enclosing_class(self, fq):
        p = fq
        while p in self.parent:
            p = self.parent[p]
            if isinstance(self.defs.get(p), ast.ClassDef):
                return p
            if isinstance(self.defs.get(p), (ast.FunctionDef, ast.AsyncFunctionDef)):
                continue
        return None

    def bases(self, cq):
        out = []
        c = self.defs[cq]
        m = self.owner_mod[cq]
        for b in c.bases:
            r = self._resolve_in_module(m, b)
            if isinstance(r, str) and isinstance(self.defs.get(r), ast.ClassDef):
                out.append(r)
            elif r is not None:
                out.append(r)
            else:
                out.append(("ext", unparse(b)))
        return out

    def mro(self, cq):
        out, todo = [], [cq]
        while todo:
            c = todo.pop(0)
            if isinstance(c, str) and c in self.defs and c not in out:
                out.append(c)
                todo.extend(self.bases(c))
        return out

    def is_subclass(self, a, b):
        return b in self.mro(a)

    def find_method(self, cq, name):
        for c in self.mro(cq):
            if c + "." + name in self.defs:
                return c + "." + name
        return None

    def ext_bases(self, cq):
        out = []
        for c in self.mro(cq):
            for b in self.bases(c):
                if isinstance(b, tuple) and b[0] == "ext":
                    out.append(b[1])
        return out

    # ------------------------------------------------------------------ name resolution
    def _resolve_in_module(self, m, e):
        if isinstance(e, ast.Name):
            if m + "." + e.id in self.defs:
                return m + "." + e.id
            return self.ns[m].get(e.id)
        if isinstance(e, ast.Attribute):
            base = self._resolve_in_module(m, e.value)
            if isinstance(base, tuple) and base[0] == "module":
                return self._mod_attr(base[1], e.attr)
            if isinstance(base, tuple) and base[0] == "ext":
                return ("ext", base[1] + "." + e.attr)
            if isinstance(base, str) and isinstance(self.defs.get(base), ast.ClassDef):
                return self.find_method(base, e.attr)
        return None

    def resolve(self, fq, e):
        """resolve an expression used as a callee / name inside definition `fq` to
        a repo qualified name, ('ext', dotted), ('module', name), ('global', dotted) or None"""
        m = self.owner_mod.get(fq, fq if fq in self.mods else None)
        if m is None:
            return None
        if isinstance(e, ast.Name):
            p = fq
            while p and p != m:
                if p + "." + e.id in self.defs and not isinstance(self.defs.get(p), ast.ClassDef):
                    return p + "." + e.id
                p = self.parent.get(p)
            return self._resolve_in_module(m, e)
        if isinstance(e, ast.Attribute):
            if isinstance(e.value, ast.Name) and e.value.id == "self":
                c = self.enclosing_class(fq)
                if c:
                    return self.find_method(c, e.attr)
                return None
            if (isinstance(e.value, ast.Call) and isinstance(e.value.func, ast.Name)
                    and e.value.func.id == "super"):
                c = self.enclosing_class(fq)
                if c:
                    for b in self.mro(c)[1:]:
                        if b + "." + e.attr in self.defs:
                            return b + "." + e.attr
                return None
            base = self.resolve(fq, e.value)
            if isinstance(base, tuple) and base[0] == "module":
                return self._mod_attr(base[1], e.attr)
            if isinstance(base, tuple) and base[0] == "ext":
                return ("ext", base[1] + "." + e.attr)
            if isinstance(base, str) and isinstance(self.defs.get(base), ast.ClassDef):
                return self.find_method(base, e.attr)
            # typed receiver
            for t in self.types_of(fq, e.value):
                if t[0] == "obj":
                    r = self.find_method(t[1], e.attr)
                    if r:
                        return r
        return None

    def own_nodes(self, fq):
        """AST nodes of definition fq, excluding bodies of nested defs/classes (lambdas included)"""
        if fq in self._own:
            return self._own[fq]
        root = self.defs[fq] if fq in self.defs else self.mods[fq]
        out = []

        def rec(n):
            for c in ast.iter_child_nodes(n):
                if isinstance(c, (ast.FunctionDef, ast.AsyncFunctionDef, ast.ClassDef)):
                    continue
                out.append(c)
                rec(c)
        rec(root)
        self._own[fq] = out
        return out

    def params(self, fq, drop_self=True):
        a = self.defs[fq].args
        ps = [x.arg for x in a.posonlyargs + a.args]
        if drop_self and ps and ps[0] in ("self", "cls") and self.enclosing_class(fq) == self.parent.get(fq):
            decos = [unparse(d) for d in self.defs[fq].decorator_list]
            if "staticmethod" not in decos:
                ps = ps[1:]
        return ps

    # ------------------------------------------------------------------ type propagation
    # types: ("obj", classqual) | ("list", T) | ("dict", T) | ("tuple", (T|None,...)) | ("set", T)
    def types_of(self, fq, e):
        self._ensure_types()
        return self._types_of(fq, e)

    def _ensure_types(self):
        if self._types is not None:
            return
        self._types = {}     # (fq, var) -> set(types);  (fq, "self.attr") for instance attributes keyed by class
        self._ret = {}
        self._attr = {}      # (classqual, attr) -> set(types)
        funcs = self.functions()
        for _ in range(12):
            changed = False
            for fq in funcs:
                changed |= self._type_step(fq)
            if not changed:
                break

    def _add(self, d, k, t):
        if t is None:
            return False
        s = d.setdefault(k, set())
        if t in s or len(s) > 12:
            return False
        s.add(t)
        return True

    def _callee_def(self, fq, call):
        r = self.resolve_noty(fq, call.func)
        if isinstance(r, str):
            d = self.defs.get(r)
            if isinstance(d, ast.ClassDef):
                return ("class", r)
            return ("func", r)
        return None

    def resolve_noty(self, fq, e):
        """resolution that uses the types computed so far (safe while the fixpoint runs)"""
        return self.resolve(fq, e)

    def _types_of(self, fq, e, depth=0):
        out = set()
        if depth > 6 or self._types is None:
            return out
        T = self._types
        if isinstance(e, ast.Name):
            p = fq
            while p:
                if (p, e.id) in T:
                    out |= T[(p, e.id)]
                    break
                p = self.parent.get(p)
                if p in self.mods:
                    break
        elif isinstance(e, ast.Attribute):
            if isinstance(e.value, ast.Name) and e.value.id == "self":
                c = self.enclosing_class(fq)
                if c:
                    for k in self.mro(c):
                        out |= self._attr.get((k, e.attr), set())
            else:
                for t in self._types_of(fq, e.value, depth + 1):
                    if t[0] == "obj":
                        for k in self.mro(t[1]):
                            out |= self._attr.get((k, e.attr), set())
        elif isinstance(e, ast.Call):
            f = e.func
            r = None
            if isinstance(f, ast.Name) or isinstance(f, ast.Attribute):
                r = self._resolve_for_types(fq, f, depth)
            if isinstance(r, str):
                d = self.defs.get(r)
                if isinstance(d, ast.ClassDef):
                    out.add(("obj", r))
                else:
                    out |= self._ret.get(r, set())
            if isinstance(f, ast.Attribute):
                for t in self._types_of(fq, f.value, depth + 1):
                    if t[0] == "list" and f.attr == "pop":
                        out.add(t[1])
                    if t[0] == "list" and f.attr == "copy":
                        out.add(t)
                    if t[0] == "dict" and f.attr == "values":
                        out.add(("list", t[1]))
                    if t[0] == "dict" and f.attr == "items":
                        out.add(("list", ("tuple", (None, t[1]))))
                    if t[0] == "dict" and f.attr in ("get", "pop"):
                        out.add(t[1])
            if isinstance(f, ast.Name) and f.id in ("list", "sorted", "reversed", "tuple") and e.args:
                out |= {t for t in self._types_of(fq, e.args[0], depth + 1) if t[0] == "list"}
            if isinstance(f, ast.Name) and f.id == "enumerate" and e.args:
                for t in self._types_of(fq, e.args[0], depth + 1):
                    if t[0] == "list":
                        out.add(("list", ("tuple", (None, t[1]))))
            if isinstance(f, ast.Name) and f.id in ("max", "min") and e.args:
                for t in self._types_of(fq, e.args[0], depth + 1):
                    if t[0] == "list":
                        out.add(t[1])
        elif isinstance(e, ast.Subscript):
            for t in self._types_of(fq, e.value, depth + 1):
                if t[0] in ("list", "dict"):
                    if isinstance(e.slice, ast.Slice):
                        out.add(t)
                    else:
                        out.add(t[1])
                if t[0] == "tuple" and isinstance(e.slice, ast.Constant) and isinstance(e.slice.value, int):
                    i = e.slice.value
                    if -len(t[1]) <= i < len(t[1]) and t[1][i] is not None:
                        out.add(t[1][i])
        elif isinstance(e, ast.BinOp) and isinstance(e.op, ast.Add):
            out |= {t for t in self._types_of(fq, e.left, depth + 1) | self._types_of(fq, e.right, depth + 1)
                    if t[0] == "list"}
        elif isinstance(e, (ast.List, ast.Tuple)) and isinstance(e.ctx, ast.Load):
            if isinstance(e, ast.Tuple):
                parts = []
                for el in e.elts:
                    ts = self._types_of(fq, el, depth + 1)
                    parts.append(sorted(ts, key=repr)[0] if ts else None)
                if any(p is not None for p in parts):
                    out.add(("tuple", tuple(parts)))
            else:
                for el in e.elts:
                    for t in self._types_of(fq, el, depth + 1):
                        out.add(("list", t))
        elif isinstance(e, ast.IfExp):
            out |= self._types_of(fq, e.body, depth + 1) | self._types_of(fq, e.orelse, depth + 1)
        elif isinstance(e, ast.ListComp):
            # [f(x) for x in xs]: only element expressions that are plain loop variables are typed
            if isinstance(e.elt, ast.Name) and len(e.generators) == 1 and isinstance(e.generators[0].target, ast.Name) \
                    and e.generators[0].target.id == e.elt.id:
                out |= {t for t in self._types_of(fq, e.generators[0].iter, depth + 1) if t[0] == "list"}
        return out

    def _resolve_for_types(self, fq, f, depth):
        m = self.owner_mod.get(fq)
        if isinstance(f, ast.Name):
            p = fq
            while p and p != m:
                if p + "." + f.id in self.defs and not isinstance(self.defs.get(p), ast.ClassDef):
                    return p + "." + f.id
                p = self.parent.get(p)
            return self._resolve_in_module(m, f)
        if isinstance(f, ast.Attribute):
            if isinstance(f.value, ast.Name) and f.value.id == "self":
                c = self.enclosing_class(fq)
                return self.find_method(c, f.attr) if c else None
            base = self._resolve_for_types(fq, f.value, depth) if isinstance(f.value, (ast.Name, ast.Attribute)) else None
            if isinstance(base, tuple) and base[0] == "module":
                return self._mod_attr(base[1], f.attr)
            if isinstance(base, tuple):
                return None
            if isinstance(base, str) and isinstance(self.defs.get(base), ast.ClassDef):
                return self.find_method(base, f.attr)
            for t in self._types_of(fq, f.value, depth + 1):
                if t[0] == "obj":
                    r = self.find_method(t[1], f.attr)
                    if r:
                        return r
        return None

    def _bind(self, fq, tgt, types):
        ch = False
        if isinstance(tgt, ast.Name):
            for t in types:
                ch |= self._add(self._types, (fq, tgt.id), t)
        elif isinstance(tgt, ast.Attribute):
            if isinstance(tgt.value, ast.Name) and tgt.value.id == "self":
                c = self.enclosing_class(fq)
                if c:
                    for t in types:
                        ch |= self._add(self._attr, (c, tgt.attr), t)
            else:
                for rt in self._types_of(fq, tgt.value):
                    if rt[0] == "obj":
                        for t in types:
                            ch |= self._add(self._attr, (rt[1], tgt.attr), t)
        elif isinstance(tgt, (ast.Tuple, ast.List)):
            for t in types:
                if t and t[0] == "tuple":
                    for sub, st in zip(tgt.elts, t[1]):
                        if st is not None:
                            ch |= self._bind(fq, sub, {st})
        return ch

    def _type_step(self, fq):
        ch = False
        fn = self.defs[fq]
        for node in self.own_nodes(fq):
            if isinstance(node, ast.Assign):
                ts = self._types_of(fq, node.value)
                if ts:
                    for tgt in node.targets:
                        ch |= self._bind(fq, tgt, ts)
            elif isinstance(node, (ast.For, ast.comprehension)):
                for t in self._types_of(fq, node.iter):
                    if t[0] in ("list", "set"):
                        ch |= self._bind(fq, node.target, {t[1]})
            elif isinstance(node, ast.Call):
                f = node.func
                if isinstance(f, ast.Attribute) and f.attr in ("append", "add") and node.args:
                    for t in self._types_of(fq, node.args[0]):
                        recv = f.value
                        if isinstance(recv, ast.Name):
                            ch |= self._add(self._types, (fq, recv.id), ("list", t))
                        elif isinstance(recv, ast.Subscript) and isinstance(recv.value, ast.Name):
                            ch |= self._add(self._types, (fq, recv.value.id), ("dict", ("list", t)))
                        elif isinstance(recv, ast.Attribute) and isinstance(recv.value, ast.Name) and recv.value.id == "self":
                            c = self.enclosing_class(fq)
                            if c:
                                ch |= self._add(self._attr, (c, recv.attr), ("list", t))
                r = self._resolve_for_types(fq, f, 0) if isinstance(f, (ast.Name, ast.Attribute)) else None
                callee = None
                if isinstance(r, str):
                    if isinstance(self.defs.get(r), ast.ClassDef):
                        callee = self.find_method(r, "__init__")
                    else:
                        callee = r
                if callee:
                    ps = self.params(callee)
                    for p, a in zip(ps, node.args):
                        if isinstance(a, ast.Starred):
                            break
                        for t in self._types_of(fq, a):
                            ch |= self._add(self._types, (callee, p), t)
                    for kw in node.keywords:
                        if kw.arg in ps or kw.arg in [x.arg for x in self.defs[callee].args.kwonlyargs]:
                            for t in self._types_of(fq, kw.value):
                                ch |= self._add(self._types, (callee, kw.arg), t)
            elif isinstance(node, ast.Return) and node.value is not None:
                for t in self._types_of(fq, node.value):
                    ch |= self._add(self._ret, fq, t)
        # `self` parameter
        c = self.enclosing_class(fq)
        if c and self.parent.get(fq) == c:
            a = fn.args.posonlyargs + fn.args.args
            if a and a[0].arg == "self":
                ch |= self._add(self._types, (fq, "self"), ("obj", c))
        return ch

    def bind_args(self, callee, call):
        """{param name: argument expr} for a call of repo function `callee` (self excluded)"""
        fn = self.defs[callee]
        ps = self.params(callee)
        out = {}
        for p, a in zip(ps, call.args):
            if isinstance(a, ast.Starred):
                break
            out[p] = a
        names = set(ps) | {x.arg for x in fn.args.kwonlyargs}
        for k in call.keywords:
            if k.arg in names:
                out[k.arg] = k.value
        return out

    def calls_to(self, fq, callee):
        """call expressions inside fq that may invoke repo function `callee`"""
        return [n for n in self.own_nodes(fq) if isinstance(n, ast.Call) and callee in self.callees_of_call(fq, n)]

    def ext_name(self, fq, f):
        r = self.resolve(fq, f)
        return r[1] if isinstance(r, tuple) and r[0] == "ext" else None

    # ------------------------------------------------------------------ call graph
    def callees_of_call(self, fq, call):
        """set of repo function quals a call expression may invoke"""
        out = set()
        r = self.resolve(fq, call.func)
        if isinstance(r, str):
            d = self.defs.get(r)
            if isinstance(d, ast.ClassDef):
                i = self.find_method(r, "__init__")
                if i:
                    out.add(i)
            elif d is not None:
                out.add(r)
        return out

    def callgraph(self):
        if self._cg is not None:
            return self._cg
        g = {}
        self.call_sites = {}     # fq -> [(call, callees)]
        self.unresolved = {}
        for fq in self.functions():
            callees = set()
            sites = []
            for n in self.own_nodes(fq):
                if isinstance(n, ast.Call):
                    cs = self.callees_of_call(fq, n)
                    if not cs and isinstance(n.func, ast.Attribute):
                        # method on an untyped receiver: unique method name among repo classes,
                        # and the name is not an ASE/numpy/stdlib method we know
                        cands = [q for q, d in self.functions().items()
                                 if q.rsplit(".", 1)[1] == n.func.attr
                                 and isinstance(self.defs.get(self.parent.get(q)), ast.ClassDef)]
                        r = self.resolve(fq, n.func)
                        recv = n.func.value
                        builtin_recv = isinstance(recv, ast.Name) and recv.id in BUILTIN_NAMES
                        if r is None and len(cands) == 1 and n.func.attr not in COMMON_EXT_METHODS \
                                and not n.func.attr.startswith("__") and not builtin_recv:
                            cs = {cands[0]}
                    sites.append((n, cs))
                    callees |= cs
                # property reads on typed receivers
                if isinstance(n, ast.Attribute) and isinstance(n.ctx, ast.Load):
                    for t in self.types_of(fq, n.value):
                        if t[0] == "obj":
                            r = self.find_method(t[1], n.attr)
                            if r and any(unparse(d) == "property" for d in self.defs[r].decorator_list):
                                callees.add(r)
            for q in self.defs:
                if self.parent.get(q) == fq and isinstance(self.defs[q], (ast.FunctionDef, ast.AsyncFunctionDef)):
                    callees.add(q)
            g[fq] = callees
            self.call_sites[fq] = sites
        self._cg = g
        return g

    def reachable(self, roots):
        g = self.callgraph()
        seen, st = set(), list(roots)
        while st:
            f = st.pop()
            if f in seen:
                continue
            seen.add(f)
            st.extend(g.get(f, ()))
        return seen


BUILTIN_NAMES = {"dict", "list", "set", "tuple", "str", "int", "float", "object", "super", "type", "bytes", "frozenset"}
COMMON_EXT_METHODS = {
    "copy", "append", "extend", "get", "items", "keys", "values", "update", "add", "remove", "pop", "sort",
    "wrap", "translate", "center", "repeat", "format", "join", "split", "index", "count", "any", "all", "max", "min",
    "sum", "mean", "astype", "tolist", "flatten", "reshape", "dot", "fit", "encode", "decode", "digest",
    "set_cell", "set_pbc", "set_positions", "set_scaled_positions", "get_cell", "get_pbc", "get_positions",
    "get_scaled_positions", "get_atomic_numbers", "get_chemical_symbols", "get_masses", "get_volume",
    "get_all_distances", "choice", "rand", "nodes", "in_edges", "add_edge", "add_node", "intersection", "union",
    "difference", "discard", "clear", "insert", "setdefault", "startswith", "endswith", "replace", "strip",
}
