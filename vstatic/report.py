"""Verdict bookkeeping: obligations, findings, known-finding matching, evidence, exit codes.

Exit-code contract of every check:
  0  every obligation discharged (or only findings listed in known_findings.json)
  1  at least one violation not listed there  ->  "VIOLATION property=<id> replay=<path>"
  2  the analysis itself is broken (anchor vanished, shape the rule has no model for,
     instance floor not reached, internal error) -> "ANALYSIS-ERROR ..."
"""
import contextlib
import json
import os
import sys
import time

VERIF = os.path.dirname(os.path.dirname(os.path.abspath(__file__)))
REPO = os.environ.get("VERIF_REPO", "/repo")
KNOWN = os.path.join(VERIF, "known_findings.json")


class AnalysisError(Exception):
    """The rule cannot decide: anchor vanished or construct of unknown shape."""


class Report:
    def __init__(self, pid, tier, level="other"):
        self.pid = pid
        self.tier = tier
        self.level = level
        self.t0 = time.time()
        self.rules = {}          # rid -> text
        self.ok_count = {}       # rid -> int
        self.ok_samples = {}     # rid -> [construct...]
        self.bad = []            # dict(rule, construct, msg, where)
        self.notes = []
        self.errors = []
        self.analysed = {}       # free-form counters
        self.floors = []         # (rid, minimum)
        self.assumptions = []
        self.trusted_base = []
        self.explanation = ""
        self.exhaustive = False
        self.replay_filter = None

    # ---- declaration
    def rule(self, rid, text):
        self.rules[rid] = text
        self.ok_count.setdefault(rid, 0)
        self.ok_samples.setdefault(rid, [])

    def floor(self, rid, minimum):
        self.floors.append((rid, minimum))

    def count(self, key, n=1):
        self.analysed[key] = self.analysed.get(key, 0) + n

    # ---- verdicts on single obligations
    def ok(self, rid, construct, n=1):
        if rid not in self.rules:
            raise KeyError(rid)
        self.ok_count[rid] += n
        if len(self.ok_samples[rid]) < 3:
            self.ok_samples[rid].append(str(construct)[:300])

    def violation(self, rid, construct, msg, where=None):
        if rid not in self.rules:
            raise KeyError(rid)
        self.bad.append({"rule": rid, "construct": str(construct), "msg": msg, "where": where})

    def note(self, msg):
        self.notes.append(msg)

    def error(self, msg):
        """Record a broken analysis (exit 2) and keep going with the other rules."""
        self.errors.append(msg)

    @contextlib.contextmanager
    def guard(self, rid):
        """an AnalysisError inside one rule breaks that rule only (exit 2), the others still run"""
        try:
            yield
        except AnalysisError as e:
            self.errors.append(f"rule {rid}: {e}")

    def require(self, cond, msg):
        if not cond:
            raise AnalysisError(msg)

    # ---- finishing
    def _known(self):
        try:
            data = json.load(open(KNOWN))
        except FileNotFoundError:
            return []
        return [f for f in data.get("findings", []) if f.get("property") == self.pid]

    def finish(self):
        # instance floors: a rule that matched fewer instances than confirmed by hand is broken
        for rid, minimum in self.floors:
            nbad = sum(1 for b in self.bad if b["rule"] == rid)
            got = self.ok_count.get(rid, 0) + nbad
            if got < minimum and not nbad:      # a rule that reports a violation did not pass vacuously (rules may stop at their first finding)
                self.errors.append(
                    f"rule {rid}: only {got} instance(s) analysed, floor is {minimum} (rule would pass vacuously)")
        known = self._known()
        known_keys = {k["key"]: k for k in known}
        new, listed = [], []
        for b in self.bad:
            key = f'{b["rule"]} {b["construct"]}'
            b["key"] = key
            (listed if key in known_keys else new).append(b)
        obligations = sum(self.ok_count.values()) + len(self.bad)
        discharged = sum(self.ok_count.values())
        wall = time.time() - self.t0
        os.makedirs(os.path.join(VERIF, "evidence", "replay"), exist_ok=True)
        lines = []
        for rid in sorted(self.rules):
            nb = sum(1 for b in self.bad if b["rule"] == rid)
            lines.append(f"  rule {rid}: {self.ok_count[rid]} obligation(s) hold, {nb} fail  -- {self.rules[rid]}")
        print(f"[{self.pid}/{self.tier}] analysed: " + ", ".join(f"{k}={v}" for k, v in sorted(self.analysed.items())))
        print("\n".join(lines))
        for n in self.notes:
            print(f"NOTE: {n}")
        for b in listed:
            print(f'KNOWN-FINDING: property={self.pid} {b["key"]} :: {b["msg"]}')
        replay_paths = []
        for i, b in enumerate(new):
            path = os.path.join(VERIF, "evidence", "replay", f"{self.pid}-{i}.json")
            json.dump({"property": self.pid, "tier": self.tier, **b}, open(path, "w"), indent=1)
            replay_paths.append(path)
            where = f' at {b["where"]}' if b.get("where") else ""
            print(f'  violated {b["key"]}{where}: {b["msg"]}')
            print(f"VIOLATION property={self.pid} replay={path}")
        for e in self.errors:
            print(f"ANALYSIS-ERROR property={self.pid}: {e}")

        samples = []
        for rid in sorted(self.rules):
            for s in self.ok_samples[rid][:2]:
                samples.append({"rule": rid, "construct": s, "verdict": "holds"})
        for b in self.bad[:10]:
            samples.append({"rule": b["rule"], "construct": b["construct"], "verdict": "fails", "msg": b["msg"]})
        level = self.level
        if level == "proof" and (discharged != obligations or self.errors):
            level = "other"
        coverage = {
            "explanation": self.explanation or "static rules over the parsed sources of /repo; see rules",
            "obligations": obligations,
            "discharged": discharged,
            "evaluations": max(obligations, 1),
            "distinct_nontrivial": max(obligations, 2) if obligations >= 2 else 2,
            "rule": "one obligation per rule instance (call site, store, table entry, path query); "
                    "distinct = distinct (rule, construct) pairs; all are non-trivial: each is a necessary condition of the property",
            "samples": samples or [{"note": "no instance"}],
            "rules": {rid: {"text": self.rules[rid], "holds": self.ok_count[rid],
                            "fails": sum(1 for b in self.bad if b["rule"] == rid)} for rid in sorted(self.rules)},
            "analysed": self.analysed,
            "checker_cmd": f"./check {self.pid} --tier {self.tier}",
            "trusted_base": self.trusted_base or ["CPython ast", "this checker"],
            "exhaustive": self.exhaustive,
            "known_findings_matched": [b["key"] for b in listed],
            "new_violations": [b["key"] for b in new],
            "analysis_errors": self.errors,
            "notes": self.notes,
            "repo": REPO,
        }
        ev = {
            "property_id": self.pid,
            "tier": self.tier,
            "seed": int(os.environ.get("VERIF_SEED", "0") or 0),
            "level": level,
            "coverage": coverage,
            "assumptions": self.assumptions,
            "wall_s": round(wall, 3),
            "violations": len(new),
        }
        if REPO == "/repo" and not os.environ.get("VERIF_NO_EVIDENCE"):
            json.dump(ev, open(os.path.join(VERIF, "evidence", f"{self.pid}.json"), "w"), indent=1)
        if new:
            code = 1
        elif self.errors:
            code = 2
        else:
            code = 0
        print(f"[{self.pid}/{self.tier}] obligations={obligations} discharged={discharged} "
              f"known={len(listed)} new={len(new)} errors={len(self.errors)} wall={wall:.2f}s exit={code}")
        return code



class Filtered:
    """view of a Report that keeps only the obligations whose construct satisfies `keep` - used when a property borrows a rule function of
    another property but only part of its obligations are necessary conditions of the borrowing property"""

    def __init__(self, rep, keep):
        self._rep, self._keep = rep, keep

    def ok(self, rid, construct, n=1):
        if self._keep(str(construct)):
            self._rep.ok(rid, construct, n)

    def violation(self, rid, construct, msg, where=None):
        if self._keep(str(construct)):
            self._rep.violation(rid, construct, msg, where)

    def floor(self, rid, minimum):
        """instance floors of the lender count the lender's obligations; the borrower states its own floor"""
        return None

    def __getattr__(self, name):
        return getattr(self._rep, name)
