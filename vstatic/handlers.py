"""Confirmed table of exception handlers (read and frozen by hand, one reason each).

A new or broadened try/except on the paths of a claimed entry point can swallow a failure (the call then
"returns normally" with a wrong result) or convert the documented error; such a handler is reported, the
confirmed ones are matched by (function, exception types, calls inside the try body)."""
import ast

from .model import norm

# function -> list of (exception types, set of call names allowed inside the try body, reason)
CONFIRMED = {
    "matid.clustering.sbc.SBC._clean_clusters": [(("Exception",), {"get_clusters", "_get_distance_matrix_radii_mic"},
                                                   "a cluster whose cleaning fails is not reported")],
    "matid.geometry.geometry.Intervals.remove_interval": [(("IndexError",), set(), "removing a non-existing interval is a no-op")],
    "matid.symmetry.symmetryanalyzer.SymmetryAnalyzer.get_symmetry_dataset": [(("RuntimeError",), {"segfault_protect"},
                                                                              "segfault in spglib -> CellNormalizationError")],
    "matid.data.element_data.get_symbols": [(("IndexError",), set(), "unknown atomic number -> ValueError")],
    "matid.core.lattice.Lattice.get_reciprocal_lattice": [(("AttributeError",), set(), "lazy attribute")],
    "matid.core.linkedunits.LinkedUnitCollection.__setitem__": [(("Exception",), {"tuple"}, "key conversion -> TypeError")],
    "matid.core.periodicfinder.PeriodicFinder._find_proto_cell": [
        (("MatIDError",), {"get_dimensionality"}, "cell rejected"), (("ValueError",), {"index"}, "seed not in this cluster")],
    "matid.core.periodicfinder.PeriodicFinder._find_proto_cell_3d": [(("Exception",), {"get_positions_within_basis", "get_pbc"}, "cell rejected")],
    "matid.core.periodicfinder.PeriodicFinder._find_proto_cell_2d": [(("Exception",), {"get_positions_within_basis", "get_pbc"}, "cell rejected")],
    "matid.core.periodicfinder.PeriodicFinder._find_periodic_region": [(("IndexError",), {"popleft"}, "queue exhausted")],
    "matid.core.periodicfinder.PeriodicFinder._find_region_rec": [
        (("Exception",), {"get_scaled_positions"}, "degenerate cell: stop this branch"), (("Exception",), {"Atoms", "get_pbc"}, "degenerate cell: stop this branch")],
    "matid.classification.classifier.Classifier.classify": [(("Exception",), {"wrap"}, "zero-volume cell -> ValueError")],
}


def _types(h):
    if h.type is None:
        return ("BARE",)
    if isinstance(h.type, ast.Tuple):
        return tuple(norm(x) for x in h.type.elts)
    return (norm(h.type),)


def _calls(stmts):
    out = set()
    for s in stmts:
        for c in ast.walk(s):
            if isinstance(c, ast.Call):
                f = c.func
                out.add(f.attr if isinstance(f, ast.Attribute) else (f.id if isinstance(f, ast.Name) else "?"))
    return out


def check(rep, M, rid, functions):
    """every try/except in `functions` must be one of the confirmed handlers"""
    n = 0
    for fq in sorted(functions):
        if fq not in M.defs:
            continue
        confirmed = list(CONFIRMED.get(fq, []))
        for t in M.own_nodes(fq):
            if not isinstance(t, ast.Try):
                continue
            n += 1
            types = tuple(x for h in t.handlers for x in _types(h))
            calls = _calls(t.body)
            match = None
            for c in confirmed:
                if c[0] == types and calls <= c[1] | {"format", "len", "range"} and (not c[1] or calls & c[1]):
                    match = c
                    break
            construct = f"{fq.replace('matid.', '')}: try [{', '.join(sorted(calls))}] except {'/'.join(types)}"
            if match:
                confirmed.remove(match)
                rep.ok(rid, construct + f" [confirmed: {match[2]}]")
            else:
                rep.violation(rid, construct, "this exception handler is not in the confirmed table (new, or its try body / exception type was broadened): "
                              "it can swallow or convert a failure, so the call returns 'normally' with a wrong or incomplete result instead of "
                              "failing the documented way", M.where(fq, t))
    rep.count("exception_handlers", n)
    return n


# function -> list of (exception type, reason it cannot fire for a valid input / is the documented failure)
CONFIRMED_RAISES = {
    "matid.clustering.sbc.SBC.get_clusters": [("ValueError", "the documented failure: zero cell vector along a periodic direction")],
    "matid.classification.classifier.Classifier.classify": [("ValueError", "the documented failure: zero-volume cell with periodic directions")],
    "matid.geometry.geometry.expand_pbc": [("ValueError", "pbc that is neither a bool nor three flags: callers pass get_pbc() or literals")],
    "matid.geometry.geometry.to_cartesian": [("ValueError", "positions not (n, 3): callers pass position arrays")],
    "matid.geometry.geometry.to_scaled": [("ValueError", "positions not (n, 3): callers pass position arrays")],
}


def check_raises(rep, M, rid, functions, entry):
    """every `raise` outside an exception handler in `functions` must be a confirmed one: a new raise on the paths of an entry point
    is a new way of not returning normally"""
    n = 0
    for fq in sorted(functions):
        d = M.defs.get(fq)
        if not isinstance(d, ast.FunctionDef):
            continue
        confirmed = list(CONFIRMED_RAISES.get(fq, []))
        in_handler = {id(r) for t in M.own_nodes(fq) if isinstance(t, ast.ExceptHandler) for r in ast.walk(t) if isinstance(r, ast.Raise)}
        for r in M.own_nodes(fq):
            if not isinstance(r, ast.Raise) or id(r) in in_handler:
                continue
            n += 1
            exc = r.exc.func if isinstance(r.exc, ast.Call) else r.exc
            name = norm(exc) if exc is not None else "re-raise"
            match = next((c for c in confirmed if c[0] == name), None)
            construct = f"{fq.replace('matid.', '')}: raise {name}"
            if match:
                confirmed.remove(match)
                rep.ok(rid, construct + f" [confirmed: {match[1]}]")
            else:
                rep.violation(rid, construct, f"`{norm(r)[:70]}` is not in the confirmed table of failure sites reachable from {entry}: structures that were "
                              "processed before now make the call raise (the only permitted failure is the zero-cell-vector ValueError of the entry point)",
                              M.where(fq, r))
    rep.count("raise_sites", n)
    return n
