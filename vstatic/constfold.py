"""Constant folding of small pure fragments (string / set / boolean predicates over table constants).

Used where a getter post-processes a value read from the literal tables: the fragment is folded for
each of the finitely many table values (conditional constant propagation over a finite domain).
Only side-effect-free expression forms on constants are supported; anything else raises
AnalysisError - numpy, loops over run-time data, attribute access on objects and calls of repo or
library functions are deliberately outside the folder.
"""
import ast

from .report import AnalysisError

STR_METHODS = {"startswith", "endswith", "replace", "upper", "lower", "strip", "lstrip", "rstrip", "count", "find", "isdigit", "isalpha"}


class Return(Exception):
    def __init__(self, value):
        self.value = value


class Folder:
    def __init__(self, hooks=None, what="fragment"):
        self.hooks = hooks or {}      # name -> callable(node, env) for special expressions
        self.what = what

    def fail(self, node):
        raise AnalysisError(f"{self.what}: `{ast.unparse(node)[:60]}` is outside the constant folder")

    def ev(self, e, env):
        for h in self.hooks.values():
            r = h(e, env, self)
            if r is not NotImplemented:
                return r
        if isinstance(e, ast.Constant):
            return e.value
        if isinstance(e, ast.Name):
            if e.id in env:
                return env[e.id]
            if e.id in ("True", "False", "None"):
                return {"True": True, "False": False, "None": None}[e.id]
            self.fail(e)
        if isinstance(e, (ast.List, ast.Tuple)):
            return [self.ev(x, env) for x in e.elts]
        if isinstance(e, ast.Set):
            return set(self.ev(x, env) for x in e.elts)
        if isinstance(e, ast.Dict):
            return {self.ev(k, env): self.ev(v, env) for k, v in zip(e.keys, e.values)}
        if isinstance(e, ast.Subscript):
            base = self.ev(e.value, env)
            i = e.slice
            if isinstance(i, ast.Slice):
                lo = self.ev(i.lower, env) if i.lower else None
                hi = self.ev(i.upper, env) if i.upper else None
                st = self.ev(i.step, env) if i.step else None
                return base[lo:hi:st]
            return base[self.ev(i, env)]
        if isinstance(e, ast.BinOp) and isinstance(e.op, (ast.Sub, ast.Div)):
            a, b = self.ev(e.left, env), self.ev(e.right, env)
            if isinstance(a, (int, float)) and isinstance(b, (int, float)) and not isinstance(a, bool) and not isinstance(b, bool):
                return a - b if isinstance(e.op, ast.Sub) else a / b
            self.fail(e)
        if isinstance(e, ast.UnaryOp) and isinstance(e.op, ast.USub):
            v = self.ev(e.operand, env)
            if isinstance(v, (int, float)):
                return -v
            self.fail(e)
        if isinstance(e, ast.Call) and isinstance(e.func, ast.Name) and e.func.id in ("abs", "max", "min") and e.args:
            vals = [self.ev(a, env) for a in e.args]
            if all(isinstance(v, (int, float)) for v in vals):
                return {"abs": abs, "max": max, "min": min}[e.func.id](*vals)
        if isinstance(e, ast.BinOp) and isinstance(e.op, (ast.Add, ast.Mod, ast.Mult)):
            a, b = self.ev(e.left, env), self.ev(e.right, env)
            if isinstance(e.op, ast.Add):
                return a + b
            if isinstance(e.op, ast.Mult) and isinstance(a, (int, float)) and isinstance(b, (int, float)):
                return a * b
            if isinstance(e.op, ast.Mult) and isinstance(a, (str, int)) and isinstance(b, (str, int)):
                return a * b
            self.fail(e)
        if isinstance(e, ast.Compare):
            left = self.ev(e.left, env)
            for op, c in zip(e.ops, e.comparators):
                right = self.ev(c, env)
                ok = {ast.In: lambda: left in right, ast.NotIn: lambda: left not in right, ast.Eq: lambda: left == right,
                      ast.NotEq: lambda: left != right, ast.Is: lambda: left is right, ast.IsNot: lambda: left is not right,
                      ast.Lt: lambda: left < right, ast.LtE: lambda: left <= right, ast.Gt: lambda: left > right,
                      ast.GtE: lambda: left >= right}[type(op)]()
                if not ok:
                    return False
                left = right
            return True
        if isinstance(e, ast.BoolOp):
            if isinstance(e.op, ast.And):
                v = True
                for x in e.values:
                    v = self.ev(x, env)
                    if not v:
                        return v
                return v
            v = False
            for x in e.values:
                v = self.ev(x, env)
                if v:
                    return v
            return v
        if isinstance(e, ast.UnaryOp) and isinstance(e.op, ast.Not):
            return not self.ev(e.operand, env)
        if isinstance(e, ast.IfExp):
            return self.ev(e.body, env) if self.ev(e.test, env) else self.ev(e.orelse, env)
        if isinstance(e, ast.Call):
            f = e.func
            if isinstance(f, ast.Attribute) and f.attr in STR_METHODS:
                base = self.ev(f.value, env)
                if isinstance(base, str):
                    return getattr(base, f.attr)(*[self.ev(a, env) for a in e.args])
            if isinstance(f, ast.Name) and f.id in ("set", "frozenset", "list", "tuple", "sorted", "len", "bool", "str", "int", "any", "all") and len(e.args) <= 1:
                fn = {"set": set, "frozenset": frozenset, "list": list, "tuple": tuple, "sorted": sorted, "len": len, "bool": bool,
                      "str": str, "int": int, "any": any, "all": all}[f.id]
                return fn(*[self.ev(a, env) for a in e.args])
            if isinstance(f, ast.Name) and f.id == "range" and 1 <= len(e.args) <= 3:
                return list(range(*[self.ev(a, env) for a in e.args]))
        if isinstance(e, (ast.GeneratorExp, ast.ListComp, ast.SetComp)) and len(e.generators) == 1:
            g = e.generators[0]
            out = []
            for item in self.ev(g.iter, env):
                env2 = dict(env)
                self.bind(g.target, item, env2)
                if all(self.ev(c, env2) for c in g.ifs):
                    out.append(self.ev(e.elt, env2))
            return set(out) if isinstance(e, ast.SetComp) else out
        self.fail(e)

    def bind(self, t, v, env):
        if isinstance(t, ast.Name):
            env[t.id] = v
        elif isinstance(t, (ast.Tuple, ast.List)):
            for a, b in zip(t.elts, v):
                self.bind(a, b, env)
        else:
            self.fail(t)

    def run(self, stmts, env):
        """executes straight-line / if statements; returns the returned value (raises if none)"""
        try:
            self._block(stmts, env)
        except Return as r:
            return r.value
        raise AnalysisError(f"{self.what}: no return reached while folding")

    def _block(self, stmts, env):
        for s in stmts:
            if isinstance(s, ast.Expr) and isinstance(s.value, ast.Constant):
                continue
            if isinstance(s, ast.Assign) and len(s.targets) == 1:
                self.bind(s.targets[0], self.ev(s.value, env), env)
            elif isinstance(s, ast.If):
                self._block(s.body if self.ev(s.test, env) else s.orelse, env)
            elif isinstance(s, ast.Return):
                raise Return(self.ev(s.value, env) if s.value is not None else None)
            elif isinstance(s, ast.Pass):
                continue
            else:
                self.fail(s)
