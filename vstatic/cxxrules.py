"""Structural rules on the C++ extension (shared by C10 and C16)."""
import re

from . import cxx
from .report import AnalysisError

CELL = "matid/ext/celllist.cpp"
GEOM = "matid/ext/geometry.cpp"


def mutable_views(u, fn):
    """local name -> (parameter name, dims) for `auto x_mu = x.mutable_unchecked<N>()`"""
    out = {}
    ps = set(cxx.params(fn))
    for n, _ in cxx.walk(cxx.body(fn)):
        if n.get("kind") == "VarDecl" and n.get("inner"):
            t = u.flat(n["inner"][-1])
            m = re.match(r"^(\w+)\.mutable_unchecked<(\d)>\(\)$", t)
            if m:
                out[n["name"]] = (m.group(1), int(m.group(2)))
    return out


def view_writes(u, fn):
    """[(param, [index texts], rhs text, node, parents)] for writes through mutable views"""
    views = mutable_views(u, fn)
    out = []
    for n, l, r, ps in cxx.assignments(cxx.body(fn)):
        lt = u.flat(l)
        m = re.match(r"^(\w+)\((.*)\)$", lt)
        if m and m.group(1) in views:
            idx = split_args(m.group(2))
            out.append((views[m.group(1)][0], idx, u.flat(r), n, ps))
    return views, out


def split_args(s):
    out, depth, cur = [], 0, ""
    for ch in s:
        if ch in "([{<":
            depth += 1
        if ch in ")]}>":
            depth -= 1
        if ch == "," and depth == 0:
            out.append(cur)
            cur = ""
        else:
            cur += ch
    if cur:
        out.append(cur)
    return out


# ----------------------------------------------------------------------------- R10.2 pair fill
def pair_fill(rep, rid, root=None):
    u = cxx.Unit(CELL, root)
    fn = u.function("get_displacement_tensor")
    views, writes = view_writes(u, fn)
    want = {"distances", "displacements", "factors"}
    if {p for p, _ in views.values()} < want:
        raise AnalysisError(f"CellList::get_displacement_tensor: mutable views of {sorted(want)} not found ({views})")
    rep.count("cxx_view_writes", len(writes))
    outer = next((n for n, _ in cxx.walk(cxx.body(fn)) if n.get("kind") == "ForStmt"), None)
    if outer is None:
        raise AnalysisError("CellList::get_displacement_tensor: outer loop over atoms not found")
    ivar = None
    for n, _ in cxx.walk(outer["inner"][0] if outer.get("inner") else {}):
        if n.get("kind") == "VarDecl":
            ivar = n["name"]
            break
    if ivar is None:
        raise AnalysisError("outer loop variable not recognised")
    # first nested loop over bins: offset boundary for "before the search"
    nested = [n for n, ps in cxx.walk(cxx.body(fn)) if n.get("kind") == "ForStmt" and n is not outer
              and "bin" in u.flat(n["inner"][0] if n.get("inner") else {})]
    first_search = min((u._off(n["range"]["begin"]) for n in nested), default=None)
    sign = {"distances": "", "displacements": "-", "factors": "-"}
    for p in sorted(want):
        diag = [w for w in writes if w[0] == p and len(w[1]) >= 2 and w[1][0] == w[1][1] == ivar]
        ok = diag and all(w[2] in ("0", "0.0") for w in diag) and (first_search is None or all(u._off(w[3]["range"]["begin"]) < first_search for w in diag))
        if ok:
            rep.ok(rid, f"celllist.cpp: {p}({ivar},{ivar}) = 0 before the neighbour search")
        else:
            rep.violation(rid, f"celllist.cpp: diagonal of {p}", f"the self entry ({ivar},{ivar}) is not set to 0 before the search "
                          f"({[(w[1], w[2]) for w in diag]})", u.where(fn))
        off = [w for w in writes if w[0] == p and len(w[1]) >= 2 and w[1][0] != w[1][1]]
        if not off:
            rep.violation(rid, f"celllist.cpp: off-diagonal writes of {p}", "no pair entries are written", u.where(fn))
            continue
        for w in off:
            a, b = w[1][0], w[1][1]
            rest = w[1][2:]
            mate = [x for x in off if x[1][0] == b and x[1][1] == a and x[1][2:] == rest]
            if not mate:
                rep.violation(rid, f"celllist.cpp: {p}({a},{b}) without mirror", f"entry ({a},{b}) is written but ({b},{a}) is not: "
                              "the table is not (anti)symmetric", u.where(w[3]))
                continue
            x = mate[0]
            r1, r2 = w[2], x[2]
            if sign[p] == "":
                good = r1 == r2
            else:
                good = (r1 == "-" + r2) or (r2 == "-" + r1)
            if good:
                rep.ok(rid, f"celllist.cpp: {p}({','.join(w[1])}) = {r1} mirrored as ({','.join(x[1])}) = {r2}")
            else:
                rep.violation(rid, f"celllist.cpp: {p}({','.join(w[1])}) mirror sign", f"({a},{b}) = {r1} but ({b},{a}) = {r2}; required "
                              f"{'equal' if sign[p] == '' else 'opposite'} values", u.where(w[3]))
    # the skip and the per-pair minimum
    jdecl = [n for n, _ in cxx.walk(cxx.body(fn)) if n.get("kind") == "VarDecl" and n.get("inner")
             and re.match(r"^original_indices\w*\(\w+\)$", u.flat(n["inner"][-1]))]
    jvar = jdecl[0]["name"] if jdecl else None
    skips = [n for n, _ in cxx.walk(cxx.body(fn)) if n.get("kind") == "IfStmt" and any(c.get("kind") == "ContinueStmt" for c, _ in cxx.walk(n))]
    for s in skips:
        cond = u.flat(s["inner"][0])
        m = re.match(rf"^({jvar}|{ivar})(>=|>|<=|<)({jvar}|{ivar})$", cond) if jvar else None
        if not m or m.group(1) == m.group(3):
            raise AnalysisError(f"celllist.cpp: skip condition `{cond}` not modelled")
        rep.ok(rid, f"celllist.cpp: skip `{cond}` keeps one ordered pair of every unordered pair")
    upd = [(n, ps) for n, l, r, ps in cxx.assignments(cxx.body(fn)) if u.flat(l).startswith("min_map[")]
    if not upd:
        raise AnalysisError("celllist.cpp: per-pair minimum bookkeeping (min_map) not found")
    for n, ps in upd:
        ifs = cxx.enclosing(ps, "IfStmt")
        conds = [u.flat(i["inner"][0]) for i in ifs]
        mins = [c for c in conds if "min_map" in c]
        cut = [c for c in conds if "cutoffSquared" in c]
        okmin = mins and re.search(r"\|\|distance<=?get<0>\(min_map\[\w+\]\)$", mins[0]) is not None and "find" in mins[0]
        if okmin:
            rep.ok(rid, "celllist.cpp: an image replaces the stored one only if it is closer (per-pair minimum)")
        else:
            rep.violation(rid, "celllist.cpp: per-pair minimum", f"update condition `{mins[0] if mins else None}` does not keep the closest image",
                          u.where(n))
        if cut and re.match(r"^distance_squared<=this->cutoffSquared$", cut[0]):
            rep.ok(rid, "celllist.cpp: pairs are recorded only within the cutoff")
        else:
            rep.violation(rid, "celllist.cpp: cutoff predicate in the tensor", f"`{cut[0] if cut else None}`", u.where(n))
    # final fill uses the stored minimum triple
    return u


# ----------------------------------------------------------------------------- R10.3 sibling agreement of the 27-bin search
def bin_search_siblings(rep, rid, root=None):
    u = cxx.Unit(CELL, root)
    fa = u.function("get_neighbours_for_position")
    fb = u.function("get_displacement_tensor")
    init = u.function("init")

    def decls(fn):
        out = {}
        for n, _ in cxx.walk(cxx.body(fn)):
            if n.get("kind") == "VarDecl" and n.get("inner") and n["name"] in ("i0", "j0", "k0", "istart", "iend", "jstart", "jend", "kstart", "kend"):
                out[n["name"]] = u.flat(n["inner"][-1])
        return out
    da, db = decls(fa), decls(fb)
    expect = {"istart": r"^max\(i0-1,0\)$", "iend": r"^min\(i0\+1,this->nx-1\)$", "jstart": r"^max\(j0-1,0\)$",
              "jend": r"^min\(j0\+1,this->ny-1\)$", "kstart": r"^max\(k0-1,0\)$", "kend": r"^min\(k0\+1,this->nz-1\)$",
              "i0": r"^\(x-this->xmin\)/this->dx$", "j0": r"^\(y-this->ymin\)/this->dy$", "k0": r"^\(z-this->zmin\)/this->dz$"}
    for name, fn, d in (("get_neighbours_for_position", fa, da), ("get_displacement_tensor", fb, db)):
        for k, pat in expect.items():
            if k not in d:
                raise AnalysisError(f"celllist.cpp {name}: declaration of {k} not found")
            if re.match(pat, d[k]):
                rep.ok(rid, f"celllist.cpp {name}: {k} = {d[k]}")
            else:
                what = "bin index" if k.endswith("0") else "clamped bin range"
                rep.violation(rid, f"celllist.cpp {name}: {k}", f"{what} `{k} = {d[k]}` differs from the layout built in init() "
                              f"(expected {pat.strip('^$')}): bins outside [0, n-1] are indexed or neighbouring bins are skipped", u.where(fn))
    if da == db:
        rep.ok(rid, "celllist.cpp: both copies of the 27-bin search compute identical bin ranges")
    else:
        diff = sorted(k for k in set(da) | set(db) if da.get(k) != db.get(k))
        rep.violation(rid, "celllist.cpp: sibling bin searches", f"the two copies of the search disagree on {diff}", u.where(fb))
    # bins subscript order and loop ranges
    for name, fn in (("get_neighbours_for_position", fa), ("get_displacement_tensor", fb)):
        sub = [u.flat(n) for n, _ in cxx.walk(cxx.body(fn)) if n.get("kind") == "VarDecl" and n.get("name") == "binIndices" for n in [n["inner"][-1]]]
        loops = [(n, u.flat(n["inner"][0]), u.flat(n["inner"][2])) for n, _ in cxx.walk(cxx.body(fn)) if n.get("kind") == "ForStmt" and len(n.get("inner", [])) >= 3]
        m = re.match(r"^this->bins\[(\w+)\]\[(\w+)\]\[(\w+)\]$", sub[0]) if sub else None
        if not m:
            raise AnalysisError(f"celllist.cpp {name}: `this->bins[a][b][c]` lookup not found")
        ok = True
        for var, lo, hi in zip(m.groups(), ("istart", "jstart", "kstart"), ("iend", "jend", "kend")):
            lp = [l for l in loops if re.match(rf"^int{var}={lo};?$", l[1]) and re.match(rf"^{var}<={hi}$", l[2])]
            if not lp:
                ok = False
        if ok:
            rep.ok(rid, f"celllist.cpp {name}: bins[a][b][c] is scanned over [istart..iend] x [jstart..jend] x [kstart..kend]")
        else:
            rep.violation(rid, f"celllist.cpp {name}: scan ranges", f"the loops indexing {sub[0]} do not run over the clamped ranges inclusive: "
                          f"{[(l[1], l[2]) for l in loops[:4]]}", u.where(fn))
    # cutoff predicate identical in both
    def preds(fn):
        return sorted({u.flat(n["inner"][0]) for n, _ in cxx.walk(cxx.body(fn)) if n.get("kind") == "IfStmt" and "cutoffSquared" in u.flat(n["inner"][0])})
    pa, pb = preds(fa), preds(fb)
    if pa == pb == ["distance_squared<=this->cutoffSquared"]:
        rep.ok(rid, "celllist.cpp: both searches accept exactly distance^2 <= cutoff^2")
    else:
        rep.violation(rid, "celllist.cpp: cutoff predicate", f"position query uses {pa}, tensor uses {pb}; required distance_squared<=this->cutoffSquared in both",
                      u.where(fa))
    # bin size >= cutoff so that 27 bins suffice; same index formula when filling the bins
    it = {n["name"]: u.flat(n["inner"][-1]) for n, _ in cxx.walk(cxx.body(init)) if n.get("kind") == "VarDecl" and n.get("inner")}
    fills = [it.get(k) for k in ("i", "j", "k")]
    if fills == [r"(x-this->xmin)/this->dx", r"(y-this->ymin)/this->dy", r"(z-this->zmin)/this->dz"]:
        rep.ok(rid, "celllist.cpp init(): atoms are binned with the same index formula the queries use")
    else:
        rep.violation(rid, "celllist.cpp init(): bin index formula", f"atoms are binned with {fills}", u.where(init))
    sizes = {}
    for n, l, r, ps in cxx.assignments(cxx.body(init)):
        lt = u.flat(l)
        if lt in ("this->dx", "this->dy", "this->dz", "this->nx", "this->ny", "this->nz"):
            sizes[lt] = u.flat(r)
    ok = all(re.match(rf"^max\(this->cutoff,\(this->{a}max-this->{a}min\)/this->n{a}\)$", sizes.get(f"this->d{a}", "")) for a in "xyz") and \
        all(re.match(rf"^max\(1,int\(\(this->{a}max-this->{a}min\)/this->cutoff\)\)$", sizes.get(f"this->n{a}", "")) for a in "xyz")
    if ok:
        rep.ok(rid, "celllist.cpp init(): bin edge >= cutoff in every direction (the 27 neighbouring bins cover the cutoff sphere)")
    else:
        rep.violation(rid, "celllist.cpp init(): bin size", f"bin edges are not max(cutoff, extent/n): {sizes}", u.where(init))


# ----------------------------------------------------------------------------- R16.3 extend_system
def extend_system(rep, rid, root=None):
    u = cxx.Unit(GEOM, root)
    fn = u.function("extend_system")
    stores = [(n, l, r, ps) for n, l, r, ps in cxx.assignments(cxx.body(fn)) if re.match(r"^n_copies_axis\[\w+\]$", u.flat(l))]
    if len(stores) < 2:
        raise AnalysisError(f"extend_system: expected the copy-count stores of both branches, found {len(stores)}")
    for n, l, r, ps in stores:
        idx = re.match(r"^n_copies_axis\[(\w+)\]$", u.flat(l)).group(1)
        conds = [u.flat(i["inner"][0]) for i in cxx.enclosing(ps, "IfStmt")]
        if any(re.search(rf"pbc_u\({idx}\)", c) for c in conds) and not any(re.search(rf"!pbc_u\({idx}\)", c) for c in conds):
            rep.ok(rid, f"geometry.cpp extend_system: n_copies_axis[{idx}] only under pbc_u({idx}) (line {u.line(n)})")
        else:
            rep.violation(rid, f"geometry.cpp extend_system: n_copies_axis[{idx}] at line-independent site `{u.flat(n)}`",
                          f"copies along axis {idx} are created regardless of pbc({idx}) (conditions: {conds}): images appear along "
                          "non-periodic directions", u.where(n))
        rt = u.flat(r)
    # copy count = ceil(cutoff / height)
    ceil = [u.flat(n["inner"][-1]) for n, _ in cxx.walk(cxx.body(fn)) if n.get("kind") == "VarDecl" and n.get("name") == "multiplier" and n.get("inner")]
    if ceil and all(re.match(r"^\(int\)ceil\(factor\)$", c) or c == "n_copies_axis[i]" for c in ceil):
        rep.ok(rid, "geometry.cpp extend_system: copies per axis = ceil(cutoff / height)")
    else:
        rep.violation(rid, "geometry.cpp extend_system: copy count", f"`multiplier = {ceil}` is not ceil(cutoff/height): images within the "
                      "extension distance are missed", u.where(fn))
    # multiples: 0..m first, then -m..-1
    pushes = [(n, ps) for n, ps in cxx.walk(cxx.body(fn)) if n.get("kind") == "CXXMemberCallExpr" and u.flat(n).startswith("multiples.push_back(")]
    forms = []
    for n, ps in pushes:
        f = cxx.enclosing(ps, "ForStmt")[-1]
        forms.append((u.flat(f["inner"][0]), u.flat(f["inner"][2]), u.flat(n)))
    want = [("intj=0;", "j<multiplier+1", "multiples.push_back(j)"), ("intj=-multiplier;", "j<0", "multiples.push_back(j)")]
    if forms == want:
        rep.ok(rid, "geometry.cpp extend_system: offsets per axis are 0..m then -m..-1 (original cell first, every offset once)")
    else:
        rep.violation(rid, "geometry.cpp extend_system: offset order", f"offset list is built by {forms}; required {want} so that the original "
                      "atoms come first and every image appears exactly once", u.where(fn))
    # stored records
    views, writes = view_writes(u, fn)
    got = {(p, ",".join(i)): r for p, i, r, n, ps in writes}
    need = {("ext_indices", "index"): "l", ("factors", "index,0"): "a_multiplier", ("factors", "index,1"): "b_multiplier",
            ("factors", "index,2"): "c_multiplier", ("ext_pos", "index,m"): "positions_u(l,m)+addition[m]",
            ("ext_atomic_numbers", "index"): "atomic_numbers_u(l)"}
    bad = {k: (got.get(k), v) for k, v in need.items() if got.get(k) != v}
    if not bad:
        rep.ok(rid, "geometry.cpp extend_system: each image records (original index, integer offsets, position + offset.cell)")
    else:
        rep.violation(rid, "geometry.cpp extend_system: image records", f"(written, required): {bad}", u.where(fn))
    add = [(u.flat(l), u.flat(r)) for n, l, r, ps in cxx.assignments(cxx.body(fn))] + \
          [(u.flat(n["inner"][0]), u.flat(n["inner"][1])) for n, _ in cxx.walk(cxx.body(fn)) if n.get("kind") == "CompoundAssignOperator"]
    addm = [r for l, r in add if l == "addition[m]"]
    if addm == ["a_multiplier*a[m]+b_multiplier*b[m]+c_multiplier*c[m]"]:
        rep.ok(rid, "geometry.cpp extend_system: offset vector = offsets . cell")
    else:
        rep.violation(rid, "geometry.cpp extend_system: offset vector", f"addition[m] = {addm}", u.where(fn))
    nrep = [u.flat(n["inner"][-1]) for n, _ in cxx.walk(cxx.body(fn)) if n.get("kind") == "VarDecl" and n.get("name") == "n_rep" and n.get("inner")]
    if nrep == ["(2*n_copies_axis[0]+1)*(2*n_copies_axis[1]+1)*(2*n_copies_axis[2]+1)"]:
        rep.ok(rid, "geometry.cpp extend_system: buffer size = product of (2m+1)")
    else:
        rep.violation(rid, "geometry.cpp extend_system: buffer size", f"n_rep = {nrep}", u.where(fn))
    idx = [u.flat(n["inner"][-1]) for n, _ in cxx.walk(cxx.body(fn)) if n.get("kind") == "VarDecl" and n.get("name") == "index" and n.get("inner")]
    if idx == ["i_copy*n_atoms+l"]:
        rep.ok(rid, "geometry.cpp extend_system: image k of atom l is stored at k*n_atoms + l (original system first)")
    else:
        rep.violation(rid, "geometry.cpp extend_system: storage index", f"index = {idx}", u.where(fn))


# ----------------------------------------------------------------------------- infinite cutoff extension
def infinite_cutoff(rep, rid, root=None):
    u = cxx.Unit(GEOM, root)
    fn = u.function("get_displacement_tensor")
    ifs = [n for n, _ in cxx.walk(cxx.body(fn)) if n.get("kind") == "IfStmt"]
    inf = [n for n in ifs if "infinity()" in u.flat(n["inner"][0])]
    if not inf:
        rep.violation(rid, "geometry.cpp get_displacement_tensor: infinite cutoff", "an unbounded cutoff is not translated into a finite "
                      "extension: the periodic extension would be unbounded", u.where(fn))
        return
    stores = [(u.flat(l), u.flat(r), ps) for n, l, r, ps in cxx.assignments(inf[0])]
    ext = [r for l, r, ps in stores if l == "extension"]
    mx = [(l, r, [u.flat(i["inner"][0]) for i in cxx.enclosing(ps, "IfStmt")]) for l, r, ps in stores if l == "max_length"]
    ok = ext == ["max_length"] and mx and mx[0][1] == "length" and any(c == "pbc_u(i)" for c in mx[0][2]) and any(c == "length>max_length" for c in mx[0][2])
    if ok:
        rep.ok(rid, "geometry.cpp: infinite cutoff -> extension by the longest periodic cell vector")
    else:
        rep.violation(rid, "geometry.cpp get_displacement_tensor: infinite cutoff", f"extension = {ext}, max_length updates {mx}: the extension is not the "
                      "longest *periodic* basis vector", u.where(inf[0]))
    call = [u.flat(n) for n, _ in cxx.walk(cxx.body(fn)) if n.get("kind") == "CallExpr" and u.flat(n).startswith("get_cell_list(")]
    if call == ["get_cell_list(positions,cell,pbc,extension,cutoff)"]:
        rep.ok(rid, "geometry.cpp: cell list built with (extension, cutoff) in this order")
    else:
        rep.violation(rid, "geometry.cpp get_displacement_tensor: cell list arguments", f"{call}", u.where(fn))
