"""clang-AST access to the C++ extension (matid/ext/*.cpp), parsed with stub pybind11 headers.

pybind11's headers are not installed in this sandbox, so the extension cannot be rebuilt here; the
stubs in /verif/stubs declare the small API surface the sources use (array_t, unchecked<N>(),
mutable_unchecked<N>(), shape(), size()). If the sources start using API the stub lacks, clang
reports errors and the check exits 2 (analysis broken) - never a silent pass.

Nodes are the dicts of `-ast-dump=json`; `text(node)` slices the exact source text of a node by
its byte offsets, `flat(node)` is that text with all whitespace removed.
"""
import json
import os
import re
import shutil
import subprocess

from .report import REPO, VERIF, AnalysisError

CLANG = shutil.which("clang++-14") or shutil.which("clang++")


class Unit:
    def __init__(self, rel, root=None):
        self.root = root or REPO
        self.path = os.path.join(self.root, rel)
        if not os.path.exists(self.path):
            raise AnalysisError(f"{self.path} missing")
        if not CLANG:
            raise AnalysisError("clang++ not found")
        self.src = open(self.path, "rb").read()
        self._docs = {}

    def functions(self, name):
        """definitions (with a body) of functions / methods called `name`"""
        if name in self._docs:
            return self._docs[name]
        cmd = [CLANG, "-std=c++11", "-fsyntax-only", "-I", os.path.join(VERIF, "stubs"), "-I", os.path.dirname(self.path),
               "-Xclang", "-ast-dump=json", "-Xclang", f"-ast-dump-filter={name}", self.path]
        r = subprocess.run(cmd, capture_output=True, text=True)
        if r.returncode != 0 or "error:" in r.stderr:
            raise AnalysisError(f"clang cannot parse {self.path} with the stub headers: {r.stderr.strip().splitlines()[:3]}")
        dec = json.JSONDecoder()
        out, i, s = [], 0, r.stdout
        while True:
            m = re.compile(r"\{").search(s, i)
            if not m:
                break
            try:
                doc, j = dec.raw_decode(s, m.start())
            except json.JSONDecodeError:
                break
            i = j
            if doc.get("kind") in ("FunctionDecl", "CXXMethodDecl", "CXXConstructorDecl") and doc.get("name") == name \
                    and any(c.get("kind") == "CompoundStmt" for c in doc.get("inner", [])) and self._in_main(doc):
                out.append(doc)
        self._docs[name] = out
        return out

    def function(self, name):
        f = self.functions(name)
        if len(f) != 1:
            raise AnalysisError(f"{os.path.basename(self.path)}: expected one definition of {name}, found {len(f)}")
        return f[0]

    def _in_main(self, doc):
        loc = doc.get("loc", {})
        f = loc.get("file") or loc.get("expansionLoc", {}).get("file")
        inc = loc.get("includedFrom")
        return inc is None and (f is None or os.path.abspath(f) == os.path.abspath(self.path))

    # ------------------------------------------------------------------ text
    def _off(self, loc, end=False):
        if "offset" in loc:
            return loc["offset"] + (loc.get("tokLen", 0) if end else 0)
        for k in ("expansionLoc", "spellingLoc"):
            if k in loc and "offset" in loc[k]:
                return loc[k]["offset"] + (loc[k].get("tokLen", 0) if end else 0)
        return None

    def text(self, node):
        r = node.get("range")
        if not r:
            return ""
        b, e = self._off(r["begin"]), self._off(r["end"], True)
        if b is None or e is None:
            return ""
        return self.src[b:e].decode(errors="replace")

    def flat(self, node):
        return re.sub(r"\s+", "", self.text(node))

    def line(self, node):
        r = node.get("range", {})
        b = self._off(r.get("begin", {})) if r else None
        return self.src[:b].count(b"\n") + 1 if b is not None else 0

    def where(self, node):
        return f"{os.path.relpath(self.path, self.root)}:{self.line(node)}"


def walk(node, parents=None):
    """yield (node, parents tuple) depth-first"""
    parents = parents or ()
    yield node, parents
    for c in node.get("inner", []) or []:
        if isinstance(c, dict):
            yield from walk(c, parents + (node,))


def body(fn):
    return next(c for c in fn["inner"] if c.get("kind") == "CompoundStmt")


def params(fn):
    return [c.get("name") for c in fn.get("inner", []) if c.get("kind") == "ParmVarDecl"]


def strip(node):
    """skip implicit wrappers"""
    while node.get("kind") in ("ImplicitCastExpr", "ExprWithCleanups", "MaterializeTemporaryExpr", "CXXBindTemporaryExpr",
                               "ParenExpr", "CXXFunctionalCastExpr", "ConstantExpr") and node.get("inner"):
        node = node["inner"][0]
    return node


def assignments(root):
    """(node, lhs, rhs, parents) for every `=`-assignment (built-in or overloaded)"""
    out = []
    for n, ps in walk(root):
        if n.get("kind") == "BinaryOperator" and n.get("opcode") == "=":
            out.append((n, n["inner"][0], n["inner"][1], ps))
        elif n.get("kind") == "CXXOperatorCallExpr" and len(n.get("inner", [])) == 3:
            callee = strip(n["inner"][0])
            if callee.get("kind") == "DeclRefExpr" and callee.get("referencedDecl", {}).get("name") == "operator=":
                out.append((n, n["inner"][1], n["inner"][2], ps))
    return out


def enclosing(ps, kind):
    return [p for p in ps if p.get("kind") == kind]
