"""Whole-package behaviour-preserving twins used by the self-validation: every local variable of every function is renamed
(parameters, globals, imports and comprehension variables are kept), so a rule that silently depends on how a local is spelled
produces a false alarm here instead of in the field. The renamed package passes the pinned suite (checked when the twin was introduced)."""
import ast, sys, os, warnings

warnings.filterwarnings("ignore", category=SyntaxWarning)

class Renamer(ast.NodeTransformer):
    def __init__(self, suffix="_r", prefix=""):
        self.stack = []
        self.suffix, self.prefix = suffix, prefix
    def visit_FunctionDef(self, node):
        params = {a.arg for a in node.args.posonlyargs + node.args.args + node.args.kwonlyargs}
        if node.args.vararg: params.add(node.args.vararg.arg)
        if node.args.kwarg: params.add(node.args.kwarg.arg)
        # locals: names stored in this function body (excluding nested function bodies), minus params, minus global/nonlocal
        stored, glob = set(), set()
        def walk(n):
            for ch in ast.iter_child_nodes(n):
                if isinstance(ch, (ast.FunctionDef, ast.AsyncFunctionDef, ast.Lambda, ast.ClassDef)):
                    if isinstance(ch, (ast.FunctionDef, ast.ClassDef)): stored.add("#" + ch.name)
                    continue
                if isinstance(ch, (ast.Global, ast.Nonlocal)): glob.update(ch.names)
                if isinstance(ch, ast.Name) and isinstance(ch.ctx, (ast.Store, ast.Del)): stored.add(ch.id)
                if isinstance(ch, (ast.Import, ast.ImportFrom)):
                    for a in ch.names: glob.add((a.asname or a.name).split(".")[0])
                if isinstance(ch, ast.ExceptHandler) and ch.name: glob.add(ch.name)
                if isinstance(ch, (ast.ListComp, ast.SetComp, ast.DictComp, ast.GeneratorExp)):
                    # comprehension targets are their own scope: leave them alone
                    for g in ch.generators:
                        for x in ast.walk(g.target):
                            if isinstance(x, ast.Name): glob.add(x.id)
                walk(ch)
        walk(node)
        loc = {n for n in stored if not n.startswith("#")} - params - glob
        # a nested function may read the enclosing locals (closures): rename consistently by keeping an environment stack
        self.stack.append(loc)
        node.body = [self.visit(s) for s in node.body]
        self.stack.pop()
        return node
    def visit_Name(self, node):
        for loc in reversed(self.stack):
            if node.id in loc:
                return ast.copy_location(ast.Name(id=self.prefix + node.id + self.suffix, ctx=node.ctx), node)
        return node
    def visit_Lambda(self, node):
        return self.generic_visit(node)

SUFFIX = "_r"


def rename_tree(src, dst, suffix="_r", prefix=""):
    _rename(src, dst, suffix, prefix)


PREFIX = ""


def _rename(src, dst, suffix, prefix):
  for root, dirs, files in os.walk(src):
    for f in files:
        if not f.endswith(".py") or f == "symmetry_data.py":
            continue
        p = os.path.join(root, f)
        t = ast.parse(open(p).read())
        t = Renamer(suffix, prefix).visit(t)
        ast.fix_missing_locations(t)
        out = os.path.join(dst, os.path.relpath(p, src))
        open(out, "w").write(ast.unparse(t) + "\n")


if __name__ == "__main__":
    rename_tree(sys.argv[1], sys.argv[2])


class _FlipCompare(ast.NodeTransformer):
    FLIP = {ast.Lt: ast.Gt, ast.Gt: ast.Lt, ast.LtE: ast.GtE, ast.GtE: ast.LtE, ast.Eq: ast.Eq, ast.NotEq: ast.NotEq}

    def visit_Compare(self, node):
        self.generic_visit(node)
        if len(node.ops) == 1 and type(node.ops[0]) in self.FLIP and not (isinstance(node.comparators[0], ast.Constant) and node.comparators[0].value is None):
            return ast.copy_location(ast.Compare(left=node.comparators[0], ops=[self.FLIP[type(node.ops[0])]()], comparators=[node.left]), node)
        return node


class _MatMul(ast.NodeTransformer):
    def visit_Call(self, node):
        self.generic_visit(node)
        if isinstance(node.func, ast.Attribute) and node.func.attr == "dot" and isinstance(node.func.value, ast.Name) and node.func.value.id == "np" \
                and len(node.args) == 2 and not node.keywords:
            return ast.copy_location(ast.BinOp(left=node.args[0], op=ast.MatMult(), right=node.args[1]), node)
        return node


class _SwapBranches(ast.NodeTransformer):
    """`if c: A else: B` -> `if not c: B else: A` for plain if/else statements (no elif chains)"""
    def visit_If(self, node):
        self.generic_visit(node)
        if node.orelse and not (len(node.orelse) == 1 and isinstance(node.orelse[0], ast.If)):
            return ast.copy_location(ast.If(test=ast.UnaryOp(op=ast.Not(), operand=node.test), body=node.orelse, orelse=node.body), node)
        return node


class _NumpyAlias(ast.NodeTransformer):
    def visit_Import(self, node):
        for a in node.names:
            if a.name == "numpy" and a.asname == "np":
                a.asname = "npy"
        return node

    def visit_Name(self, node):
        if node.id == "np":
            return ast.copy_location(ast.Name(id="npy", ctx=node.ctx), node)
        return node


TRANSFORMS = {"flip_comparisons": _FlipCompare, "matmul_operator": _MatMul, "swap_branches": _SwapBranches, "numpy_alias": _NumpyAlias}


def transform_tree(src, dst, kind):
    """other whole-package behaviour-preserving respellings: every `a < b` written `b > a`; np.dot(a, b) written a @ b; if/else branches swapped"""
    for root, dirs, files in os.walk(src):
        for f in files:
            if not f.endswith(".py") or f == "symmetry_data.py":
                continue
            p = os.path.join(root, f)
            t = TRANSFORMS[kind]().visit(ast.parse(open(p).read()))
            ast.fix_missing_locations(t)
            open(os.path.join(dst, os.path.relpath(p, src)), "w").write(ast.unparse(t) + "\n")


class _ReturnTemp(ast.NodeTransformer):
    """`return <expr>` -> `ret_value = <expr>; return ret_value` when <expr> is not already a name / constant"""
    def _block(self, stmts):
        out = []
        for s in stmts:
            s = self.visit(s)
            if isinstance(s, ast.Return) and s.value is not None and not isinstance(s.value, (ast.Name, ast.Constant)):
                out.append(ast.copy_location(ast.Assign(targets=[ast.Name(id="ret_value", ctx=ast.Store())], value=s.value), s))
                out.append(ast.copy_location(ast.Return(value=ast.Name(id="ret_value", ctx=ast.Load())), s))
            else:
                out.append(s)
        return out

    def generic_visit(self, node):
        for f in ("body", "orelse", "finalbody"):
            v = getattr(node, f, None)
            if isinstance(v, list) and v and isinstance(v[0], ast.stmt):
                setattr(node, f, self._block(v))
        if isinstance(node, ast.Try):
            for h in node.handlers:
                h.body = self._block(h.body)
        return node

    def visit_Lambda(self, node):
        return node


class _LenTests(ast.NodeTransformer):
    """`len(x) != 0` -> `len(x) > 0`, `len(x) == 0` -> `len(x) < 1`, `len(x) > 0` -> `len(x) >= 1`"""
    def visit_Compare(self, node):
        self.generic_visit(node)
        if len(node.ops) == 1 and isinstance(node.left, ast.Call) and isinstance(node.left.func, ast.Name) and node.left.func.id == "len" \
                and isinstance(node.comparators[0], ast.Constant) and node.comparators[0].value == 0 and not isinstance(node.comparators[0].value, bool):
            op = node.ops[0]
            if isinstance(op, ast.NotEq):
                node.ops = [ast.Gt()]
            elif isinstance(op, ast.Eq):
                node.ops, node.comparators = [ast.Lt()], [ast.Constant(1)]
            elif isinstance(op, ast.Gt):
                node.ops, node.comparators = [ast.GtE()], [ast.Constant(1)]
        return node


class _NestAnd(ast.NodeTransformer):
    """`if a and b: X` (no else) -> `if a: if b: X`"""
    def visit_If(self, node):
        self.generic_visit(node)
        if not node.orelse and isinstance(node.test, ast.BoolOp) and isinstance(node.test.op, ast.And):
            inner = node.body
            for t in reversed(node.test.values):
                inner = [ast.copy_location(ast.If(test=t, body=inner, orelse=[]), node)]
            return inner[0]
        return node


class _ElseAfterReturn(ast.NodeTransformer):
    """`if c: ...; return/raise/continue/break` followed by REST (same block) -> `if c: ... else: REST`"""
    def _block(self, stmts):
        stmts = [self.visit(s) for s in stmts]
        for i, s in enumerate(stmts[:-1]):
            if isinstance(s, ast.If) and not s.orelse and isinstance(s.body[-1], (ast.Return, ast.Raise, ast.Continue, ast.Break)):
                rest = self._block_done(stmts[i + 1:])
                s.orelse = rest
                return stmts[:i + 1]
        return stmts

    def _block_done(self, stmts):
        for i, s in enumerate(stmts[:-1]):
            if isinstance(s, ast.If) and not s.orelse and isinstance(s.body[-1], (ast.Return, ast.Raise, ast.Continue, ast.Break)):
                s.orelse = self._block_done(stmts[i + 1:])
                return stmts[:i + 1]
        return stmts

    def generic_visit(self, node):
        for f in ("body", "orelse", "finalbody"):
            v = getattr(node, f, None)
            if isinstance(v, list) and v and isinstance(v[0], ast.stmt):
                setattr(node, f, self._block(v))
        if isinstance(node, ast.Try):
            for h in node.handlers:
                h.body = self._block(h.body)
        return node


TRANSFORMS.update({"return_temp": _ReturnTemp, "len_tests": _LenTests, "nest_and": _NestAnd, "else_after_return": _ElseAfterReturn})


class _ModuleAlias(ast.NodeTransformer):
    """package-internal modules bound under other names: `import matid.geometry` gains `import matid.geometry as mgeom` and every
    `matid.geometry.X` is written `mgeom.X`; `from matid.data import constants` is written `... import constants as consts`"""
    def visit_Module(self, node):
        self.generic_visit(node)
        out = []
        for s in node.body:
            out.append(s)
            if isinstance(s, ast.Import) and any(a.name == "matid.geometry" and a.asname is None for a in s.names):
                out.append(ast.copy_location(ast.Import(names=[ast.alias(name="matid.geometry", asname="mgeom")]), s))
        node.body = out
        return node

    def visit_ImportFrom(self, node):
        if node.module == "matid.data":
            for a in node.names:
                if a.name == "constants" and a.asname is None:
                    a.asname = "consts"
        return node

    def visit_Attribute(self, node):
        self.generic_visit(node)
        if isinstance(node.value, ast.Name) and node.value.id == "matid" and node.attr == "geometry":
            return ast.copy_location(ast.Name(id="mgeom", ctx=ast.Load()), node)
        return node

    def visit_Name(self, node):
        if node.id == "constants" and isinstance(node.ctx, ast.Load):
            return ast.copy_location(ast.Name(id="consts", ctx=node.ctx), node)
        return node


TRANSFORMS["module_alias"] = _ModuleAlias


def _package_signatures(src):
    """name -> parameter names (without self) for functions / methods / constructors whose name is defined exactly once in the package"""
    defs, classes = {}, {}
    for root, dirs, files in os.walk(src):
        for f in files:
            if not f.endswith(".py") or f == "symmetry_data.py":
                continue
            t = ast.parse(open(os.path.join(root, f)).read())
            for node in ast.walk(t):
                if isinstance(node, ast.ClassDef):
                    for m in node.body:
                        if isinstance(m, ast.FunctionDef):
                            decos = {ast.unparse(d) for d in m.decorator_list}
                            if decos:
                                defs.setdefault(m.name, []).append(None)
                                continue
                            if m.name == "__init__":
                                classes.setdefault(node.name, []).append(m)
                            else:
                                defs.setdefault(m.name, []).append((m, True))
            for node in t.body:
                if isinstance(node, ast.FunctionDef):
                    defs.setdefault(node.name, []).append((node, False) if not node.decorator_list else None)
    out = {}
    for name, lst in list(defs.items()) + [(k, [(m, True) for m in v]) for k, v in classes.items()]:
        if len(lst) != 1 or lst[0] is None or name in out:
            out[name] = None
            continue
        fn, is_method = lst[0]
        a = fn.args
        if a.vararg or a.posonlyargs:
            out[name] = None
            continue
        ps = [x.arg for x in a.args]
        out[name] = ps[1:] if is_method else ps
    return {k: v for k, v in out.items() if v is not None}


def _foreign_names():
    import builtins
    names = set(dir(builtins))
    for obj in (dict, list, set, str, tuple, float, int):
        names |= set(dir(obj))
    try:
        import numpy, ase, networkx
        names |= set(dir(numpy)) | set(dir(numpy.ndarray)) | set(dir(ase.Atoms)) | set(dir(networkx.Graph)) | set(dir(networkx)) | set(dir(numpy.linalg)) | set(dir(numpy.random.Generator))
        import ase.cell
        names |= set(dir(ase.cell.Cell))
    except Exception:
        pass
    return names


class _Keywordize(ast.NodeTransformer):
    """every positional argument of a call of a package function / method / constructor is passed by keyword"""
    sigs = {}

    def visit_Call(self, node):
        self.generic_visit(node)
        f = node.func
        name = f.attr if isinstance(f, ast.Attribute) else f.id if isinstance(f, ast.Name) else None
        if isinstance(f, ast.Attribute):
            chain = ast.unparse(f.value).split(".")
            if "ext" in chain or chain[0] in ("ase", "np", "numpy", "spglib", "nx", "networkx", "scipy", "sklearn", "itertools", "math"):
                return node         # the compiled extension takes positional arguments only; other libraries have their own parameter names
        ps = self.sigs.get(name)
        if ps is None or not node.args or any(isinstance(a, ast.Starred) for a in node.args) or len(node.args) > len(ps):
            return node
        if any(k.arg is None for k in node.keywords) or {k.arg for k in node.keywords} & set(ps[:len(node.args)]):
            return node
        node.keywords = [ast.keyword(arg=p, value=a) for p, a in zip(ps, node.args)] + node.keywords
        node.args = []
        return node


TRANSFORMS["keyword_arguments"] = _Keywordize
_transform_tree_plain = transform_tree


def transform_tree(src, dst, kind):
    if kind == "keyword_arguments":
        foreign = _foreign_names()
        _Keywordize.sigs = {k: v for k, v in _package_signatures(src).items() if k not in foreign}
    _transform_tree_plain(src, dst, kind)


class _SwapIndependent(ast.NodeTransformer):
    """two adjacent simple assignments `a = <pure expr>; b = <pure expr>` that do not read or write each other's names are exchanged"""
    PURE = (ast.Name, ast.Constant, ast.Attribute, ast.Subscript, ast.BinOp, ast.UnaryOp, ast.Tuple, ast.List, ast.Compare, ast.BoolOp, ast.Load, ast.Store,
            ast.operator, ast.unaryop, ast.cmpop, ast.boolop, ast.Slice, ast.expr_context)

    def _simple(self, s):
        return isinstance(s, ast.Assign) and len(s.targets) == 1 and isinstance(s.targets[0], ast.Name) and all(isinstance(x, self.PURE) for x in ast.walk(s.value))

    def _block(self, stmts):
        stmts = [self.visit(s) for s in stmts]
        out, i = [], 0
        while i < len(stmts):
            a = stmts[i]
            b = stmts[i + 1] if i + 1 < len(stmts) else None
            if b is not None and self._simple(a) and self._simple(b):
                na, nb = a.targets[0].id, b.targets[0].id
                ra = {x.id for x in ast.walk(a.value) if isinstance(x, ast.Name)}
                rb = {x.id for x in ast.walk(b.value) if isinstance(x, ast.Name)}
                if na != nb and na not in rb and nb not in ra:
                    out += [b, a]
                    i += 2
                    continue
            out.append(a)
            i += 1
        return out

    def generic_visit(self, node):
        for f in ("body", "orelse", "finalbody"):
            v = getattr(node, f, None)
            if isinstance(v, list) and v and isinstance(v[0], ast.stmt):
                setattr(node, f, self._block(v))
        if isinstance(node, ast.Try):
            for h in node.handlers:
                h.body = self._block(h.body)
        return node

    def visit_ClassDef(self, node):
        # class bodies define the public order of attributes; leave them, but visit the methods
        node.body = [self.visit(s) for s in node.body]
        return node

    def visit_Module(self, node):
        node.body = [self.visit(s) for s in node.body]
        return node


TRANSFORMS["swap_independent"] = _SwapIndependent


class _Annotate(ast.NodeTransformer):
    """inside functions, `x = E` with a single name target is written `x: object = E` (skipped in functions that declare global / nonlocal names)"""
    def visit_FunctionDef(self, node):
        self.generic_visit(node)
        if any(isinstance(x, (ast.Global, ast.Nonlocal)) for x in ast.walk(node)):
            return node

        class _A(ast.NodeTransformer):
            def visit_FunctionDef(self, n):
                return n

            def visit_Lambda(self, n):
                return n

            def visit_Assign(self, n):
                if len(n.targets) == 1 and isinstance(n.targets[0], ast.Name):
                    return ast.copy_location(ast.AnnAssign(target=n.targets[0], annotation=ast.Name(id="object", ctx=ast.Load()), value=n.value, simple=1), n)
                return n
        node.body = [_A().visit(s) for s in node.body]
        return node


class _Noops(ast.NodeTransformer):
    """a `pass` after every statement of every function body block"""
    def generic_visit(self, node):
        super().generic_visit(node)
        if isinstance(node, (ast.ClassDef, ast.Module)):
            return node
        for f in ("body", "orelse", "finalbody"):
            v = getattr(node, f, None)
            if isinstance(v, list) and v and isinstance(v[0], ast.stmt):
                out = []
                for s in v:
                    out.append(s)
                    if not isinstance(s, (ast.Return, ast.Raise, ast.Continue, ast.Break)):
                        out.append(ast.Pass())
                setattr(node, f, out)
        if isinstance(node, ast.Try):
            for h in node.handlers:
                h.body = [x for s in h.body for x in ((s, ast.Pass()) if not isinstance(s, (ast.Return, ast.Raise, ast.Continue, ast.Break)) else (s,))]
        return node


TRANSFORMS["annotated_assignments"] = _Annotate
TRANSFORMS["inserted_pass"] = _Noops


class _HoistCalls(ast.NodeTransformer):
    """in `x = f(..., g(...), ...)` / `return f(..., g(...))` / `f(..., g(...))` at block level, positional arguments that are calls are computed into
    temporaries first, left to right (`h_1 = g(...); x = f(..., h_1, ...)`); only when every earlier argument is a name / constant / attribute chain"""
    n = 0

    def _hoist(self, s):
        v = s.value if isinstance(s, (ast.Assign, ast.Return, ast.Expr)) else None
        if not isinstance(v, ast.Call) or any(isinstance(a, ast.Starred) for a in v.args):
            return [s]
        if not isinstance(v.func, (ast.Name, ast.Attribute)) or any(isinstance(x, ast.Call) for x in ast.walk(v.func)):
            return [s]
        pre = []
        for i, a in enumerate(v.args):
            if isinstance(a, ast.Call):
                _HoistCalls.n += 1
                t = f"hoisted_{_HoistCalls.n}"
                pre.append(ast.Assign(targets=[ast.Name(id=t, ctx=ast.Store())], value=a, type_comment=None))
                v.args[i] = ast.Name(id=t, ctx=ast.Load())
            elif not all(isinstance(x, (ast.Name, ast.Constant, ast.Attribute, ast.Load, ast.UnaryOp, ast.USub)) for x in ast.walk(a)):
                break
        return pre + [s]

    def generic_visit(self, node):
        super().generic_visit(node)
        if isinstance(node, (ast.ClassDef, ast.Module)):
            return node
        for f in ("body", "orelse", "finalbody"):
            v = getattr(node, f, None)
            if isinstance(v, list) and v and isinstance(v[0], ast.stmt):
                setattr(node, f, [x for s in v for x in self._hoist(s)])
        return node


TRANSFORMS["hoisted_calls"] = _HoistCalls


class _InlineTemps(ast.NodeTransformer):
    """`t = E; S` with t a local that occurs exactly once more in the function, inside the simple statement S that follows (not under a lambda or a
    comprehension, not as a store): E is written where t was and the assignment is dropped. Only for E without calls (no evaluation-order question)."""
    n = 0

    def visit_FunctionDef(self, fn):
        self.generic_visit(fn)
        changed = True
        while changed:
            changed = False
            counts = {}
            for x in ast.walk(fn):
                if isinstance(x, ast.Name):
                    counts[x.id] = counts.get(x.id, 0) + 1
            for node in ast.walk(fn):
                for f in ("body", "orelse", "finalbody"):
                    v = getattr(node, f, None)
                    if not (isinstance(v, list) and v and isinstance(v[0], ast.stmt)):
                        continue
                    for i in range(len(v) - 1):
                        a, b = v[i], v[i + 1]
                        if not (isinstance(a, ast.Assign) and len(a.targets) == 1 and isinstance(a.targets[0], ast.Name)) or not isinstance(b, (ast.Assign, ast.Return, ast.Expr)):
                            continue
                        t = a.targets[0].id
                        if counts.get(t) != 2 or any(isinstance(x, (ast.Call, ast.Lambda, ast.ListComp, ast.GeneratorExp, ast.DictComp, ast.SetComp, ast.Await, ast.Yield,
                                                                     ast.NamedExpr)) for x in ast.walk(a.value)):
                            continue
                        if b.value is None or any(isinstance(x, (ast.Lambda, ast.ListComp, ast.GeneratorExp, ast.DictComp, ast.SetComp)) for x in ast.walk(b.value)):
                            continue
                        uses = [x for x in ast.walk(b.value) if isinstance(x, ast.Name) and x.id == t and isinstance(x.ctx, ast.Load)]
                        if len(uses) != 1:
                            continue
                        val = a.value

                        class _Sub(ast.NodeTransformer):
                            def visit_Name(self, n):
                                return val if n is uses[0] else n
                        b.value = _Sub().visit(b.value)
                        del v[i]
                        _InlineTemps.n += 1
                        changed = True
                        break
                    if changed:
                        break
                if changed:
                    break
        return fn


TRANSFORMS["inlined_temporaries"] = _InlineTemps


class _SplitChains(ast.NodeTransformer):
    """`a <= x <= b` written `a <= x and x <= b` (only when the middle operands are names, attributes, constants or subscripts of those: evaluated twice)"""
    def visit_Compare(self, node):
        self.generic_visit(node)
        if len(node.ops) < 2:
            return node
        mids = node.comparators[:-1]
        if not all(all(isinstance(x, (ast.Name, ast.Attribute, ast.Constant, ast.Subscript, ast.Load, ast.UnaryOp, ast.USub, ast.BinOp, ast.operator))
                       for x in ast.walk(m)) for m in mids):
            return node
        parts, left = [], node.left
        for op, right in zip(node.ops, node.comparators):
            parts.append(ast.Compare(left=left, ops=[op], comparators=[right]))
            left = right
        return ast.copy_location(ast.BoolOp(op=ast.And(), values=parts), node)


class _Ternary(ast.NodeTransformer):
    """`if c: x = A  else: x = B` (one plain assignment of the same name on both sides) written `x = A if c else B`, and the other way round"""
    def visit_If(self, node):
        self.generic_visit(node)
        if len(node.body) == 1 and len(node.orelse) == 1 and all(isinstance(s, ast.Assign) and len(s.targets) == 1 and isinstance(s.targets[0], ast.Name)
                                                                   for s in (node.body[0], node.orelse[0])) \
                and node.body[0].targets[0].id == node.orelse[0].targets[0].id:
            return ast.copy_location(ast.Assign(targets=[node.body[0].targets[0]], value=ast.IfExp(test=node.test, body=node.body[0].value, orelse=node.orelse[0].value),
                                                type_comment=None), node)
        return node

    def visit_Assign(self, node):
        if isinstance(node.value, ast.IfExp) and len(node.targets) == 1 and isinstance(node.targets[0], ast.Name):
            import copy
            return ast.copy_location(ast.If(test=node.value.test, body=[ast.Assign(targets=[node.targets[0]], value=node.value.body, type_comment=None)],
                                            orelse=[ast.Assign(targets=[copy.deepcopy(node.targets[0])], value=node.value.orelse, type_comment=None)]), node)
        return node


TRANSFORMS["split_chains"] = _SplitChains
TRANSFORMS["ternaries"] = _Ternary


class _ReorderDefs(ast.NodeTransformer):
    """every maximal run of consecutive function definitions in a class body or a module is written in reverse order"""
    def _rev(self, body):
        out, run = [], []
        for s in body:
            if isinstance(s, (ast.FunctionDef, ast.AsyncFunctionDef)) and not any("setter" in ast.unparse(d) or "getter" in ast.unparse(d) for d in s.decorator_list):
                run.append(s)
            else:
                out += run[::-1]
                run = []
                out.append(s)
        return out + run[::-1]

    def visit_ClassDef(self, node):
        self.generic_visit(node)
        node.body = self._rev(node.body)
        return node

    def visit_Module(self, node):
        self.generic_visit(node)
        node.body = self._rev(node.body)
        return node


class _UnpackCalls(ast.NodeTransformer):
    """`a, b, c = f(...)` written `u = f(...); a = u[0]; b = u[1]; c = u[2]` (plain names on the left, a call that returns a tuple on the right)"""
    n = 0

    def generic_visit(self, node):
        super().generic_visit(node)
        if isinstance(node, (ast.ClassDef, ast.Module)):
            return node
        for f in ("body", "orelse", "finalbody"):
            v = getattr(node, f, None)
            if isinstance(v, list) and v and isinstance(v[0], ast.stmt):
                out = []
                for s in v:
                    if isinstance(s, ast.Assign) and len(s.targets) == 1 and isinstance(s.targets[0], ast.Tuple) and isinstance(s.value, ast.Call) \
                            and all(isinstance(e, ast.Name) for e in s.targets[0].elts):
                        _UnpackCalls.n += 1
                        u = f"unpacked_{_UnpackCalls.n}"
                        out.append(ast.Assign(targets=[ast.Name(id=u, ctx=ast.Store())], value=s.value, type_comment=None))
                        for k, e in enumerate(s.targets[0].elts):
                            out.append(ast.Assign(targets=[e], value=ast.Subscript(value=ast.Name(id=u, ctx=ast.Load()), slice=ast.Constant(value=k), ctx=ast.Load()), type_comment=None))
                    else:
                        out.append(s)
                setattr(node, f, out)
        return node


TRANSFORMS["reordered_definitions"] = _ReorderDefs
TRANSFORMS["unpacked_calls"] = _UnpackCalls


class _GuardClauses(ast.NodeTransformer):
    """a loop body (function body) that ends in `if c: BODY` without else is written `if not c: continue (return); BODY`"""
    n = 0

    def _guard(self, body, leave):
        last = body[-1] if body else None
        if isinstance(last, ast.If) and not last.orelse and len(last.body) >= 2:
            _GuardClauses.n += 1
            neg = {ast.Eq: ast.NotEq, ast.NotEq: ast.Eq, ast.Is: ast.IsNot, ast.IsNot: ast.Is, ast.In: ast.NotIn, ast.NotIn: ast.In}
            t = last.test
            if isinstance(t, ast.Compare) and len(t.ops) == 1 and type(t.ops[0]) in neg:
                test = ast.Compare(left=t.left, ops=[neg[type(t.ops[0])]()], comparators=t.comparators)
            elif isinstance(t, ast.UnaryOp) and isinstance(t.op, ast.Not):
                test = t.operand
            else:
                test = ast.UnaryOp(op=ast.Not(), operand=t)
            return body[:-1] + [ast.If(test=test, body=[leave()], orelse=[])] + last.body
        return body

    def visit_For(self, node):
        self.generic_visit(node)
        node.body = self._guard(node.body, ast.Continue)
        return node

    def visit_While(self, node):
        self.generic_visit(node)
        node.body = self._guard(node.body, ast.Continue)
        return node

    def visit_FunctionDef(self, node):
        self.generic_visit(node)
        if not any(isinstance(x, (ast.Yield, ast.YieldFrom)) for x in ast.walk(node)):
            node.body = self._guard(node.body, lambda: ast.Return(value=None))
        return node


TRANSFORMS["guard_clauses"] = _GuardClauses


def _package_defaults(src):
    """name -> (parameter names without self, {parameter: constant default}) for functions / methods / constructors defined exactly once in the package"""
    sigs = _package_signatures(src)
    found = {}
    for root, dirs, files in os.walk(src):
        for f in files:
            if not f.endswith(".py") or f == "symmetry_data.py":
                continue
            t = ast.parse(open(os.path.join(root, f)).read())
            for node in ast.walk(t):
                if isinstance(node, ast.ClassDef):
                    for m in node.body:
                        if isinstance(m, ast.FunctionDef):
                            found.setdefault(node.name if m.name == "__init__" else m.name, []).append((m, True))
            for node in t.body:
                if isinstance(node, ast.FunctionDef):
                    found.setdefault(node.name, []).append((node, False))
    out = {}
    for name, ps in sigs.items():
        if len(found.get(name, ())) != 1:
            continue
        fn, is_method = found[name][0]
        a = fn.args
        names = [x.arg for x in a.args]
        d = {n: v for n, v in zip(names[len(names) - len(a.defaults):], a.defaults) if isinstance(v, ast.Constant)}
        if d and not a.kwarg:
            out[name] = (ps, d)
    return out


class _ExplicitDefaults(ast.NodeTransformer):
    """every call of a package function / method / constructor passes the constant defaults it relied on explicitly, by keyword"""
    sigs = {}
    n = 0

    def visit_Call(self, node):
        self.generic_visit(node)
        f = node.func
        name = f.attr if isinstance(f, ast.Attribute) else f.id if isinstance(f, ast.Name) else None
        if isinstance(f, ast.Attribute):
            chain = ast.unparse(f.value).split(".")
            if "ext" in chain or chain[0] in ("ase", "np", "numpy", "spglib", "nx", "networkx", "scipy", "sklearn", "itertools", "math", "super()"):
                return node
        if name not in self.sigs or any(isinstance(a, ast.Starred) for a in node.args) or any(k.arg is None for k in node.keywords):
            return node
        ps, d = self.sigs[name]
        if len(node.args) > len(ps):
            return node
        given = set(ps[:len(node.args)]) | {k.arg for k in node.keywords}
        for p in ps:
            if p in d and p not in given:
                node.keywords.append(ast.keyword(arg=p, value=ast.Constant(value=d[p].value)))
                _ExplicitDefaults.n += 1
        return node


TRANSFORMS["explicit_defaults"] = _ExplicitDefaults
_transform_tree_kw = transform_tree


def transform_tree(src, dst, kind):
    if kind == "explicit_defaults":
        foreign = _foreign_names()
        _ExplicitDefaults.sigs = {k: v for k, v in _package_defaults(src).items() if k not in foreign}
    _transform_tree_kw(src, dst, kind)


class _NotCompare(ast.NodeTransformer):
    """`a != b` written `not a == b`, `a not in b` written `not a in b`, `a is not b` written `not a is b` (single comparisons)"""
    POS = {ast.NotEq: ast.Eq, ast.NotIn: ast.In, ast.IsNot: ast.Is}

    def visit_Compare(self, node):
        self.generic_visit(node)
        if len(node.ops) == 1 and type(node.ops[0]) in self.POS:
            return ast.copy_location(ast.UnaryOp(op=ast.Not(), operand=ast.Compare(left=node.left, ops=[self.POS[type(node.ops[0])]()], comparators=node.comparators)), node)
        return node


TRANSFORMS["not_compare"] = _NotCompare
