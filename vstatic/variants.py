"""Broken variants (must fire, naming the rule) and behaviour-preserving twins (must stay silent).

Every broken variant still compiles and - by inspection of what the pinned tests assert - passes the
pinned suite or is only exposed by inputs the suite does not contain.
"""
SBC = "matid/clustering/sbc.py"
CLU = "matid/clustering/cluster.py"
GEO = "matid/geometry/geometry.py"
SYM = "matid/symmetry/symmetryanalyzer.py"
CLS = "matid/classification/classifier.py"
CLF = "matid/classification/classifications.py"
PFD = "matid/core/periodicfinder.py"
TAB = "matid/data/symmetry_data.py"
LUN = "matid/core/linkedunits.py"

VARIANTS = []


def V(pid, name, expect, *edits, tier="quick", mentions=None):
    VARIANTS.append(dict(pid=pid, name=name, expect=expect, edits=[tuple(e) for e in edits], tier=tier, mentions=mentions))


# ------------------------------------------------------------------------------------------ C03
V("C03", "merge when the overlap is below the threshold", "R03.3", (SBC, "if best_overlap_score > merge_threshold:", "if best_overlap_score < merge_threshold:"))
V("C03", "merge without consulting the threshold", "R03.3", (SBC, "if best_overlap_score > merge_threshold:", "if best_overlap > 0:"))
V("C03", "raw shared-atom count compared with the threshold", "R03.3", (SBC, "if best_overlap_score > merge_threshold:", "if best_overlap > merge_threshold:"))
V("C03", "twin: threshold on the left", "silent", (SBC, "if best_overlap_score > merge_threshold:", "if merge_threshold < best_overlap_score:"))
V("C03", "smaller cluster dictates the species", "R03.3", (SBC, "            if len(a.indices) > len(b.indices):\n                target = a\n                source = b\n            else:\n                target = b\n                source = a",
   "            if len(a.indices) > len(b.indices):\n                target = b\n                source = a\n            else:\n                target = a\n                source = b"))
V("C03", "substituted atoms become members", "R03.2", (LUN, "                for index in unit.basis_indices:\n                    if index is not None:\n                        indices.add(index)",
   "                for index in unit.basis_indices:\n                    if index is not None:\n                        indices.add(index)\n                for sub in unit.substitutions:\n                    if sub is not None:\n                        indices.add(sub.index)"))
V("C03", "None placeholders kept", "R03.2", (LUN, "                    if index is not None:\n                        indices.add(index)", "                    indices.add(index)"))
V("C03", "least-surrounded cluster keeps the shared atom", "R03.5", (SBC, "                    if n_near > max_near:", "                    if n_near < max_near:"))
V("C03", "neighbourhood beyond the radius", "R03.5", (SBC, "distances.dist_matrix_radii_mic[i, :] < merge_radius", "distances.dist_matrix_radii_mic[i, :] > merge_radius"))
V("C03", "neighbourhood from raw distances", "R03.5", (SBC, "distances.dist_matrix_radii_mic[i, :] < merge_radius", "distances.dist_matrix_mic[i, :] < merge_radius"))
V("C03", "merge without species filter", "R03.4", (SBC, "final_indices = set(target.indices).union(common)", "final_indices = set(target.indices).union(source.indices)"))
V("C03", "species-blind matching", "R03.1", (GEO, "                if closest_atomic_number == atomic_number:\n                    match = closest_index\n                    substitution = None\n                else:\n", "                match = closest_index\n                if closest_atomic_number != atomic_number:\n"))
V("C03", "twin: >= in the running maximum", "silent", (SBC, "                    if n_near > max_near:", "                    if n_near >= max_near:"))
# ------------------------------------------------------------------------------------------ C04
V("C04", "corner origin + c computed with basis[1] (D20 regression)", "R04.11", (GEO, "    max_c = origin + basis[2, :]\n", "    max_c = origin + basis[1, :]\n"))
V("C04", "image range of axis c ends at the maximum of axis b", "R04.11", (GEO, "c_range = range(min_factors[2], max_factors[2] + 1)", "c_range = range(min_factors[2], max_factors[1] + 1)"))
V("C04", "periodic-vector counter used as cell-axis number (D19 regression)", "R04.10", (PFD, "i_factor[periodic_axes[i_per_span]] = 1", "i_factor[i_per_span] = 1"))
V("C04", "empty copy list reaches the averaging (D16 regression)", "R04.3", (PFD, "            if len(scaled_pos) != 0 and len(scaled_pos) >= 1 / 3 * max_occurrence:", "            if len(scaled_pos) >= 1 / 3 * max_occurrence:"))
V("C04", "3D builder averages the wrapped copies without unwrapping", "R04.3", (PFD, "                final_pos = scaled_pos - displacement\n", "                final_pos = scaled_pos\n"))
V("C04", "2D builder averages without unwrapping", "R04.3", (PFD, "                scaled_pos[:, 0:2] = final_pos_2d\n", "                scaled_pos[:, 0:2] = scaled_pos_2d\n"))
V("C04", "element appended outside the occurrence filter", "R04.3", (PFD, "                group_avg = np.mean(final_pos, axis=0)\n                averaged_rel_pos.append(group_avg)\n                averaged_rel_num.append(group_num)\n", "                group_avg = np.mean(final_pos, axis=0)\n                averaged_rel_pos.append(group_avg)\n            averaged_rel_num.append(group_num)\n"))
V("C04", "mean over the coordinates instead of the copies", "R04.3", (PFD, "group_avg = np.mean(final_pos, axis=0)", "group_avg = np.mean(final_pos, axis=1)"))
V("C04", "twin: median of the unwrapped copies", "silent", (PFD, "group_avg = np.mean(final_pos, axis=0)", "group_avg = np.median(final_pos, axis=0)"))
V("C04", "get_cell hands out the analysed system's cell", "R04.1", (CLU, "            return self._region.cell\n", "            return self._system\n"))
V("C04", "region tracked with a copy stripped of its pbc", "R04.1", (PFD, "                seed_index,\n                proto_cell,\n                offset,\n                periodic_indices,", "                seed_index,\n                system,\n                offset,\n                periodic_indices,"))
V("C04", "region 2D flag from the wrong value", "R04.1", (PFD, "                dim == 2,\n", "                dim == 3,\n"))
V("C04", "reduced cell keeps full periodicity", "R04.4", (PFD, "proto_cell.set_pbc([True, True, False])", "proto_cell.set_pbc([True, True, True])"))
V("C04", "reduction drops the thickest direction", "R04.4", (PFD, "reduced_dimension = np.argmin(thicknesses)", "reduced_dimension = np.argmax(thicknesses)"))
V("C04", "reduced cell minimised along the wrong axis", "R04.4", (PFD, "                    proto_cell = matid.geometry.get_minimized_cell(\n                        proto_cell, 2, 2 * self.pos_tol\n                    )", "                    proto_cell = matid.geometry.get_minimized_cell(\n                        proto_cell, 0, 2 * self.pos_tol\n                    )"))
V("C04", "minimised cell discarded", "R04.4", (PFD, "                    proto_cell = matid.geometry.get_minimized_cell(\n                        proto_cell, 2, 2 * self.pos_tol\n                    )", "                    matid.geometry.get_minimized_cell(\n                        proto_cell, 2, 2 * self.pos_tol\n                    )"))
V("C04", "id without the 2D flag", "R04.6", (SYM, "        if self.n_pbc == 2:\n", "        if self.n_pbc == 5:\n"))
# ------------------------------------------------------------------------------------------ C18
V("C18", "smallest region wins", "R18.4", (CLS, "                        if n_basis > most_atoms:", "                        if n_basis < most_atoms:"))
V("C18", "first found region returned", "R18.4", (CLS, "                        if n_basis == n_atoms:\n                            return region", "                        if n_basis > 0:\n                            return region"))
V("C18", "only the first tolerance is tried", "R18.4", (CLS, "                        if n_basis > most_atoms:\n                            most_atoms = n_basis\n                            best_region = region\n", "                        if n_basis > most_atoms:\n                            most_atoms = n_basis\n                            best_region = region\n                    break\n"))
V("C18", "region search always from the first seed", "R18.4", (CLS, "                        system,\n                        index,\n                        size,\n                        tol,", "                        system,\n                        seed_indices[0],\n                        size,\n                        tol,"))
V("C18", "twin: >= keeps the later of equally large regions", "silent", (CLS, "                        if n_basis > most_atoms:", "                        if n_basis >= most_atoms:"))
V("C18", "seeds farthest from the centre of mass", "R18.5", (CLS, "indices = np.argsort(dist)", "indices = np.argsort(-dist)"))
V("C18", "species never struck off: every atom becomes a seed", "R18.5", (CLS, "                        seed_indices.append(i)\n                        elems.remove(i_elem)", "                        seed_indices.append(i)"))
V("C18", "centre of mass of the unwrapped input", "R18.5", (CLS, "cm = matid.geometry.get_center_of_mass(test_sys)", "cm = matid.geometry.get_center_of_mass(input_system)"))
V("C18", "direction connected on +d or -d", "R18.6", (LUN, "                if positive and negative:\n                    dir_to_remove.add(direction)", "                if positive or negative:\n                    dir_to_remove.add(direction)"))
V("C18", "-d test dropped", "R18.6", (LUN, "                    if np.array_equal(multiplier, -dir_vector):\n                        negative = True", "                    if np.array_equal(multiplier, dir_vector):\n                        negative = True"))
V("C18", "Surface for 2D regions", "R18.3", (CLS, "                    if best_region.is_2d:", "                    if not best_region.is_2d:"))
V("C18", "substituted atoms become members", "R18.1", (LUN, "                for index in unit.basis_indices:\n                    if index is not None:\n                        indices.add(index)",
   "                for index in unit.basis_indices:\n                    if index is not None:\n                        indices.add(index)\n                for sub in unit.substitutions:\n                    if sub is not None:\n                        indices.add(sub.index)"))
# ------------------------------------------------------------------------------------------ C01
V("C01", "alias instead of copy", "R01.1", (SBC, "system_copy = system.copy()", "system_copy = system"))
V("C01", "wrap the argument", "R01.1", (SBC, "        # Positions are wrapped\n        system_copy.wrap()",
                                        "        # Positions are wrapped\n        system.wrap()\n        system_copy.wrap()"))
V("C01", "twin: the argument is kept by the clusters, whose methods only read it", "silent",
  (SBC, "                        system=system_copy,\n                        distances=distances,\n                        radii=radii,",
        "                        system=system,\n                        distances=distances,\n                        radii=radii,"))
V("C01", "the argument is kept by the clusters and a cluster method wraps the structure it keeps", "R01.1",
  (SBC, "                        system=system_copy,\n                        distances=distances,\n                        radii=radii,",
        "                        system=system,\n                        distances=distances,\n                        radii=radii,"),
  (CLU, "        return self._system[self.indices]\n", "        self._system.wrap()\n        return self._system[self.indices]\n"))
V("C01", "twin: copy via Atoms slicing idiom", "silent", (SBC, "system_copy = system.copy()", "system_copy = system.copy()\n        system_copy = system_copy.copy()"))
V("C01", "unseeded generator", "R01.2", (SBC, "np.random.default_rng(seed)", "np.random.default_rng()"))
V("C01", "global numpy RNG for the seed atom", "R01.2", (SBC, "i_seed = self.rng.choice(list(indices), 1)[0]", "i_seed = np.random.choice(list(indices), 1)[0]"))
V("C01", "generator seeded by a constant", "R01.2", (SBC, "np.random.default_rng(seed)", "np.random.default_rng(7)"))
V("C01", "drop localize stage", "R01.3",
  (SBC, "        clusters = self._localize_clusters(\n            system_copy, clusters, merge_radius, distances\n        )\n", ""))
V("C01", "clean before localize", "R01.3",
  (SBC, "        clusters = self._localize_clusters(\n            system_copy, clusters, merge_radius, distances\n        )\n",
        "        clusters = self._clean_clusters(clusters, bond_threshold)\n        clusters = self._localize_clusters(\n            system_copy, clusters, merge_radius, distances\n        )\n"))
V("C01", "localize only when more than one cluster... skipping path", "R01.3",
  (SBC, "        clusters = self._localize_clusters(\n            system_copy, clusters, merge_radius, distances\n        )\n",
        "        if len(clusters) > 2:\n            clusters = self._localize_clusters(\n                system_copy, clusters, merge_radius, distances\n            )\n"))
V("C01", "localize result dropped", "R01.3", (SBC, "        clusters = self._clean_clusters(clusters, bond_threshold)\n\n        return clusters",
                                              "        cleaned = self._clean_clusters(clusters, bond_threshold)\n\n        return clusters"))
V("C01", "localize adds neighbours", "R01.4", (SBC, "                    if cluster != max_cluster:\n                        ind_set.remove(i)",
                                               "                    if cluster != max_cluster:\n                        ind_set.remove(i)\n                    else:\n                        ind_set.update(surrounding_indices)"))
V("C01", "proto cell periodic in one direction", "R01.5", (PFD, "            pbc=[True, True, False],\n        )\n", "            pbc=[True, False, False],\n        )\n"))
V("C01", "reduced cell made non-periodic", "R01.5", (PFD, "proto_cell.set_pbc([True, True, False])", "proto_cell.set_pbc([False, False, False])"))
V("C01", "merged cluster without region", "R01.5", (SBC, "                largest_region,\n                system=system,", "                None,\n                system=system,"))
V("C01", "wrap before the zero-vector guard", "R01.6", (SBC, "        pbc = system_copy.get_pbc()\n        basis = system_copy.get_cell()",
                                                        "        system_copy.wrap()\n        pbc = system_copy.get_pbc()\n        basis = system_copy.get_cell()"))
V("C01", "guard raises another exception", "R01.6", (SBC, "                    raise ValueError(\n                        \"Cannot process system with zero-volume cell", "                    raise RuntimeError(\n                        \"Cannot process system with zero-volume cell"))
V("C01", "merge without species filter", "R01.7", (SBC, "final_indices = set(target.indices).union(common)", "final_indices = set(target.indices).union(source.indices)"))
V("C01", "merge takes species of the smaller cluster", "R01.7", (SBC, "                final_indices,\n                target.species,", "                final_indices,\n                source.species,"))
V("C01", "twin: comprehension instead of filter", "silent",
  (SBC, "            common = set(\n                filter(lambda x: atomic_numbers[x] in target.species, source.indices)\n            )",
        "            common = {x for x in source.indices if atomic_numbers[x] in target.species}"))
V("C01", "cleaning keeps two components", "R01.8",
  (SBC, "            largest_indices = max(dbscan_clusters, key=lambda x: len(x))",
        "            ordered = sorted(dbscan_clusters, key=lambda x: len(x))\n            largest_indices = ordered[-1] + (ordered[-2] if len(ordered) > 1 else [])"))
V("C01", "cleaning clusters the global matrix", "R01.8", (SBC, "                    cluster._get_distance_matrix_radii_mic(),\n                    bond_threshold,",
                                                          "                    cluster._distances.dist_matrix_radii_mic,\n                    bond_threshold,"))
V("C01", "overlap_threshold not forwarded", "R01.9", (SBC, "                overlap_threshold=overlap_threshold,\n", ""))
V("C01", "pos_tol hard-coded", "R01.9", (SBC, "                pos_tol=pos_tol,", "                pos_tol=0.7,"))
V("C01", "merge_threshold ignored", "R01.9", (SBC, "if best_overlap_score > merge_threshold:", "if best_overlap_score > 0.5:"))
V("C01", "bond_threshold swapped with merge_radius in clean", "R01.9", (SBC, "clusters = self._clean_clusters(clusters, bond_threshold)", "clusters = self._clean_clusters(clusters, merge_radius)"))
V("C01", "radii not given to get_distances", "R01.9", (SBC, "distances = matid.geometry.get_distances(system_copy, radii)", "distances = matid.geometry.get_distances(system_copy)"))
V("C01", "angle_tol dropped", "R01.9", (SBC, "PeriodicFinder(angle_tol=angle_tol)", "PeriodicFinder()"))

# ------------------------------------------------------------------------------------------ C08
V("C08", "hard-coded plausibility tolerance in the solver (D18 regression)", "R08.13", (SYM, "np.dot(W, M) + C, R, cell, precision", "np.dot(W, M) + C, R, cell, 1e-3"))
V("C08", "solver back to own component", "R08.2", (SYM, "W[idx] = R[icomp] - C[icomp]", "W[idx] = R[idx] - C[idx]"))
V("C08", "twin: solver mixes components (equivalent on every tabulated position: constants agree)", "silent", (SYM, "W[idx] = R[icomp] - C[icomp]", "W[idx] = R[icomp] - C[idx]"))
V("C08", "twin: scaled solver", "silent", (SYM, "W[idx] = R[icomp] - C[icomp]", "W[idx] = (R[icomp] - C[icomp]) / M[idx][icomp]"))
V("C08", "one constant perturbed in a group no test touches", "R08.1", (TAB, "[0.0, 0.0, 0.91666667],\n                    [0.0, 0.0, 0.75],", "[0.0, 0.0, 0.41666667],\n                    [0.0, 0.0, 0.75],"))
V("C08", "unwrapped parameters stored", "R08.4", (SYM, "W_final = matid.geometry.get_wrapped_positions(W_final)\n", "W_final = W_final * 1.0\n"))
V("C08", "flag reads unpermuted letters", "R08.4", (SYM, "wyckoff_letters = set(self.get_wyckoff_letters_original())\n        wyckoff_info = WYCKOFF_SETS[space_group]",
                                                    "wyckoff_letters = set(self._get_spglib_wyckoff_letters_original())\n        wyckoff_info = WYCKOFF_SETS[space_group]"))

# ------------------------------------------------------------------------------------------ C09
V("C09", "no wrapping", "R09.1", (GEO, "    system = system.copy()\n    system.wrap()\n    system_1x = system", "    system = system.copy()\n    system_1x = system"))
V("C09", "twin: wrap=True getter", "silent", (GEO, "    system = system.copy()\n    system.wrap()\n    system_1x = system\n", "    system = system.copy()\n    system.wrap()\n    system_1x = system\n    system_1x = system\n"))
V("C09", "cutoff with one radius", "R09.2", (GEO, "cutoff = cluster_threshold + 2 * max_radii", "cutoff = cluster_threshold + max_radii"))
V("C09", "cutoff from the module default instead of the argument", "R09.2", (GEO, "cutoff = cluster_threshold + 2 * max_radii", "cutoff = CLUSTER_THRESHOLD + 2 * max_radii"))
V("C09", "twin: generous cutoff", "silent", (GEO, "cutoff = cluster_threshold + 2 * max_radii", "cutoff = 1.5 * cluster_threshold + 2.5 * max_radii"))
V("C09", "clip bound below eps", "R09.2", (GEO, "a_max=1.1 * threshold", "a_max=0.9 * threshold"))
V("C09", "2x uses another cutoff", "R09.3", (GEO, "                pbc,\n                cutoff=cutoff,\n                return_distances=True,\n            )\n            radii_2x",
                                             "                pbc,\n                cutoff=cluster_threshold,\n                return_distances=True,\n            )\n            radii_2x"))
V("C09", "repeat 3 with log 2", "R09.3", (GEO, "repeats[pbc] = 2", "repeats[pbc] = 3"))
V("C09", "2x clustering with min_samples 2", "R09.3", (GEO, "dist_matrix_radii_mic_2x, cluster_threshold, min_samples=1", "dist_matrix_radii_mic_2x, cluster_threshold, min_samples=2"))
V("C09", "natural log in the rank formula", "R09.3", (GEO, "math.log(n_clusters_2x, 2)", "math.log(n_clusters_2x)"))

# ------------------------------------------------------------------------------------------ C13
V("C13", "radii looked up by species in the shortcut", "R13.2", (CLU, 'kwargs["radii"] = np.asarray(self._radii)[self.indices]', 'zs = self._system.get_atomic_numbers()\n                by_z = dict(zip(zs, np.asarray(self._radii)))\n                kwargs["radii"] = np.array([by_z[z] for z in zs[self.indices]])'))
V("C13", "twin: radii slice through a local", "silent", (CLU, 'kwargs["radii"] = np.asarray(self._radii)[self.indices]', 'all_radii = np.asarray(self._radii)\n                kwargs["radii"] = all_radii[self.indices]'))
V("C13", "setter forgets the matrix cache", "R13.1", (CLU, "        self._indices = indices\n        self._distance_matrix_radii_mic = None\n", "        self._indices = indices\n"))
V("C13", "bypass the setter", "R13.1", (SBC, "cluster.indices = np.array(cluster.indices)[largest_indices].tolist()", "cluster._indices = np.array(cluster.indices)[largest_indices].tolist()"))
V("C13", "twin: site reset instead of setter", "silent",
  (CLU, "        self._indices = indices\n        self._distance_matrix_radii_mic = None\n", "        self._indices = indices\n"),
  (SBC, "cluster.indices = np.array(cluster.indices)[largest_indices].tolist()", "cluster.indices = np.array(cluster.indices)[largest_indices].tolist()\n            cluster._distance_matrix_radii_mic = None"))
V("C13", "radii not forwarded", "R13.2", (CLU, "                **kwargs,\n", ""))
V("C13", "merged cluster loses radii", "R13.2", (SBC, "                radii=target._radii,\n", ""))
V("C13", "default threshold in shortcut", "R13.2", (CLU, "                self.get_atoms(),\n                self._bond_threshold,\n", "                self.get_atoms(),\n"))
V("C13", "dimensionality recomputed and overwritten", "R13.3", (CLU, "        if self._dimensionality is None:\n            # The radii", "        if True:\n            # The radii"))

# ------------------------------------------------------------------------------------------ C14 (tables)
V("C14", "wrong point group label", "C14.sginfo", (TAB, '    230: {"bravais_lattice": "cI", "crystal_system": "cubic", "pointgroup": "m-3m"},', '    230: {"bravais_lattice": "cI", "crystal_system": "cubic", "pointgroup": "m-3"},'))
V("C14", "matrix entry sign slip", "C14.expr", (TAB, "[0.0, 0.0, 0.91666667],\n                    [0.0, 0.0, 0.75],", "[0.0, 0.0, -0.91666667],\n                    [0.0, 0.0, 0.75],"))
V("C14", "lookup key shifted", "C14.key-provenance", (SYM, 'crystal_system = SPACE_GROUP_INFO[space_group]["crystal_system"]', 'crystal_system = SPACE_GROUP_INFO[space_group + 1]["crystal_system"]'))
V("C14", "twin: formatted float", "silent", (TAB, "[0.0, 0.0, 0.91666667],\n                    [0.0, 0.0, 0.75],", "[0.0, 0.0, 11 / 12],\n                    [0.0, 0.0, 0.75],"))

# ------------------------------------------------------------------------------------------ C15
V("C15", "twin: float equality on database rotations (exactly +-1.0 there)", "silent", (SYM, "if determinant < 0:", "if determinant == -1:"))
V("C15", "twin: truncated determinant on database rotations", "silent", (SYM, "            determinant = np.linalg.det(rotation)\n            if determinant < 0:", "            determinant = int(np.linalg.det(rotation))\n            if determinant == -1:"))
V("C15", "rotations of the input cell with float equality", "R15.1", (SYM, "        hall_number = self.get_hall_number()\n        rotations = spglib.get_symmetry_from_database(hall_number)[\"rotations\"]", "        rotations = self.get_symmetry_operations()[\"rotations\"]"), (SYM, "if determinant < 0:", "if determinant == -1.0:"))
V("C15", "rotations of the input cell (supercell subgroup)", "R15.3", (SYM, "        hall_number = self.get_hall_number()\n        rotations = spglib.get_symmetry_from_database(hall_number)[\"rotations\"]", "        rotations = self.get_symmetry_operations()[\"rotations\"]"))
V("C15", "database queried with a constant hall number", "R15.3", (SYM, "rotations = spglib.get_symmetry_from_database(hall_number)[\"rotations\"]", "rotations = spglib.get_symmetry_from_database(1)[\"rotations\"]"))
V("C15", "twin: a memo that the chirality getters never read is not cleared by reset", "silent", (SYM, "        self._best_transform = None\n\n    def get_material_id", "\n    def get_material_id"))
V("C15", "dataset memo not cleared by reset", "R15.4", (SYM, "        \"\"\"Used to reset all the cached values.\"\"\"\n        self._symmetry_dataset = None\n", "        \"\"\"Used to reset all the cached values.\"\"\"\n"))
V("C15", "twin: rounded equality", "silent", (SYM, "if determinant < 0:", "if round(determinant) == -1:"))
V("C15", "twin: isclose", "silent", (SYM, "if determinant < 0:", "if np.isclose(determinant, -1):"))
V("C15", "twin: vectorised determinant test over all database rotations", "silent", (SYM, '        chiral = True\n        for rotation in rotations:\n            determinant = np.linalg.det(rotation)\n            if determinant < 0:\n                return False\n\n        return chiral', "        return bool(np.all(np.linalg.det(rotations) > 0))"))
V("C15", "twin: vectorised not-any-improper", "silent", (SYM, '        chiral = True\n        for rotation in rotations:\n            determinant = np.linalg.det(rotation)\n            if determinant < 0:\n                return False\n\n        return chiral', "        dets = np.linalg.det(rotations)\n        return not np.any(dets < 0)"))
V("C15", "vectorised test on the zero-translation operations only", "R15.2", (SYM, '        chiral = True\n        for rotation in rotations:\n            determinant = np.linalg.det(rotation)\n            if determinant < 0:\n                return False\n\n        return chiral', "        rotations = rotations[:48]\n        return bool(np.all(np.linalg.det(rotations) > 0))"))
V("C15", "vectorised any-proper", "R15.2", (SYM, '        chiral = True\n        for rotation in rotations:\n            determinant = np.linalg.det(rotation)\n            if determinant < 0:\n                return False\n\n        return chiral', "        return bool(np.any(np.linalg.det(rotations) > 0))"))
V("C15", "polarity inverted", "R15.2", (SYM, "if determinant < 0:", "if determinant > 0:"))
V("C15", "first rotation skipped", "R15.2", (SYM, "        for rotation in rotations:\n            determinant = np.linalg.det(rotation)", "        for rotation in rotations[1:]:\n            determinant = np.linalg.det(rotation)"))
V("C15", "threshold outside (-1, 1)", "R15.2", (SYM, "if determinant < 0:", "if determinant < -1:"))

# ------------------------------------------------------------------------------------------ C19
V("C19", "classifier ignores its radii for the distance matrix (D14 regression)", "R19.8", (CLS, "matid.geometry.get_distances(system, self.radii)", "matid.geometry.get_distances(system)"))
V("C19", "classifier dimensionality with default radii (D14 regression)", "R19.8", (CLS, "            radii=self.radii,\n        )\n", "        )\n"))
V("C19", "fallback table one element short", "R19.2", (GEO, "for i in range(len(vdw_radii))", "for i in range(len(vdw_radii) - 1)"))
V("C19", "twin: fallback table over range(0, len)", "silent", (GEO, "for i in range(len(vdw_radii))", "for i in range(0, len(vdw_radii))"))
V("C19", "nan comparison again", "R19.1", (GEO, "vdw_radii[i] if not np.isnan(vdw_radii[i]) else covalent_radii[i]", "vdw_radii[i] if vdw_radii[i] != np.nan else covalent_radii[i]"))
V("C19", "fallback polarity inverted", "R19.1", (GEO, "vdw_radii[i] if not np.isnan(vdw_radii[i]) else covalent_radii[i]", "vdw_radii[i] if np.isnan(vdw_radii[i]) else covalent_radii[i]"))
V("C19", "twin: x != x idiom", "silent", (GEO, "vdw_radii[i] if not np.isnan(vdw_radii[i]) else covalent_radii[i]", "covalent_radii[i] if vdw_radii[i] != vdw_radii[i] else vdw_radii[i]"))
V("C19", "vdw preset bound to covalent table", "R19.2", (GEO, '        elif radii == "vdw":\n            radii = vdw_radii', '        elif radii == "vdw":\n            radii = covalent_radii'))
V("C19", "other vdw table imported", "R19.2", (GEO, "from ase.data.vdw_alvarez import vdw_radii", "from ase.data import vdw_radii"))
V("C19", "custom array rescaled", "R19.3", (GEO, "        radii = radii[atomic_numbers]\n    return radii", "        radii = radii[atomic_numbers]\n    radii = radii * 1.0\n    return radii"))
V("C19", "consumer inspects the preset", "R19.4", (GEO, "    radii_1x = get_radii(radii, num_1x)\n", "    radii_1x = get_radii(radii, num_1x)\n    if isinstance(radii, str) and radii == \"vdw\":\n        cluster_threshold = cluster_threshold * 1.0\n"))

# ------------------------------------------------------------------------------------------ C20
V("C20", "vectorised wrap with untyped flags as column index", "R20.2", (GEO, "    if wrap:\n        for i, periodic in enumerate(pbc):\n            if periodic:\n                fractional[:, i] %= 1.0\n", "    if wrap:\n        fractional[:, pbc] %= 1.0\n"))
V("C20", "twin: vectorised wrap with a boolean mask", "silent", (GEO, "    if wrap:\n        for i, periodic in enumerate(pbc):\n            if periodic:\n                fractional[:, i] %= 1.0\n", "    if wrap:\n        fractional[:, np.asarray(pbc, dtype=bool)] %= 1.0\n"))
V("C20", "centre of mass folded into the cell in all directions", "R20.5", (GEO, "com_cart = to_cartesian(cell, rel_com)[0, :]", "com_cart = to_cartesian(cell, rel_com, wrap=True, pbc=True)[0, :]"))
V("C20", "twin: centre of mass folded along the periodic directions only", "silent", (GEO, "com_cart = to_cartesian(cell, rel_com)[0, :]", "com_cart = to_cartesian(cell, rel_com, wrap=True, pbc=pbc)[0, :]"))
V("C20", "extent from the orthogonal projection", "R20.4", (GEO, "    c_size = np.linalg.norm(c_real_cart)\n", "    heights = np.dot(system.get_positions(), c_norm)\n    c_size = heights.max() - heights.min()\n"))
V("C20", "arity slip again", "R20.1", (GEO, "centroid = get_center_of_mass(system)", "centroid = get_center_of_mass(system, weight)"))
V("C20", "wrap all components", "R20.2", (GEO, "        for i, periodic in enumerate(pbc):\n            if periodic:\n                fractional[:, i] %= 1.0", "        for i, periodic in enumerate(pbc):\n            fractional[:, i] %= 1.0"))
V("C20", "wrap ignores the flag", "R20.2", (GEO, "    pbc = expand_pbc(pbc)\n    if wrap:\n        for i, periodic in enumerate(pbc):\n            if periodic:\n                scaled_positions[:, i] %= 1.0",
                                            "    pbc = expand_pbc(pbc)\n    if True:\n        for i, periodic in enumerate(pbc):\n            if periodic:\n                scaled_positions[:, i] %= 1.0"))
V("C20", "swap_basis rescales atoms", "R20.3", (GEO, "    atoms.set_cell(cell_new)\n    atoms.set_pbc(pbc_new)", "    atoms.set_cell(cell_new, scale_atoms=True)\n    atoms.set_pbc(pbc_new)"))
V("C20", "swap_basis forgets pbc", "R20.3", (GEO, "    atoms.set_cell(cell_new)\n    atoms.set_pbc(pbc_new)", "    atoms.set_cell(cell_new)"))
V("C20", "swap on an alias", "R20.3", (GEO, "    cell_new = np.array(cell_old)\n    cell_new[a] = cell_old[b]", "    cell_new = cell_old\n    cell_new[a] = cell_old[b]"))
V("C20", "minimized cell drops pbc", "R20.4", (GEO, "cell=new_basis, scaled_positions=new_scaled_pos, symbols=num, pbc=pbc", "cell=new_basis, scaled_positions=new_scaled_pos, symbols=num, pbc=True"))
V("C20", "min_size ignored", "R20.4", (GEO, "    if c_size < min_size:\n        c_inflated_cart = min_size * c_norm", "    if c_size < 1:\n        c_inflated_cart = 1 * c_norm"))
V("C20", "to_scaled transposed", "R20.5", (GEO, "fractional = np.linalg.solve(cell.T, positions.T).T", "fractional = np.linalg.solve(cell, positions.T).T"))
V("C20", "twin: explicit inverse", "silent", (GEO, "fractional = np.linalg.solve(cell.T, positions.T).T", "fractional = np.dot(positions, np.linalg.inv(cell))"))
V("C20", "to_cartesian transposed", "R20.5", (GEO, "cartesian_positions = np.dot(scaled_positions, cell)", "cartesian_positions = np.dot(scaled_positions, cell.T)"))
V("C20", "complete_cell not normalised", "R20.6", (GEO, "    c_norm = c / np.linalg.norm(c)\n    c_norm = c_norm[None, :]", "    c_norm = c\n    c_norm = c_norm[None, :]"))

# ------------------------------------------------------------------------------------------ C17
V("C17", "empty copy list reaches the averaging (D16 regression)", "R17.7", (PFD, "            if len(scaled_pos) != 0 and len(scaled_pos) >= 1 / 3 * max_occurrence:", "            if len(scaled_pos) >= 1 / 3 * max_occurrence:"))
V("C17", "strict smallest-cell filter in the 2D basis search (D17 regression)", "R17.7", (PFD, "smallest_cells_filter = areas <= (1 + self.cell_size_tol) * smallest_area", "smallest_cells_filter = areas < (1 + self.cell_size_tol) * smallest_area"))
V("C17", "twin: emptiness tested by truthiness", "silent", (PFD, "            if len(scaled_pos) != 0 and len(scaled_pos) >= 1 / 3 * max_occurrence:", "            if scaled_pos and len(scaled_pos) >= 1 / 3 * max_occurrence:"))
V("C17", "absolute tolerances assigned only inside the relative branch (D13 regression)", "R17.5",
  (CLS, "        # Absolute tolerances are used as given\n        if self.pos_tol_mode == \"absolute\":\n            self.abs_pos_tol = self.pos_tol\n", "        if self.pos_tol_mode == \"absolute\" and self.delaunay_threshold_mode == \"relative\":\n            self.abs_pos_tol = self.pos_tol\n"))
V("C17", "twin: absolute tolerance assigned before the statistics block", "silent",
  (CLS, "        # Absolute tolerances are used as given\n        if self.pos_tol_mode == \"absolute\":\n            self.abs_pos_tol = self.pos_tol\n", "        # Absolute tolerances are used as given\n        if self.pos_tol_mode != \"relative\":\n            self.abs_pos_tol = self.pos_tol\n"))
V("C17", "single atom classified before the dimensionality", "R17.1", (CLS, "        n_atoms = len(system)\n\n        # Calculate the displacement tensor", "        n_atoms = len(system)\n        if n_atoms == 1:\n            return Atom(input_system)\n\n        # Calculate the displacement tensor"))
V("C17", "Class3D for dimensionality 1", "R17.1", (CLS, "        elif dimensionality == 1:\n            classification = Class1D(input_system)", "        elif dimensionality == 1:\n            classification = Class3D(input_system)"))
V("C17", "dimensionality 3 falls through to None", "R17.1", (CLS, "        elif dimensionality == 3:\n            classification = Class3D(input_system)", "        elif dimensionality == 4:\n            classification = Class3D(input_system)"))
V("C17", "Unknown branch dropped", "R17.1", (CLS, "        if dimensionality is None:\n            return Unknown(input_system)\n", "        if dimensionality is None:\n            pass\n"))
V("C17", "Atom for two atoms", "R17.1", (CLS, "            if n_atoms == 1:\n                classification = Atom(input_system)", "            if n_atoms <= 2:\n                classification = Atom(input_system)"))
V("C17", "dimensionality of the unwrapped input", "R17.1", (CLS, "            system,\n            self.cluster_threshold,\n            distances.dist_matrix_radii_mic,", "            input_system,\n            self.cluster_threshold,\n            distances.dist_matrix_radii_mic,"))
V("C17", "coverage test dropped", "R17.2", (CLS, "                if covered and region_is_periodic:", "                if region_is_periodic:"))
V("C17", "periodicity test dropped", "R17.2", (CLS, "                if covered and region_is_periodic:", "                if covered:"))
V("C17", "coverage against a constant", "R17.2", (CLS, "covered = coverage >= self.min_coverage", "covered = coverage >= 0.5"))
V("C17", "Surface and Material2D swapped", "R17.2", (CLS, "                    if best_region.is_2d:\n                        classification = Material2D(input_system, best_region)\n                    else:\n                        classification = Surface(input_system, best_region)",
                                                     "                    if best_region.is_2d:\n                        classification = Surface(input_system, best_region)\n                    else:\n                        classification = Material2D(input_system, best_region)"))
V("C17", "one connected direction is enough", "R17.2", (CLS, "region_is_periodic = n_region_conn == 2", "region_is_periodic = n_region_conn >= 1"))
V("C17", "outliers computed from the wrong universe", "R17.3", (CLF, "all = set(list(range(len(self.atoms))))", "all = set(list(range(len(self.region.cell))))"))
V("C17", "outliers not a difference", "R17.3", (CLF, "        return list(all - region)", "        return list(all)"))
V("C17", "wrap the input in place", "R17.4", (CLS, "        system = input_system.copy()\n", "        system = input_system\n"))
V("C17", "classification carries the working copy", "R17.4", (CLS, "classification = Class3D(input_system)", "classification = Class3D(system)"))
V("C17", "random seed order", "R17.5", (CLS, "                indices = np.argsort(dist)", "                indices = np.random.permutation(len(dist))"))
V("C17", "state not initialised", "R17.5", (CLS, "        self.abs_pos_tol = None\n", ""))
V("C17", "matrix with vdw radii, dimensionality with default", "R17.6", (CLS, "distances = matid.geometry.get_distances(system, self.radii)", "distances = matid.geometry.get_distances(system, \"vdw\")"))
V("C17", "cluster_threshold ignored", "R17.6", (CLS, "            self.cluster_threshold,\n            distances.dist_matrix_radii_mic,", "            3.5,\n            distances.dist_matrix_radii_mic,"))
V("C17", "twin: explicit else for 3D", "silent", (CLS, "        elif dimensionality == 3:\n            classification = Class3D(input_system)", "        else:\n            classification = Class3D(input_system)"))

# ------------------------------------------------------------------------------------------ C05
V("C06", "transpose dropped when applying the normalizer", "R06.8", (SYM, "transformed_positions = np.dot(old_pos, best_transformation_matrix.T)", "transformed_positions = np.dot(old_pos, best_transformation_matrix)"))
V("C05", "twin: column-vector form", "silent", (SYM, "transformed_positions = np.dot(old_pos, best_transformation_matrix.T)", "transformed_positions = np.dot(best_transformation_matrix, old_pos.T).T"))
V("C07", "homogeneous coordinate is 0", "R07.6", (SYM, "old_pos[:, 3] = 1", "old_pos[:, 3] = 0"))
V("C05", "result not wrapped", "R05.3", (SYM, "wrapped_pos = matid.geometry.get_wrapped_positions(transformed_positions)", "wrapped_pos = transformed_positions"))
V("C05", "twin: positions set on the memoised standardised system itself (single memo-guarded reader)", "silent", (SYM, "        # Apply the best transform\n        new_system = system.copy()", "        # Apply the best transform\n        new_system = system"))
V("C05", "improper normalizer added to chiral group 16", "R05.1",
  (TAB, "    16: [\n        {", "    16: [\n        {\n            \"permutations\": {\"a\": \"h\", \"b\": \"b\", \"c\": \"c\", \"d\": \"d\", \"e\": \"e\", \"f\": \"f\", \"g\": \"g\", \"h\": \"a\", \"i\": \"i\", \"j\": \"j\", \"k\": \"k\", \"l\": \"l\", \"m\": \"m\", \"n\": \"n\", \"o\": \"o\", \"p\": \"p\", \"q\": \"q\", \"r\": \"r\", \"s\": \"s\", \"t\": \"t\", \"u\": \"u\"},\n            \"transformation\": array([[-1.0, 0.0, 0.0, 0.0], [0.0, -1.0, 0.0, 0.0], [0.0, 0.0, -1.0, 0.0], [0.0, 0.0, 0.0, 1.0]]),\n        },\n        {"))
V("C05", "non-isometric normalizer", "R05.2", (TAB, "                    [1.0, 0.0, 0.0, 0.0],\n                    [0.0, 1.0, 0.0, 0.0],\n                    [0.0, 0.0, 1.0, -0.5],\n                    [0.0, 0.0, 0.0, 1.0],\n                ]\n            ),\n        },\n        {\n            \"permutations\": {\n                \"a\": \"a\",\n                \"b\": \"b\",\n                \"c\": \"c\",\n                \"d\": \"d\",\n                \"e\": \"e\",\n                \"f\": \"f\",\n            },\n            \"transformation\": array(\n                [\n                    [0.0, 1.0, 0.0, -0.5],",
                                               "                    [1.0, 1.0, 0.0, 0.0],\n                    [0.0, 1.0, 0.0, 0.0],\n                    [0.0, 0.0, 1.0, -0.5],\n                    [0.0, 0.0, 0.0, 1.0],\n                ]\n            ),\n        },\n        {\n            \"permutations\": {\n                \"a\": \"a\",\n                \"b\": \"b\",\n                \"c\": \"c\",\n                \"d\": \"d\",\n                \"e\": \"e\",\n                \"f\": \"f\",\n            },\n            \"transformation\": array(\n                [\n                    [0.0, 1.0, 0.0, -0.5],"))

# ------------------------------------------------------------------------------------------ C06
V("C06", "ranking over an unsorted set of letters", "R06.2", (SYM, "        wyckoff_letters = sorted(wyckoff_letters)\n", ""))
V("C06", "atomic numbers not sorted", "R06.2", (SYM, "        atomic_numbers = sorted(atomic_numbers)\n", "        atomic_numbers = list(atomic_numbers)\n"))
V("C06", "sets returned unsorted", "R06.2", (SYM, "        sorted_list = sorted(\n            unsorted_list, key=attrgetter(\"wyckoff_letter\", \"atomic_number\")\n        )", "        sorted_list = unsorted_list"))
V("C06", "atom indices enter the id", "R06.3", (SYM, "i_string = \"{} {} {}\".format(element, wyckoff_letter, n_atoms)", "i_string = \"{} {} {}\".format(element, wyckoff_letter, group.indices)"))
V("C06", "free parameter enters the id", "R06.3", (SYM, "i_string = \"{} {} {}\".format(element, wyckoff_letter, n_atoms)", "i_string = \"{} {} {} {}\".format(element, wyckoff_letter, n_atoms, group.x)"))
V("C06", "2D prefix dropped", "R06.3", (SYM, "        if self.n_pbc == 2:\n            string = f\"2D {string}\"\n", ""))
V("C06", "last of equal candidates wins", "R06.4", (SYM, "        best_representation = representations[0]\n\n        # Apply", "        best_representation = representations[-1]\n\n        # Apply"))
V("C06", "normalizer 88/0 garbled into the identity (coset missing)", "R06.1", (TAB, "    88: [\n        {\n            \"permutations\": {\n                \"a\": \"b\",\n                \"b\": \"a\",\n                \"c\": \"d\",\n                \"d\": \"c\",\n                \"e\": \"e\",\n                \"f\": \"f\",\n            },\n            \"transformation\": array(\n                [\n                    [1.0, 0.0, 0.0, 0.0],\n                    [0.0, 1.0, 0.0, 0.0],\n                    [0.0, 0.0, 1.0, -0.5],", "    88: [\n        {\n            \"permutations\": {\n                \"a\": \"b\",\n                \"b\": \"a\",\n                \"c\": \"d\",\n                \"d\": \"c\",\n                \"e\": \"e\",\n                \"f\": \"f\",\n            },\n            \"transformation\": array(\n                [\n                    [1.0, 0.0, 0.0, 0.0],\n                    [0.0, 1.0, 0.0, 0.0],\n                    [0.0, 0.0, 1.0, 0.0],"))

# ------------------------------------------------------------------------------------------ C07
V("C07", "one permutation value swapped", "R07.1", (TAB, "    88: [\n        {\n            \"permutations\": {\n                \"a\": \"b\",\n                \"b\": \"a\",\n                \"c\": \"d\",\n                \"d\": \"c\",",
                                                    "    88: [\n        {\n            \"permutations\": {\n                \"a\": \"b\",\n                \"b\": \"a\",\n                \"c\": \"c\",\n                \"d\": \"d\","))
V("C07", "permutation applied without the transformation", "R07.2", (SYM, "            new_system.set_scaled_positions(wrapped_pos)\n", "            pass\n"))
V("C07", "letters from another candidate", "R07.2", (SYM, "            best_permutations = best_representation[\"permutations\"]", "            best_permutations = representations[-1][\"permutations\"]"))
V("C07", "best transform recorded as identity", "R07.2", (SYM, "            self._best_transform = best_representation\n", "            self._best_transform = identity\n"))
V("C07", "multiplicity from the table", "R07.3", (SYM, "            wset.multiplicity = len(wset.indices)", "            wset.multiplicity = len(wyckoff_infos[wset.wyckoff_letter][\"expressions\"])"))
V("C07", "conventional letters through the original mapping", "R07.4", (SYM, "            mapping = dataset.std_mapping_to_primitive\n            self._spglib_wyckoff_letters_conventional = wyckoff_letters_primitive[", "            mapping = dataset.mapping_to_primitive\n            self._spglib_wyckoff_letters_conventional = wyckoff_letters_primitive["))
V("C07", "primitive letters indexed by the raw mapping", "R07.4", (SYM, "            self._spglib_wyckoff_letters_primitive = wyckoff_letters_original[mapping]", "            self._spglib_wyckoff_letters_primitive = wyckoff_letters_original[self.get_symmetry_dataset().mapping_to_primitive]"))

# ------------------------------------------------------------------------------------------ C12
V("C12", "primitive equivalence memo takes the conventional array", "R12.3", (SYM, "self._primitive_equivalent_atoms = prim_equivalent", "self._primitive_equivalent_atoms = conv_equivalent"))
V("C12", "letters driven by the permutation table keys", "R12.4", (SYM, "for old_wyckoff in spglib_wyckoffs:", "for old_wyckoff in permutations:"))
V("C12", "twin: primitive tuple unpacked through a temporary", "silent", (SYM, "        prim_sys, prim_wyckoff, prim_equivalent = self._get_primitive_system(\n            conv_sys, conv_wyckoff, conv_equivalent, space_group_short\n        )", "        result = self._get_primitive_system(\n            conv_sys, conv_wyckoff, conv_equivalent, space_group_short\n        )\n        prim_sys, prim_wyckoff, prim_equivalent = result"))
V("C12", "sign slip in the A matrix", "R12.1", (SYM, "                    [0, 1 / 2, -1 / 2],\n                    [0, 1 / 2, 1 / 2],", "                    [0, 1 / 2, 1 / 2],\n                    [0, 1 / 2, 1 / 2],"))
V("C12", "R matrix in reverse setting", "R12.1", (SYM, "                    [2 / 3, -1 / 3, -1 / 3],\n                    [1 / 3, 1 / 3, -2 / 3],", "                    [1 / 3, -2 / 3, 1 / 3],\n                    [2 / 3, -1 / 3, -1 / 3],"))
V("C12", "twin: another primitive basis of the I lattice", "silent", (SYM, "                    [-1 / 2, 1 / 2, 1 / 2],\n                    [1 / 2, -1 / 2, 1 / 2],\n                    [1 / 2, 1 / 2, -1 / 2],", "                    [1, 0, 1 / 2],\n                    [0, 1, 1 / 2],\n                    [0, 0, 1 / 2],"))
V("C12", "transform not transposed", "R12.1", (SYM, "prim_cell = np.dot(transform.T, conv_cell)", "prim_cell = np.dot(transform, conv_cell)"))
V("C12", "fractional conversion transposed", "R12.2", (SYM, "prim_pos = np.dot(conv_pos, prim_cell_inv)", "prim_pos = np.dot(conv_pos, prim_cell_inv.T)"))
V("C12", "twin: primitive atoms not wrapped (equivalent modulo the lattice)", "silent", (SYM, "        prim_sys.wrap()\n", ""))
V("C12", "letters sliced by another mask", "R12.3", (SYM, "        prim_wyckoff = conv_wyckoff[inside_mask]", "        prim_wyckoff = conv_wyckoff[conv_to_prim_map]"))
V("C12", "original letters without permutation", "R12.4", (SYM, "            new_wyckoff = permutations[old_wyckoff]", "            new_wyckoff = old_wyckoff"))
V("C12", "primitive system from spglib letters", "R12.4", (SYM, "        conv_wyckoff = self.get_wyckoff_letters_conventional()\n        conv_equivalent", "        conv_wyckoff = self._get_spglib_wyckoff_letters_conventional()\n        conv_equivalent"))

# ------------------------------------------------------------------------------------------ C11
V("C11", "wrap dropped in the 2D branch", "R11.1", (SYM, "            ideal_sys.translate(translation)\n            ideal_sys.wrap()\n", "            ideal_sys.translate(translation)\n"))
V("C11", "centring dropped", "R11.1", (SYM, "            ideal_sys.translate(translation)\n            ideal_sys.wrap()\n", "            ideal_sys.wrap()\n"))
V("C11", "swap dropped", "R11.1", (SYM, "            if non_periodic_dim != swap_dim:\n                matid.geometry.swap_basis(ideal_sys, non_periodic_dim, swap_dim)\n", ""))
V("C11", "swap to axis 0", "R11.1", (SYM, "            swap_dim = 2\n", "            swap_dim = 0\n"))
V("C11", "minimisation dropped", "R11.1", (SYM, "            self._conventional_system = min_conv_cell\n            self._conventional_wyckoff_letters = ideal_wyckoff\n            self._conventional_equivalent_atoms = equivalent_atoms\n            return self._conventional_system",
                                           "            self._conventional_system = ideal_sys\n            self._conventional_wyckoff_letters = ideal_wyckoff\n            self._conventional_equivalent_atoms = equivalent_atoms\n            return self._conventional_system"))
V("C11", "min thickness hard-coded", "R11.1", (SYM, "                ideal_sys, swap_dim, self.min_2d_thickness\n", "                ideal_sys, swap_dim, 1\n"))
V("C11", "final pbc stays fully periodic", "R11.1", (SYM, "            ideal_sys.set_pbc(conv_pbc)\n", "            ideal_sys.set_pbc(True)\n"))
V("C11", "wrong axis made non-periodic", "R11.2", (SYM, "            conv_pbc[nonperiodic_axis] = False", "            conv_pbc[i_pbc] = False"))
V("C11", "translation along all axes", "R11.2", (SYM, "            translation[conv_pbc] = 0\n", ""))
V("C11", "symmetry_tol not used", "R11.3", (SYM, "                spglib.get_symmetry_dataset, description, self.symmetry_tol\n", "                spglib.get_symmetry_dataset, description, constants.SYMMETRY_TOL\n"))
V("C11", "twin: vacuum padded on the caller's atoms (only pbc is read from the original afterwards)", "silent", (SYM, "            symmetry_broken_system = system.copy()", "            symmetry_broken_system = system"))
V("C11", "2D prefix dropped", "R11.4", (SYM, "        if self.n_pbc == 2:\n            string = f\"2D {string}\"\n", ""))
V("C11", "twin: swap target as literal", "silent", (SYM, "                ideal_sys, swap_dim, self.min_2d_thickness\n", "                ideal_sys, 2, self.min_2d_thickness\n"))

# ------------------------------------------------------------------------------------------ C10
CEL = "matid/ext/celllist.cpp"
GCP = "matid/ext/geometry.cpp"
V("C10", "minimum image only for fully periodic systems", "R10.5", (GEO, "    if pbc.any():\n        disp_tensor_mic, disp_factors", "    if pbc.all():\n        disp_tensor_mic, disp_factors"))
V("C10", "twin: np.any for the periodicity dispatch", "silent", (GEO, "    if pbc.any():\n        disp_tensor_mic, disp_factors", "    if np.any(pbc):\n        disp_tensor_mic, disp_factors"))
V("C10", "factors and distances swapped in the return", "R10.1", (GEO, "    if return_factors:\n        result.append(factors)\n    if return_distances:\n        result.append(dist_mat)",
                                                                "    if return_distances:\n        result.append(dist_mat)\n    if return_factors:\n        result.append(factors)"))
V("C10", "distance buffer initialised to zero", "R10.1", (GEO, "dist_mat = np.full((n_atoms, n_atoms), float(\"inf\"))", "dist_mat = np.full((n_atoms, n_atoms), 0.0)"))
V("C10", "buffers swapped in the ext call", "R10.1", (GEO, "        disp_tensor,\n        dist_mat,\n        factors,\n        positions,", "        factors,\n        dist_mat,\n        disp_tensor,\n        positions,"))
V("C10", "pbc not expanded", "R10.1", (GEO, "        expand_pbc(pbc),\n        cutoff,", "        pbc,\n        cutoff,"))
V("C10", "call site unpacks too few", "R10.1", (GEO, "        disp_tensor_mic, disp_factors, dist_matrix_mic = get_displacement_tensor(\n            pos, cell, pbc, return_factors=True, return_distances=True\n        )",
                                                "        disp_tensor_mic, dist_matrix_mic = get_displacement_tensor(\n            pos, cell, pbc, return_factors=True, return_distances=True\n        )\n        disp_factors = np.zeros(disp_tensor_mic.shape)"))
V("C10", "C++: mirrored displacement not negated", "R10.2", (CEL, "displacements_mu(it.first, i, k) = -displacement[k];", "displacements_mu(it.first, i, k) = displacement[k];"))
V("C10", "C++: mirror entry of distances dropped", "R10.2", (CEL, "            distances_mu(it.first, i) = distance;\n", ""))
V("C10", "C++: farthest image kept", "R10.2", (CEL, "distance < get<0>(min_map[j])", "distance > get<0>(min_map[j])"))
V("C10", "C++: diagonal not zeroed", "R10.2", (CEL, "        distances_mu(i, i) = 0;\n", ""))
V("C10", "C++: upper clamp off by one in the tensor copy", "R10.3", (CEL, "        int iend = min(i0+1, this->nx-1);\n        int jstart = max(j0-1, 0);\n        int jend = min(j0+1, this->ny-1);\n        int kstart = max(k0-1, 0);\n        int kend = min(k0+1, this->nz-1);\n\n        // Loop over neighbouring bins\n        unordered_map",
                                                                    "        int iend = min(i0+1, this->nx);\n        int jstart = max(j0-1, 0);\n        int jend = min(j0+1, this->ny-1);\n        int kstart = max(k0-1, 0);\n        int kend = min(k0+1, this->nz-1);\n\n        // Loop over neighbouring bins\n        unordered_map"))
V("C10", "C++: strict cutoff in the position query only", "R10.3", (CEL, "                    if (distance_squared <= this->cutoffSquared) {\n                        neighbours.push_back(idx);", "                    if (distance_squared < this->cutoffSquared) {\n                        neighbours.push_back(idx);"))
V("C10", "C++: bins smaller than the cutoff", "R10.3", (CEL, "this->dx = max(this->cutoff, (this->xmax - this->xmin)/this->nx);", "this->dx = (this->xmax - this->xmin)/this->nx;"))
V("C10", "C++: infinite cutoff extends by the longest vector of any axis", "R10.4", (GCP, "            if (pbc_u(i)) {\n                vector<double> basis", "            if (true) {\n                vector<double> basis"))

# ------------------------------------------------------------------------------------------ C16
V("C16", "substitution described backwards", "R16.1", (GEO, "                        atomic_number,\n                        closest_atomic_number,\n                    )", "                        closest_atomic_number,\n                        atomic_number,\n                    )"))
V("C16", "twin: substitution built with keywords", "silent", (GEO, "                        atomic_number,\n                        closest_atomic_number,\n                    )", "                        substitutional_element=closest_atomic_number,\n                        original_element=atomic_number,\n                    )"))
V("C16", "other species accepted as a match", "R16.1", (GEO, "                if closest_atomic_number == atomic_number:\n                    match = closest_index\n                    substitution = None\n                else:",
                                                        "                if closest_atomic_number != atomic_number:\n                    match = closest_index\n                    substitution = None\n                else:"))
V("C16", "tolerance doubled", "R16.1", (GEO, "            if closest_distance <= tolerance:\n                closest_atomic_number = atomic_numbers[closest_index]\n                copy_index = closest_factor",
                                                          "            if closest_distance <= 2 * tolerance:\n                closest_atomic_number = atomic_numbers[closest_index]\n                copy_index = closest_factor"))
V("C16", "substitution also recorded as a vacancy", "R16.1", (GEO, "        if match is None and substitution is None:\n            vacancies.append", "        if match is None:\n            vacancies.append"))
V("C16", "copy index of a match from the floor", "R16.1", (GEO, "                copy_index = closest_factor\n", "                copy_index = np.floor(to_scaled(cell, position, wrap=False)[0])\n"))
V("C16", "first neighbour instead of the nearest", "R16.1", (GEO, "            factors = cell_list_result.factors\n            min_distance_index = np.argmin(distances)", "            factors = cell_list_result.factors\n            min_distance_index = 0"))
V("C16", "simple matcher ignores the species", "R16.2", (GEO, "                if closest_atomic_number == atomic_number:\n                    match = closest_index\n                    displacement", "                if True:\n                    match = closest_index\n                    displacement"))
V("C16", "C++: copies along non-periodic axes", "R16.3", (GCP, "            if (pbc_u(i) && lengths[i]) {\n                double length = norm(vectors[i]);", "            if (lengths[i]) {\n                double length = norm(vectors[i]);"))
V("C16", "C++: floor instead of ceil", "R16.3", (GCP, "                double length = norm(vectors[i]);\n                double factor = cutoff/length;\n                int multiplier = (int)ceil(factor);", "                double length = norm(vectors[i]);\n                double factor = cutoff/length;\n                int multiplier = (int)floor(factor);"))
V("C16", "C++: negative offsets first", "R16.3", (GCP, "        for (int j=0; j < multiplier + 1; ++j) {\n            multiples.push_back(j);\n        }\n        for (int j=-multiplier; j < 0; ++j) {\n            multiples.push_back(j);\n        }",
                                                  "        for (int j=-multiplier; j < 0; ++j) {\n            multiples.push_back(j);\n        }\n        for (int j=0; j < multiplier + 1; ++j) {\n            multiples.push_back(j);\n        }"))
V("C16", "C++: offset factors of b and c swapped", "R16.3", (GCP, "                    factors_mu(index, 1) = b_multiplier;\n                    factors_mu(index, 2) = c_multiplier;", "                    factors_mu(index, 1) = c_multiplier;\n                    factors_mu(index, 2) = b_multiplier;"))
V("C16", "C++: lower clamp missing in the position query", "R16.4", (CEL, "    int istart = max(i0-1, 0);\n    int iend = min(i0+1, this->nx-1);", "    int istart = i0-1;\n    int iend = min(i0+1, this->nx-1);"))
V("C16", "python passes cell and pbc swapped", "R16.4", (GEO, "        system.get_cell(),\n        system.get_pbc(),\n        cutoff,\n    )\n\n    return extended_system", "        system.get_pbc(),\n        system.get_cell(),\n        cutoff,\n    )\n\n    return extended_system"))

V("C10", "distance matrices swapped in the Distances record", "R10.5", (GEO, "        dist_matrix_mic,\n        dist_matrix_radii_mic,\n    )", "        dist_matrix_radii_mic,\n        dist_matrix_mic,\n    )"))
V("C10", "radii-corrected matrix aliases the raw one", "R10.5", (GEO, "dist_matrix_radii_mic = np.array(dist_matrix_mic)", "dist_matrix_radii_mic = dist_matrix_mic"))

V("C09", "cutoff from the mean radius", "R09.2", (GEO, "    max_radii = radii_1x.max()", "    max_radii = radii_1x.mean()"))
V("C09", "cutoff from covalent radii regardless of the chosen radii", "R09.2", (GEO, "    max_radii = radii_1x.max()", "    max_radii = covalent_radii[num_1x].max()"))
V("C09", "clip removed", "R09.2", (GEO, "    np.clip(dist_matrix, a_min=0, a_max=1.1 * threshold, out=dist_matrix)\n", ""))
V("C01", "localize stops at the first foreign cluster", "R01.11", (SBC, "                    if cluster != max_cluster:\n                        ind_set.remove(i)\n                    cluster.indices = list(ind_set)",
                                                                  "                    if cluster != max_cluster:\n                        ind_set.remove(i)\n                        cluster.indices = list(ind_set)\n                        break\n                    cluster.indices = list(ind_set)"))
V("C01", "overlaps resolved only for three or more clusters", "R01.11", (SBC, "            if len(i_clusters) > 1:\n                surrounding_indices", "            if len(i_clusters) > 2:\n                surrounding_indices"))
V("C01", "index collection as a list with the seed prepended", "R01.12", (SBC, "                i_indices = {i_seed}\n                i_indices.update(i_grain.get_basis_indices())", "                i_indices = [i_seed]\n                i_indices.extend(i_grain.get_basis_indices())"))
V("C01", "working copy not wrapped", "R01.13", (SBC, "        # Positions are wrapped\n        system_copy.wrap()\n", "        # Positions are wrapped\n"))
V("C01", "wrap after the distances", "R01.13", (SBC, "        # Positions are wrapped\n        system_copy.wrap()\n\n        atomic_numbers = system.get_atomic_numbers()\n        radii = matid.geometry.get_radii(radii, atomic_numbers)\n\n        # Calculate the distances here once if they have not been provided.\n        distances = matid.geometry.get_distances(system_copy, radii)\n",
                                                "        atomic_numbers = system.get_atomic_numbers()\n        radii = matid.geometry.get_radii(radii, atomic_numbers)\n\n        # Calculate the distances here once if they have not been provided.\n        distances = matid.geometry.get_distances(system_copy, radii)\n\n        # Positions are wrapped\n        system_copy.wrap()\n"))

V("C13", "sub-matrix from the raw distances", "R13.2", (CLU, "self._distance_matrix_radii_mic = self._distances.dist_matrix_radii_mic[", "self._distance_matrix_radii_mic = self._distances.dist_matrix_mic["))
V("C13", "atoms in sorted order", "R13.4", (CLU, "        return self._system[self.indices]", "        return self._system[sorted(self.indices)]"))
V("C13", "twin: generator kept between calls (a C01 break; cannot make shortcut and direct evaluation differ)", "silent", (SBC, "        self.rng = np.random.default_rng(seed)\n", "        if not hasattr(self, \"rng\"):\n            self.rng = np.random.default_rng(seed)\n"))
V("C01", "generator kept between calls", "R01.2", (SBC, "        self.rng = np.random.default_rng(seed)\n", "        if not hasattr(self, \"rng\"):\n            self.rng = np.random.default_rng(seed)\n"))
V("C04", "enlargement only when the extent exceeds the cell", "R04.9", (SBC, "if max_pos > 1 or min_pos < 0:", "if max_pos - min_pos > 1:"))
V("C01", "twin: enlargement test written with the bounds swapped", "silent", (SBC, "if max_pos > 1 or min_pos < 0:", "if min_pos < 0 or max_pos > 1:"))
V("C09", "wrapper caps the cutoff", "R09.4", (GEO, "    if cell is None:\n        cell = np.eye(3)\n", "    if cell is None:\n        cell = np.eye(3)\n    cutoff = min(cutoff, 0.5 * np.linalg.norm(np.sum(cell, axis=0)))\n"))
V("C09", "early-out before the component test", "R09.3", (GEO, "    if n_clusters_1x > 1:\n        dim = None\n    else:\n        # 2x2x2 system\n        n_pbc = np.sum(pbc)\n", "    n_pbc = np.sum(pbc)\n    if n_pbc == 0:\n        dim = 0\n    elif n_clusters_1x > 1:\n        dim = None\n    else:\n        # 2x2x2 system\n"))
V("C12", "A centring sent to the C matrix", "R12.1", (SYM, "        primitive_transformations = {\n            \"A\": np.array(", "        if centring in [\"A\", \"B\"]:\n            centring = \"C\"\n\n        primitive_transformations = {\n            \"A\": np.array("))
V("C12", "inverse permutation through a lookup table", "R12.4", (SYM, "        new_wyckoffs = []\n        for old_wyckoff in spglib_wyckoffs:\n            new_wyckoff = permutations[old_wyckoff]\n            new_wyckoffs.append(new_wyckoff)\n\n        return np.array(new_wyckoffs)",
   "        lookup = {letter: i for i, letter in enumerate(permutations.values())}\n        letters = np.array(list(permutations.keys()))\n        indices = [lookup[old_wyckoff] for old_wyckoff in spglib_wyckoffs]\n\n        return letters[indices]"))
V("C12", "masked substitution reads its mask from the array it rewrites", "R12.4", (SYM, "        new_wyckoffs = []\n        for old_wyckoff in spglib_wyckoffs:\n            new_wyckoff = permutations[old_wyckoff]\n            new_wyckoffs.append(new_wyckoff)\n\n        return np.array(new_wyckoffs)",
   "        new_wyckoffs = spglib_wyckoffs.copy()\n        for old_wyckoff, new_wyckoff in permutations.items():\n            new_wyckoffs[new_wyckoffs == old_wyckoff] = new_wyckoff\n\n        return new_wyckoffs"))
V("C12", "twin: masked substitution with the mask from the untouched letters", "silent", (SYM, "        new_wyckoffs = []\n        for old_wyckoff in spglib_wyckoffs:\n            new_wyckoff = permutations[old_wyckoff]\n            new_wyckoffs.append(new_wyckoff)\n\n        return np.array(new_wyckoffs)",
   "        new_wyckoffs = spglib_wyckoffs.copy()\n        for old_wyckoff, new_wyckoff in permutations.items():\n            new_wyckoffs[spglib_wyckoffs == old_wyckoff] = new_wyckoff\n\n        return new_wyckoffs"))
V("C12", "twin: comprehension instead of the loop", "silent", (SYM, "        new_wyckoffs = []\n        for old_wyckoff in spglib_wyckoffs:\n            new_wyckoff = permutations[old_wyckoff]\n            new_wyckoffs.append(new_wyckoff)\n\n        return np.array(new_wyckoffs)",
   "        new_wyckoffs = [permutations[old_wyckoff] for old_wyckoff in spglib_wyckoffs]\n\n        return np.array(new_wyckoffs)"))
V("C14", "side-centring merge by explicit symbols", "C14.getters", (SYM, "        if bravais_lattice[1] in [\"A\", \"B\", \"C\"]:", "        if bravais_lattice in (\"mC\", \"oC\", \"oA\"):"))
V("C14", "twin: merge written with a set", "silent", (SYM, "        if bravais_lattice[1] in [\"A\", \"B\", \"C\"]:", "        if bravais_lattice[1] in {\"A\", \"B\", \"C\"}:"))
V("C14", "translation added before the rotation", "C14.apply", (SYM, "            transformed_positions = np.dot(old_pos, best_transformation_matrix.T)", "            old_pos[:, 0:3] += best_transformation_matrix[0:3, 3]\n            transformed_positions = np.dot(old_pos, best_transformation_matrix.T)"))
V("C05", "twin: block form R x + t", "silent", (SYM, "            n_pos = len(system)\n            old_pos = np.empty((n_pos, 4))\n            old_pos[:, 3] = 1\n            old_pos[:, 0:3] = system.get_scaled_positions()\n", "            rotation = best_transformation_matrix[0:3, 0:3]\n            translation = best_transformation_matrix[0:3, 3]\n            old_pos = system.get_scaled_positions()\n"),
  (SYM, "            transformed_positions = np.dot(old_pos, best_transformation_matrix.T)\n\n            # Get rid of the extra dimension of the homogeneous coordinates\n            transformed_positions = transformed_positions[:, 0:3]\n", "            transformed_positions = np.dot(old_pos, rotation.T) + translation\n"))
V("C14", "block form with the translation rotated", "C14.apply", (SYM, "            n_pos = len(system)\n            old_pos = np.empty((n_pos, 4))\n            old_pos[:, 3] = 1\n            old_pos[:, 0:3] = system.get_scaled_positions()\n", "            rotation = best_transformation_matrix[0:3, 0:3]\n            translation = best_transformation_matrix[0:3, 3]\n            old_pos = system.get_scaled_positions()\n"),
  (SYM, "            transformed_positions = np.dot(old_pos, best_transformation_matrix.T)\n\n            # Get rid of the extra dimension of the homogeneous coordinates\n            transformed_positions = transformed_positions[:, 0:3]\n", "            transformed_positions = np.dot(old_pos + translation, rotation.T)\n"))
V("C17", "tolerance scaled in place", "R17.5", (CLS, "                self.abs_pos_tol = np.array(self.pos_tol) * global_min_dist", "                self.abs_pos_tol = np.asarray(self.pos_tol, dtype=float)\n                self.abs_pos_tol *= global_min_dist"))
V("C17", "raw distance matrix handed to get_dimensionality", "R17.6", (CLS, "            distances.dist_matrix_radii_mic,\n            radii=self.radii,", "            distances.dist_matrix_mic,\n            radii=self.radii,"))
V("C19", "whole-structure fallback", "R19.1", (GEO, "            radii = np.array(\n                [\n                    vdw_radii[i] if not np.isnan(vdw_radii[i]) else covalent_radii[i]\n                    for i in range(len(vdw_radii))\n                ]\n            )\n", "            radii = vdw_radii\n            if np.isnan(radii[atomic_numbers]).any():\n                radii = covalent_radii\n"))
V("C19", "custom array of table length re-indexed", "R19.3", (GEO, "        radii = radii[atomic_numbers]\n    return radii", "        radii = radii[atomic_numbers]\n    elif len(radii) == len(covalent_radii):\n        radii = radii[atomic_numbers]\n    return radii"))
V("C16", "substitution state carried between positions", "R16.1", (GEO, "        match = None\n        substitution = None\n        copy_index = None\n        displacement = None\n        cell_list_result = cell_list.get_neighbours_for_position(\n            position[0], position[1], position[2]\n        )\n        indices = cell_list_result.indices_original\n        if len(indices) > 0:\n            distances = cell_list_result.distances\n            factors",
                                                                  "        match = None\n        copy_index = None\n        displacement = None\n        cell_list_result = cell_list.get_neighbours_for_position(\n            position[0], position[1], position[2]\n        )\n        indices = cell_list_result.indices_original\n        if len(indices) > 0:\n            distances = cell_list_result.distances\n            factors"),
  (GEO, "    vacancies = []\n    cell = system.get_cell()\n\n    # The already pre-computed", "    vacancies = []\n    cell = system.get_cell()\n    substitution = None\n\n    # The already pre-computed"))
V("C16", "cell list built from wrapped positions", "R16.4", (GEO, "    return matid.ext.get_cell_list(positions, cell, pbc, extension, cutoff)", "    positions = ase.geometry.wrap_positions(positions, cell, pbc)\n    return matid.ext.get_cell_list(positions, cell, pbc, extension, cutoff)"))
V("C08", "verification without wrapping the generated positions", "R08.4", (SYM, "                                    test_pos, sorted_pos, cell, precision\n", "                                    test_pos, sorted_pos, cell, precision, wrap=False\n"))
V("C08", "first non-zero component", "R08.2", (SYM, "                        for idx, var in variable_map.items():\n                            for icomp in range(3):\n                                if M[idx][icomp] == 1:\n                                    W[idx] = R[icomp] - C[icomp]\n                                    break\n",
                                               "                        for idx in variable_map:\n                            icomp = np.flatnonzero(M[idx])[0]\n                            W[idx] = R[icomp] - C[icomp]\n"))
V("C08", "twin: first non-zero component with division by the coefficient", "silent", (SYM, "                        for idx, var in variable_map.items():\n                            for icomp in range(3):\n                                if M[idx][icomp] == 1:\n                                    W[idx] = R[icomp] - C[icomp]\n                                    break\n",
                                               "                        for idx in variable_map:\n                            icomp = np.flatnonzero(M[idx])[0]\n                            W[idx] = (R[icomp] - C[icomp]) / M[idx][icomp]\n"))
V("C11", "transposed transformation matrix scanned", "R11.2", (SYM, "for i_axis, axis in enumerate(transformation_matrix):", "for i_axis, axis in enumerate(np.transpose(transformation_matrix)):"))
V("C11", "vacuum of twice the thickness", "R11.3", (SYM, "5, 3 * matid.geometry.get_thickness(symmetry_broken_system, i_pbc)", "5, 2 * matid.geometry.get_thickness(symmetry_broken_system, i_pbc)"))
V("C11", "centre of mass of the non-periodic cell", "R11.2", (SYM, "            ideal_sys.set_pbc(True)  # Needed temprorarily for centering to work\n", ""))
V("C06", "one permutation value typo in group 221", "R06.6", (TAB, "    221: [\n        {\n            \"permutations\": {\n                \"a\": \"b\",\n                \"b\": \"a\",\n                \"c\": \"d\",\n                \"d\": \"c\",", "    221: [\n        {\n            \"permutations\": {\n                \"a\": \"b\",\n                \"b\": \"a\",\n                \"c\": \"d\",\n                \"d\": \"d\","))
V("C06", "unique labels used as indices", "R06.7", (SYM, "            _, indices = np.unique(mapping, return_index=True)\n            self._spglib_primitive_to_original_mapping = indices", "            indices = np.unique(mapping)\n            self._spglib_primitive_to_original_mapping = indices"))
V("C07", "orbits of the input cell", "R07.4", (SYM, "        value = dataset.crystallographic_orbits", "        value = dataset.equivalent_atoms"))
V("C20", "extent from wrapped coordinates", "R20.7", (GEO, "    pos_min_cart = matid.geometry.to_cartesian(basis, pos_min_rel)\n    pos_max_cart = matid.geometry.to_cartesian(basis, pos_max_rel)\n    c_real_cart = pos_max_cart - pos_min_cart\n    c_size = np.linalg.norm(c_real_cart)\n", "    c_size = get_thickness(system, axis)\n    c_real_cart = c_size * c_norm\n"))
V("C20", "periodicity test hoisted out of the component loop", "R20.7", (GEO, "    for i_comp in range(3):\n        i_pbc = pbc[i_comp]\n", "    i_pbc = pbc.any()\n    for i_comp in range(3):\n"))

V("C05", "twin for C05: transpose dropped (all tabulated rotations are symmetric: still a proper rigid motion)", "silent", (SYM, "transformed_positions = np.dot(old_pos, best_transformation_matrix.T)", "transformed_positions = np.dot(old_pos, best_transformation_matrix)"))
V("C05", "left-handed cells negated before spglib", "R05.5", (SYM, "        angstrom_cell = self._analyzed_system.get_cell()\n", "        angstrom_cell = self._analyzed_system.get_cell()\n        if np.linalg.det(angstrom_cell) < 0:\n            angstrom_cell = -angstrom_cell\n"))
V("C05", "coarse snapping when re-wrapping", "R05.6", (GEO, "def get_wrapped_positions(scaled_pos, precision=1e-5):", "def get_wrapped_positions(scaled_pos, precision=1e-2):"))

V("C01", "broad try/except around the region search", "R01.15", (SBC, "            i_grain, mask = periodic_finder.get_region(\n                system_copy,\n                seed_index=i_seed,\n                max_cell_size=max_cell_size,\n                pos_tol=pos_tol,\n                bond_threshold=bond_threshold,\n                overlap_threshold=overlap_threshold,\n                distances=distances,\n                return_mask=True,\n            )\n",
  "            try:\n                i_grain, mask = periodic_finder.get_region(\n                    system_copy,\n                    seed_index=i_seed,\n                    max_cell_size=max_cell_size,\n                    pos_tol=pos_tol,\n                    bond_threshold=bond_threshold,\n                    overlap_threshold=overlap_threshold,\n                    distances=distances,\n                    return_mask=True,\n                )\n            except Exception:\n                indices.discard(i_seed)\n                continue\n"))
V("C17", "classify swallows errors of the region search", "R17.7", (CLS, "            best_region = self.cross_validate_region(system, seed_indices, distances)\n", "            try:\n                best_region = self.cross_validate_region(system, seed_indices, distances)\n            except Exception:\n                best_region = None\n"))
V("C17", "coverage strictly greater", "R17.2", (CLS, "covered = coverage >= self.min_coverage", "covered = coverage > self.min_coverage"))
V("C08", "return_parameters forced on", "R08.4", (SYM, "            return_parameters=return_parameters,\n        )\n\n        return sets", "            return_parameters=True,\n        )\n\n        return sets"))

# ------------------------------------------------------------------------------------------ block form of the normalizer application (round 7)
_HOM_A = "            n_pos = len(system)\n            old_pos = np.empty((n_pos, 4))\n            old_pos[:, 3] = 1\n            old_pos[:, 0:3] = system.get_scaled_positions()\n"
_HOM_B = "            transformed_positions = np.dot(old_pos, best_transformation_matrix.T)\n\n            # Get rid of the extra dimension of the homogeneous coordinates\n            transformed_positions = transformed_positions[:, 0:3]\n"
_BLK_A = "            rotation = best_transformation_matrix[0:3, 0:3]\n            translation = best_transformation_matrix[0:3, 3]\n"
for _pid in ("C04", "C06", "C07", "C08", "C11", "C12", "C14"):
    V(_pid, "twin: block form R x + t with the positions read inline", "silent", (SYM, _HOM_A, _BLK_A),
      (SYM, _HOM_B, "            transformed_positions = np.dot(system.get_scaled_positions(), rotation.T) + translation\n"))
    V(_pid, "twin: block form R x + t", "silent", (SYM, _HOM_A, _BLK_A + "            old_pos = system.get_scaled_positions()\n"),
      (SYM, _HOM_B, "            transformed_positions = np.dot(old_pos, rotation.T) + translation\n"))
V("C06", "block form, positions inline, translation added before the rotation", "R06.8", (SYM, _HOM_A, _BLK_A),
  (SYM, _HOM_B, "            transformed_positions = np.dot(system.get_scaled_positions() + translation, rotation.T)\n"))
V("C07", "block form, positions inline, translation added before the rotation", "R07.6", (SYM, _HOM_A, _BLK_A),
  (SYM, _HOM_B, "            transformed_positions = np.dot(system.get_scaled_positions() + translation, rotation.T)\n"))
V("C05", "twin: block form with the translation rotated is still a proper rigid motion of the standardised atoms", "silent", (SYM, _HOM_A, _BLK_A),
  (SYM, _HOM_B, "            transformed_positions = np.dot(system.get_scaled_positions() + translation, rotation.T)\n"))

# ------------------------------------------------------------------------------------------ import-time code of the table module (round 7)
V("C14", "table constants snapped to twelfths at import", "C14.readonly", (TAB, "from numpy import array, float64\n", "from numpy import array, float64, rint\n"),
  (TAB, "<EOF>", "\nfor _sets in WYCKOFF_SETS.values():\n    for _key, _value in _sets.items():\n        if _key == \"translations\":\n            _sets[_key] = rint(_value * 12) / 12\n        else:\n            _value[\"constants\"] = rint(_value[\"constants\"] * 12) / 12\n"))
V("C14", "twin: table entries converted to arrays at import (representation only)", "silent",
  (TAB, "<EOF>", "\nfor _sets in WYCKOFF_SETS.values():\n    for _key, _value in _sets.items():\n        if _key != \"translations\":\n            _value[\"constants\"] = array(_value[\"constants\"])\n"))
V("C14", "twin: an index built from the tables at import", "silent",
  (TAB, "<EOF>", "\nLETTERS_BY_GROUP = {}\nfor _number, _sets in WYCKOFF_SETS.items():\n    LETTERS_BY_GROUP[_number] = sorted(k for k in _sets if k != \"translations\")\n"))
V("C08", "table constants snapped to twelfths at import", "R08.T", (TAB, "from numpy import array, float64\n", "from numpy import array, float64, rint\n"),
  (TAB, "<EOF>", "\nfor _sets in WYCKOFF_SETS.values():\n    for _key, _value in _sets.items():\n        if _key != \"translations\":\n            _value[\"constants\"] = rint(_value[\"constants\"] * 12) / 12\n"))

# ------------------------------------------------------------------------------------------ cleaned clusters rebuilt as new objects (cross-check of C03-4)
_CLEAN_OLD = "            cluster.indices = np.array(cluster.indices)[largest_indices].tolist()\n            clusters_cleaned.append(cluster)\n"
_CLEAN_NEW = ("            clusters_cleaned.append(\n                Cluster(\n                    np.array(cluster.indices)[largest_indices].tolist(),\n"
              "                    cluster.species,\n                    cluster._region,\n                    system=cluster._system,\n"
              "                    distances=cluster._distances,\n                    radii=cluster._radii,\n                    bond_threshold=bond_threshold,\n                )\n            )\n")
for _pid in ("C01", "C03", "C13", "C04", "C19"):
    V(_pid, "twin: cleaning returns rebuilt Cluster objects with the full clustering context", "silent", (SBC, _CLEAN_OLD, _CLEAN_NEW))
V("C13", "cleaning returns rebuilt Cluster objects that forget the bond threshold", "R13.2", (SBC, _CLEAN_OLD, _CLEAN_NEW.replace("                    bond_threshold=bond_threshold,\n", "")))

# ------------------------------------------------------------------------------------------ image numbers by truncation (round 7, C04-5)
for _pid, _rid in (("C04", "R04.11"), ("C03", "R03.9"), ("C18", "R18.9")):
    V(_pid, "image numbers of the searched cell by integer cast instead of floor", _rid, (GEO, "    factors = np.floor(rel_vectors).astype(int)\n", "    factors = rel_vectors.astype(int)\n"))
    V(_pid, "twin: image numbers by floor division", "silent", (GEO, "    factors = np.floor(rel_vectors).astype(int)\n", "    factors = (rel_vectors // 1).astype(int)\n"))
V("C08", "block form, positions inline, translation added before the rotation", "R08.7", (SYM, _HOM_A, _BLK_A),
  (SYM, _HOM_B, "            transformed_positions = np.dot(system.get_scaled_positions() + translation, rotation.T)\n"))

# ------------------------------------------------------------------------------------------ C02 (borrowed rules under their own ids)
def _borrow(src_pid, name, pid, rid):
    v = next(v for v in VARIANTS if v["pid"] == src_pid and v["name"] == name)
    VARIANTS.append(dict(v, pid=pid, expect=rid if v["expect"] != "silent" else "silent"))


_borrow("C04", "corner origin + c computed with basis[1] (D20 regression)", "C02", "R02.1")
_borrow("C04", "image numbers of the searched cell by integer cast instead of floor", "C02", "R02.1")
_borrow("C04", "twin: image numbers by floor division", "C02", "silent")
_borrow("C04", "periodic-vector counter used as cell-axis number (D19 regression)", "C02", "R02.2")
_borrow("C17", "empty copy list reaches the averaging (D16 regression)", "C02", "R02.3")
_borrow("C17", "strict smallest-cell filter in the 2D basis search (D17 regression)", "C02", "R02.3")
_borrow("C03", "substituted atoms become members", "C02", "R02.5")
_borrow("C01", "twin: cleaning returns rebuilt Cluster objects with the full clustering context", "C02", "silent")
_borrow("C13", "cleaning returns rebuilt Cluster objects that forget the bond threshold", "C02", "R02.7")

# ------------------------------------------------------------------------------------------ class-level shared state (round 8, C17-15)
_LUC_DOC = "    only be a sequence of three integers, and the values should be LinkedUnits.\n    \"\"\"\n"
for _pid, _rid in (("C17", "R17.8"), ("C18", "R18.10"), ("C03", "R03.11")):
    V(_pid, "search graph moved to a class attribute shared by every region", _rid,
      (LUN, _LUC_DOC, _LUC_DOC + "\n    _search_graph = nx.MultiDiGraph()\n"), (LUN, "        self._search_graph = nx.MultiDiGraph()\n", ""))
    V(_pid, "twin: class-level default that every instance rebinds in __init__", "silent",
      (LUN, _LUC_DOC, _LUC_DOC + "\n    _search_graph = None\n    _index_cell_map = {}\n"))

# ------------------------------------------------------------------------------------------ reduction into [0, 1) (round 8, C08-15)
V("C08", "wrap helper computes the remainder and drops it", "R08.9", (GEO, "    scaled_pos %= 1\n\n    abs_zero", "    np.remainder(scaled_pos, 1)\n\n    abs_zero"))
for _pid in ("C08", "C05", "C07"):
    V(_pid, "twin: wrap helper assigns np.mod back", "silent", (GEO, "    scaled_pos %= 1\n\n    abs_zero", "    scaled_pos = np.mod(scaled_pos, 1)\n\n    abs_zero"))
for _pid in ("C05", "C07"):
    V(_pid, "twin: unreduced coordinates are the same atoms modulo the lattice (C08's clause, not this property's)", "silent",
      (GEO, "    scaled_pos %= 1\n\n    abs_zero", "    np.remainder(scaled_pos, 1)\n\n    abs_zero"))
V("C08", "wrap helper uses the sign-keeping fmod", "R08.9", (GEO, "    scaled_pos %= 1\n\n    abs_zero", "    scaled_pos = np.fmod(scaled_pos, 1)\n\n    abs_zero"))
# starred unpack of table objects (round 8, C14-15)
V("C14", "union of the variable sets written into the table entry of the first letter", "C14.readonly",
  (SYM, "        for wyckoff_letter in wyckoff_letters:\n            variables = wyckoff_info[wyckoff_letter][\"variables\"]\n            if len(variables) != 0:\n                return True\n        return False\n",
        "        variables, *others = [wyckoff_info[x][\"variables\"] for x in wyckoff_letters]\n        variables.update(*others)\n        return len(variables) != 0\n"))
V("C14", "twin: union of the variable sets in a fresh set", "silent",
  (SYM, "        for wyckoff_letter in wyckoff_letters:\n            variables = wyckoff_info[wyckoff_letter][\"variables\"]\n            if len(variables) != 0:\n                return True\n        return False\n",
        "        variables = set().union(*[wyckoff_info[x][\"variables\"] for x in wyckoff_letters])\n        return len(variables) != 0\n"))
V("C01", "falsy seed replaced by OS entropy", "R01.2", (SBC, "np.random.default_rng(seed)", "np.random.default_rng(seed or None)"))

# ------------------------------------------------------------------------------------------ round 8, C02 seeds
_DOT_OLD = "                    a_correction = np.dot(\n                        (-np.array(node_factor) + np.array(i_factor)), orig_cell\n                    )\n                    displacement = positions[a_final_neighbour] - positions[node_index]\n                    a = displacement + a_correction\n"
for _pid, _rid in (("C02", "R02.3"), ("C04", "R04.3"), ("C03", "R03.9"), ("C18", "R18.9")):
    V(_pid, "image factors multiplied with the cell on the left (3D builder)", _rid, (PFD, _DOT_OLD, _DOT_OLD.replace("(-np.array(node_factor) + np.array(i_factor)), orig_cell", "orig_cell, (-np.array(node_factor) + np.array(i_factor))")))
    V(_pid, "twin: transposed cell on the left", "silent", (PFD, _DOT_OLD, _DOT_OLD.replace("(-np.array(node_factor) + np.array(i_factor)), orig_cell", "orig_cell.T, (-np.array(node_factor) + np.array(i_factor))")))
    V(_pid, "backward edge of the periodicity graph dropped", _rid, (PFD, "                        i_adj_list[sub_key].append(sub_tuple)\n", ""))
for _pid, _rid in (("C02", "R02.4"), ("C03", "R03.10"), ("C04", "R04.9")):
    V(_pid, "cell enlarged by Cartesian column instead of lattice vector", _rid, (SBC, "new_cell[i, :] *= (max_pos - min_pos) + 1", "new_cell[:, i] *= (max_pos - min_pos) + 1"))
    V(_pid, "twin: lattice vector selected without the slice", "silent", (SBC, "new_cell[i, :] *= (max_pos - min_pos) + 1", "new_cell[i] *= (max_pos - min_pos) + 1"))

# ------------------------------------------------------------------------------------------ round 9
_LBL3 = "                        system, cell, seed_pos, pos_tol, pbc=system.get_pbc()\n                    )\n                except Exception:\n                    return None, None, None\n                index_cell_map[i_seed] = (i_indices, i_pos, i_factors)\n\n            # Add the seed node factor\n            final_factors = []\n            for factor in i_factors:\n                i_final_factor = tuple(np.array(i_seed_factor) + factor)\n"
for _pid, _rid in (("C04", "R04.3"), ("C02", "R02.3")):
    V(_pid, "image label of a found atom mirrored (3D builder)", _rid, (PFD, _LBL3, _LBL3.replace("np.array(i_seed_factor) + factor", "np.array(i_seed_factor) - factor")))
    V(_pid, "twin: image label sum commuted", "silent", (PFD, _LBL3, _LBL3.replace("np.array(i_seed_factor) + factor", "factor + np.array(i_seed_factor)")))
for _pid, _rid in (("C11", "R11.2"), ("C04", "R04.14")):
    V(_pid, "signed matrix entry compared with the tolerance in the axis scan", _rid, (SYM, "                    abs(axis[i_pbc]) > prec\n", "                    axis[i_pbc] > prec\n"))
    V(_pid, "twin: numpy magnitude in the axis scan", "silent", (SYM, "                    abs(axis[i_pbc]) > prec\n", "                    np.abs(axis[i_pbc]) > prec\n"))
V("C18", "classifier default of max_2d_single_cell_size taken from another constant", "R18.7", (CLS, "max_2d_single_cell_size=constants.MAX_SINGLE_CELL_SIZE,", "max_2d_single_cell_size=constants.MAX_CELL_SIZE,"))
_CUT = "    max_radii = radii_1x.max()\n    cutoff = cluster_threshold + 2 * max_radii\n"
for _pid, _rid in (("C09", "R09.2"), ("C17", "R17.8"), ("C13", "R13.6")):
    V(_pid, "cutoff from the sum of the two largest radii", _rid, (GEO, _CUT, "    if len(radii_1x) > 1:\n        max_radii_sum = np.sort(radii_1x)[-2:].sum()\n    else:\n        max_radii_sum = 2 * radii_1x.max()\n    cutoff = cluster_threshold + max_radii_sum\n"))
V("C09", "twin: cutoff through a branch that keeps 2*max(radii) on both sides", "silent", (GEO, _CUT, "    max_radii = radii_1x.max()\n    if len(radii_1x) > 1:\n        reach = 2 * max_radii\n    else:\n        reach = max_radii + max_radii\n    cutoff = cluster_threshold + reach\n"))
for _pid, _rid in (("C17", "R17.7"), ("C04", "R04.10"), ("C02", "R02.2"), ("C18", "R18.8")):
    V(_pid, "axis number used to index the filter over the periodic vectors", _rid, (PFD, "                if periodic_filter[i_per_span]:", "                if periodic_filter[periodic_axes[i_per_span]]:"))
_MRG = "            largest_region = sorted_regions[-1]\n"
V("C04", "merged cluster keeps the smaller region", "R04.1", (SBC, _MRG, "            largest_region = sorted_regions[0]\n"))
V("C04", "twin: larger region through max()", "silent", (SBC, "            sorted_regions = sorted(\n                [a._region, b._region],\n                key=lambda x: -1 if x is None else len(x.get_basis_indices()),\n            )\n            largest_region = sorted_regions[-1]\n",
  "            largest_region = max(\n                [a._region, b._region],\n                key=lambda x: -1 if x is None else len(x.get_basis_indices()),\n            )\n"))
_A3 = "                    a = displacement + a_correction\n                    a *= multiplier\n"
for _pid, _rid in (("C04", "R04.3"), ("C02", "R02.3")):
    V(_pid, "periodic-image correction left outside the multiplier (3D builder)", _rid, (PFD, _A3, "                    a = multiplier * displacement + a_correction\n"))
    V(_pid, "twin: multiplier applied in one expression", "silent", (PFD, _A3, "                    a = multiplier * (displacement + a_correction)\n"))
for _pid, _rid in (("C03", "R03.9"), ("C04", "R04.3"), ("C02", "R02.3")):
    V(_pid, "image-label difference of the correction reversed (3D builder)", _rid, (PFD, _DOT_OLD, _DOT_OLD.replace("(-np.array(node_factor) + np.array(i_factor)), orig_cell", "(np.array(node_factor) - np.array(i_factor)), orig_cell")))
    V(_pid, "twin: image-label difference written neighbour minus node", "silent", (PFD, _DOT_OLD, _DOT_OLD.replace("(-np.array(node_factor) + np.array(i_factor)), orig_cell", "(np.array(i_factor) - np.array(node_factor)), orig_cell")))

# ------------------------------------------------------------------------------------------ rules that came out of the mutation audit
V("C12", "memo guard of get_primitive_system inverted", "R12.5", (SYM, "        if self._primitive_system is not None:\n            return self._primitive_system", "        if self._primitive_system is None:\n            return self._primitive_system"))
V("C18", "+d finding lowered instead of raised", "R18.6", (LUN, "                        positive = True\n", "                        positive = False\n"))
V("C18", "-d finding starts raised", "R18.6", (LUN, "                negative = False\n", "                negative = True\n"))
for _pid, _rid in (("C17", "R17.2"), ("C18", "R18.3")):
    V(_pid, "coverage OR periodicity suffices for Surface / Material2D", _rid, (CLS, "                if covered and region_is_periodic:", "                if covered or region_is_periodic:"))
    V(_pid, "twin: coverage and periodicity tested in nested ifs", "silent", (CLS, "                if covered and region_is_periodic:\n                    if best_region.is_2d:\n                        classification = Material2D(input_system, best_region)\n                    else:\n                        classification = Surface(input_system, best_region)\n",
      "                if covered:\n                    if region_is_periodic:\n                        if best_region.is_2d:\n                            classification = Material2D(input_system, best_region)\n                        else:\n                            classification = Surface(input_system, best_region)\n"))
for _pid, _rid in (("C17", "R17.7"), ("C18", "R18.7")):
    V(_pid, "validation of the default seed_position inverted", _rid, (CLS, "            if seed_position == \"cm\":", "            if seed_position != \"cm\":"))
for _pid, _rid in (("C04", "R04.4"), ("C18", "R18.8")):
    V(_pid, "reduced cell does not raise the two-span flag", _rid, (PFD, "                    two_valid_spans = True\n", "                    two_valid_spans = False\n"))
for _pid, _rid in (("C11", "R11.4"), ("C04", "R04.6")):
    V(_pid, "material id asks for the sets with parameters", _rid, (SYM, "wyckoff_sets = self.get_wyckoff_sets_conventional(False)", "wyckoff_sets = self.get_wyckoff_sets_conventional(True)"))
    V(_pid, "twin: material id passes return_parameters by keyword", "silent", (SYM, "wyckoff_sets = self.get_wyckoff_sets_conventional(False)", "wyckoff_sets = self.get_wyckoff_sets_conventional(return_parameters=False)"))
V("C13", "radii forwarded exactly when the cluster has none", "R13.2", (CLU, "            if self._radii is not None:", "            if self._radii is None:"))
for _pid, _rid in (("C04", "R04.3"), ("C02", "R02.3")):
    V(_pid, "3D builder accepts only the node itself as +span neighbour", _rid, (PFD, "                    if a_add_neighbour != node_index:\n                        a_final_neighbour = a_add_neighbour\n                        i_factor = i_add_factor\n                        multiplier = 1\n                elif a_sub:\n                    a_sub_neighbour, i_sub_factor = a_sub[0]\n                    if a_sub_neighbour != node_index:\n                        a_final_neighbour = a_sub_neighbour\n                        i_factor = i_sub_factor\n                        multiplier = -1\n\n                if a_final_neighbour is not None:\n                    a_correction = np.dot(\n                        (-np.array(node_factor) + np.array(i_factor)), orig_cell\n                    )\n                    displacement = positions[a_final_neighbour] - positions[node_index]\n                    a = displacement",
      "                    if a_add_neighbour == node_index:\n                        a_final_neighbour = a_add_neighbour\n                        i_factor = i_add_factor\n                        multiplier = 1\n                elif a_sub:\n                    a_sub_neighbour, i_sub_factor = a_sub[0]\n                    if a_sub_neighbour != node_index:\n                        a_final_neighbour = a_sub_neighbour\n                        i_factor = i_sub_factor\n                        multiplier = -1\n\n                if a_final_neighbour is not None:\n                    a_correction = np.dot(\n                        (-np.array(node_factor) + np.array(i_factor)), orig_cell\n                    )\n                    displacement = positions[a_final_neighbour] - positions[node_index]\n                    a = displacement"))
    V(_pid, "2D builder subtracts the periodic-image correction", _rid, (PFD, "                    a = multiplier * displacement + a_correction\n", "                    a = multiplier * displacement - a_correction\n"))
    V(_pid, "twin: 2D builder written in the 3D form", "silent", (PFD, "                    a = multiplier * displacement + a_correction\n", "                    a = multiplier * (displacement + a_correction)\n"))
V("C18", "neighbouring cell index = current cell minus the multiplier", "R18.6", (PFD, "target_cell = cell_index + multiplier", "target_cell = cell_index - multiplier"))
V("C18", "seed loop stops while species are still waiting", "R18.5", (CLS, "                    if len(elems) == 0:\n                        break", "                    if len(elems) != 0:\n                        break"))
V("C18", "twin: seed loop stops when the pool is falsy", "silent", (CLS, "                    if len(elems) == 0:\n                        break", "                    if not elems:\n                        break"))
V("C12", "np.unique no longer returns the first positions", "R12.3", (SYM, "_, inside_mask = np.unique(conv_to_prim_map, return_index=True)", "_, inside_mask = np.unique(conv_to_prim_map, return_index=False)"))
V("C08", "variable vector on the right of the expression matrices", "R08.2", (SYM, "first_test_pos = np.dot(W, Ms) + Cs", "first_test_pos = np.dot(Ms, W) + Cs"))

# ------------------------------------------------------------------------------------------ mutation audit, second batch
V("C08", "nearest-image fold moves the component away from zero", "R08.2", (SYM, "        indices = np.where(displacements > 0.5)\n        displacements[indices] = displacements[indices] - 1", "        indices = np.where(displacements > 0.5)\n        displacements[indices] = displacements[indices] + 1"))
V("C08", "per-candidate distance taken over the wrong axis", "R08.2", (SYM, "        distances = np.linalg.norm(displacements, axis=1)", "        distances = np.linalg.norm(displacements, axis=0)"))
V("C08", "solver adds the constant of the expression", "R08.2", (SYM, "                                    W[idx] = R[icomp] - C[icomp]", "                                    W[idx] = R[icomp] + C[icomp]"))
V("C08", "free-parameter flag inverted", "R08.4", (SYM, "            if len(variables) != 0:\n                return True", "            if len(variables) == 0:\n                return True"))
for _pid, _rid in (("C04", "R04.4"), ("C18", "R18.8")):
    V(_pid, "reduction to 2D attempted for every dimensionality except 2", _rid, (PFD, "                if dimensionality == 2:", "                if dimensionality != 2:"))
for _pid, _rid in (("C04", "R04.10"), ("C02", "R02.2")):
    V(_pid, "lengths of the periodic cell vectors taken over the wrong axis", _rid, (PFD, "periodic_span_lengths = np.linalg.norm(periodic_spans, axis=1)", "periodic_span_lengths = np.linalg.norm(periodic_spans, axis=0)"))
V("C18", "distance of the atoms to the centre of mass over the wrong axis", "R18.5", (CLS, "dist = np.linalg.norm(system.get_positions() - cm, axis=1)", "dist = np.linalg.norm(system.get_positions() - cm, axis=0)"))
V("C18", "centre-of-mass seeds only when seed_position is not 'cm'", "R18.5", (CLS, "            if self.seed_position == \"cm\":", "            if self.seed_position != \"cm\":"))
V("C18", "incoming edges read without their data", "R18.6", (LUN, "G.in_edges(node, data=True)", "G.in_edges(node, data=False)"))
V("C18", "scan of a unit's edges stops at the first finding", "R18.6", (LUN, "                    if positive and negative:\n                        break", "                    if positive or negative:\n                        break"))
V("C17", "default position tolerance not installed", "R17.7", (CLS, "        if pos_tol_mode == \"relative\" and pos_tol is None:", "        if pos_tol_mode != \"relative\" and pos_tol is None:"))
V("C17", "relative tolerance divided by the reference distance", "R17.5", (CLS, "self.abs_pos_tol = np.array(self.pos_tol) * global_min_dist", "self.abs_pos_tol = np.array(self.pos_tol) / global_min_dist"))
V("C11", "layer centred on twice the inverse of the cell diagonal", "R11.2", (SYM, "cell_center = 0.5 * np.sum(ideal_sys.get_cell(), axis=0)", "cell_center = 0.5 / np.sum(ideal_sys.get_cell(), axis=0)"))
for _pid, _rid in (("C05", "R05.3"), ("C06", "R06.3"), ("C07", "R07.2"), ("C12", "R12.4"), ("C08", "R08.7")):
    V(_pid, "error for inconsistent candidates raised when they agree", _rid, (SYM, "                    if i_wyckoffs[key] != new_wyckoffs[key]:", "                    if i_wyckoffs[key] == new_wyckoffs[key]:"))
for _pid, _rid in (("C12", "R12.4"), ("C06", "R06.3")):
    V(_pid, "lazy computation of the chosen normalizer runs only when it is already there", _rid, (SYM, "        if self._best_transform is None:\n            self.get_conventional_system()", "        if self._best_transform is not None:\n            self.get_conventional_system()"))
for _pid, _rid in (("C03", "R03.3"), ("C02", "R02.6"), ("C04", "R04.1")):
    V(_pid, "merged component also kept on its own", _rid, (SBC, "                    isolated = False\n", "                    isolated = True\n"))
for _pid, _rid in (("C02", "R02.3"), ("C01", "R01.15"), ("C17", "R17.7")):
    V(_pid, "metric filter of the 2D basis search drops the best candidates", _rid, (PFD, "            max_metric = metric_sum.max()\n            metric_filter = metric_sum == max_metric\n            valid_indices = valid_indices[metric_filter]\n\n            # Find group of cells by finding cells with smallest area",
      "            max_metric = metric_sum.max()\n            metric_filter = metric_sum != max_metric\n            valid_indices = valid_indices[metric_filter]\n\n            # Find group of cells by finding cells with smallest area"))

# ------------------------------------------------------------------------------------------ false-alarm side of the mutation audit: behaviour-preserving mutants as twins
for _pid in ("C09", "C17", "C02", "C13"):
    V(_pid, "twin: the general formula is used for systems without periodic directions too", "silent", (GEO, "        if n_pbc > 0:\n            repeats = np.array([1, 1, 1])", "        if n_pbc >= 0:\n            repeats = np.array([1, 1, 1])"))
V("C09", "doubled-cell evaluation skipped for systems with one periodic direction", "R09.3", (GEO, "        if n_pbc > 0:\n            repeats = np.array([1, 1, 1])", "        if n_pbc > 1:\n            repeats = np.array([1, 1, 1])"))
for _pid in ("C01", "C03", "C02"):
    V(_pid, "twin: atoms of a single cluster pass through the (idempotent) localisation as well", "silent", (SBC, "            if len(i_clusters) > 1:", "            if len(i_clusters) >= 1:"))
V("C01", "localisation only for atoms in three or more clusters", "R01.11", (SBC, "            if len(i_clusters) > 1:", "            if len(i_clusters) > 2:"))
for _pid in ("C01", "C09", "C17"):
    V(_pid, "twin: no branch for noise points (min_samples is 1 at every call)", "silent", (GEO, "        if i_clust == -1:\n            cluster_groups.append([i_atom])\n        else:\n            group_map[i_clust].append(i_atom)\n", "        group_map[i_clust].append(i_atom)\n"))
V("C16", "vacancy cell number taken after wrapping the position", "R16.1", (GEO, "copy_index = np.floor(to_scaled(cell, position, wrap=False)[0])", "copy_index = np.floor(to_scaled(cell, position, wrap=True)[0])"))
V("C20", "twin: a wrapping conversion inside get_matches is C16's business", "silent", (GEO, "copy_index = np.floor(to_scaled(cell, position, wrap=False)[0])", "copy_index = np.floor(to_scaled(cell, position, wrap=True)[0])"))
for _pid, _rid in (("C18", "R18.8"), ("C04", "R04.10")):
    V(_pid, "size guard of simulation-cell spans runs when the spans are not both cell vectors", _rid, (PFD, "                if n_periodic_spans_selected == 2:", "                if n_periodic_spans_selected != 2:"))

# ------------------------------------------------------------------------------------------ deeper demo battery
V("C20", "diagonal inertia entry with a difference of squares", "R20.6", (GEO, "I11 = np.sum(weights * (y**2 + z**2))", "I11 = np.sum(weights * (y**2 - z**2))"))
V("C20", "off-diagonal inertia entry without the minus sign", "R20.6", (GEO, "I12 = np.sum(-weights * x * y)", "I12 = np.sum(weights * x * y)"))
V("C20", "twin: diagonal inertia entry written with products", "silent", (GEO, "I11 = np.sum(weights * (y**2 + z**2))", "I11 = np.sum(weights * y * y + weights * z * z)"))
V("C20", "coordinates of the inertia tensor taken as positions plus centre", "R20.6", (GEO, "pos_shifted = positions - centroid", "pos_shifted = positions + centroid"))
V("C11", "layer translated by centre plus centre of mass", "R11.2", (SYM, "translation = cell_center - pbc_cm", "translation = cell_center + pbc_cm"))
V("C14", "Bravais getter returns early when a space group was detected", "C14.getters", (SYM, "        if space_group is None:\n            return None\n\n        bravais_lattice", "        if space_group is not None:\n            return None\n\n        bravais_lattice"))

# ------------------------------------------------------------------------------------------ argument kinds (mutation audit, operator `swapargs`)
for _pid, _rid in (("C17", "R17.7"), ("C18", "R18.7")):
    V(_pid, "structure and seed list exchanged in the call of cross_validate_region", _rid, (CLS, "self.cross_validate_region(system, seed_indices, distances)", "self.cross_validate_region(seed_indices, system, distances)"))
for _pid, _rid in (("C04", "R04.1"), ("C18", "R18.7")):
    V(_pid, "axis and structure exchanged in the call of get_thickness", _rid, (PFD, "matid.geometry.get_thickness(proto_cell, x) for x in range(3)", "matid.geometry.get_thickness(x, proto_cell) for x in range(3)"))
V("C20", "cell and coordinates exchanged in a call of to_cartesian", "R20.1", (GEO, "pos_min_cart = matid.geometry.to_cartesian(basis, pos_min_rel)", "pos_min_cart = matid.geometry.to_cartesian(pos_min_rel, basis)"))

# ------------------------------------------------------------------------------------------ false-alarm side of the second mutation audit
_DEAD = (SYM, "            spglib_conv_sys,\n            spglib_conv_wyckoff,\n            spglib_conv_equivalent,\n", "            spglib_conv_wyckoff,\n            spglib_conv_sys,\n            spglib_conv_equivalent,\n")
for _pid in ("C06", "C12", "C04"):
    V(_pid, "twin: arguments exchanged in _get_spglib_primitive_system, which nothing calls", "silent", _DEAD)
_PRIM = (SYM, "            conv_sys, conv_wyckoff, conv_equivalent, space_group_short\n", "            conv_wyckoff, conv_sys, conv_equivalent, space_group_short\n")
V("C12", "arguments exchanged in get_primitive_system", "R12.3", _PRIM)
for _pid in ("C06", "C07", "C08", "C11"):
    V(_pid, "twin: arguments exchanged in get_primitive_system, a getter this property does not observe", "silent", _PRIM)
for _pid in ("C06", "C07", "C08", "C14"):
    V(_pid, "twin: positions set on the memoised standardised system itself (single memo-guarded reader)", "silent", (SYM, "        # Apply the best transform\n        new_system = system.copy()", "        # Apply the best transform\n        new_system = system"))
