"""Rules on matid/symmetry/symmetryanalyzer.py shared by C05, C06, C07, C11, C12."""
import ast
from fractions import Fraction as F

from . import linalg, spgref
from .dataflow import Flow
from .model import norm
from .report import AnalysisError
from .tables import frac24

SAM = "matid.symmetry.symmetryanalyzer"
SA = SAM + ".SymmetryAnalyzer"
GS = SA + "._find_wyckoff_ground_state"


def resolver(M, fq):
    def r(f):
        x = M.resolve(fq, f)
        return x[1] if isinstance(x, tuple) and x[0] == "ext" else None
    return r


# ----------------------------------------------------------------------------- index-space typing (R07.4 / R12.3)
# ("arr", S): array with one entry per atom of space S in {O(riginal), P(rimitive), C(onventional)}
# ("map", A, B): integer array indexed by atoms of A with values = atom indices / labels of B
DATASET = {"wyckoffs": ("arr", "O"), "crystallographic_orbits": ("arr", "O"), "equivalent_atoms": ("arr", "O"),
           "mapping_to_primitive": ("map", "O", "P"), "std_mapping_to_primitive": ("map", "C", "P"),
           "std_types": ("arr", "C"), "std_positions": ("arr", "C")}
EXPECT = {"_get_spglib_wyckoff_letters_original": ("arr", "O"), "_get_spglib_equivalent_atoms_original": ("arr", "O"),
          "_get_spglib_primitive_to_original_mapping": ("map", "P", "O"),
          "_get_spglib_wyckoff_letters_primitive": ("arr", "P"), "_get_spglib_equivalent_atoms_primitive": ("arr", "P"),
          "_get_spglib_wyckoff_letters_conventional": ("arr", "C"), "_get_spglib_equivalent_atoms_conventional": ("arr", "C")}
SPACE = {"O": "original", "P": "primitive", "C": "conventional"}


def index_spaces(rep, M, rid):
    cls = M.cls(SA)
    meth = {f.name: f for f in cls.body if isinstance(f, ast.FunctionDef)}
    ret = {}
    errors = []

    def type_of(e, env):
        if isinstance(e, ast.Name):
            return env.get(e.id)
        if isinstance(e, ast.Attribute):
            if isinstance(e.value, ast.Name) and env.get(e.value.id) == "DATASET" and e.attr in DATASET:
                return DATASET[e.attr]
            if isinstance(e.value, ast.Attribute) and e.value.attr == "_symmetry_dataset" and e.attr in DATASET:
                return DATASET[e.attr]
            if isinstance(e.value, ast.Call) and isinstance(e.value.func, ast.Attribute) and e.value.func.attr == "get_symmetry_dataset" \
                    and e.attr in DATASET:
                return DATASET[e.attr]
            if isinstance(e.value, ast.Name) and e.value.id == "self":
                return env.get("self." + e.attr)
        if isinstance(e, ast.Subscript) and isinstance(e.value, ast.Name) and env.get(e.value.id) == "DATASET" \
                and isinstance(e.slice, ast.Constant) and e.slice.value in DATASET:
            return DATASET[e.slice.value]
        if isinstance(e, ast.Call):
            f = e.func
            if isinstance(f, ast.Attribute) and isinstance(f.value, ast.Name) and f.value.id == "self":
                if f.attr == "get_symmetry_dataset":
                    return "DATASET"
                return ret.get(f.attr)
            if isinstance(f, ast.Attribute) and f.attr in ("array", "asarray") and e.args:
                return type_of(e.args[0], env)
            if isinstance(f, ast.Attribute) and f.attr == "unique" and e.args:
                t = type_of(e.args[0], env)
                if t and t != "DATASET" and t[0] == "map" and any(k.arg == "return_index" for k in e.keywords):
                    return ("tuple", [("vals", t[2]), ("map", t[2], t[1])])
        if isinstance(e, ast.Subscript):
            a, i = type_of(e.value, env), type_of(e.slice, env)
            if a and i and a != "DATASET" and i != "DATASET":
                if a[0] == "tuple" and isinstance(e.slice, ast.Constant):
                    return a[1][e.slice.value]
                if a[0] == "arr" and i[0] == "map":
                    if i[2] != a[1]:
                        return ("ERR", f"an array over the {SPACE[a[1]]} atoms is indexed by a map {SPACE[i[1]]} -> {SPACE[i[2]]}")
                    return ("arr", i[1])
        return None

    def run(fname):
        f = meth[fname]
        env = {}
        out = [None]

        def bind(t, val):
            if isinstance(t, ast.Name):
                env[t.id] = val
            elif isinstance(t, ast.Attribute) and isinstance(t.value, ast.Name) and t.value.id == "self":
                env["self." + t.attr] = val
            elif isinstance(t, ast.Tuple) and val and val != "DATASET" and val[0] == "tuple":
                for el, v in zip(t.elts, val[1]):
                    bind(el, v)

        def visit(stmts):
            for s in stmts:
                if isinstance(s, ast.Assign):
                    v = type_of(s.value, env)
                    for t in s.targets:
                        bind(t, v)
                    if v and v != "DATASET" and v[0] == "ERR":
                        errors.append((fname, s, v[1]))
                elif isinstance(s, ast.If):
                    visit(s.body)
                    visit(s.orelse)
                elif isinstance(s, ast.Return) and s.value is not None:
                    out[0] = type_of(s.value, env)
        visit(f.body)
        return out[0], env
    for name in EXPECT:
        if name not in meth:
            raise AnalysisError(f"SymmetryAnalyzer.{name} missing")
    for _ in range(3):
        errors.clear()
        for name in EXPECT:
            r, env = run(name)
            if r:
                ret[name] = r
    seen = set()
    for fname, s, msg in errors:
        if (fname, msg) not in seen:
            seen.add((fname, msg))
            rep.violation(rid, f"{fname}: {norm(s)[:70]}", msg + ": atoms are silently mislabelled whenever the input is not "
                          "already the conventional cell", M.where(SA + "." + fname, s))
    for name, exp in EXPECT.items():
        got = ret.get(name)
        if any(e[0] == name for e in errors):
            continue
        if got == exp:
            rep.ok(rid, f"{name} : {exp}")
        elif got is None:
            raise AnalysisError(f"{name}: returned value could not be typed in the index-space discipline")
        else:
            def show(t):
                return f"array over {SPACE[t[1]]} atoms" if t[0] == "arr" else f"map {SPACE.get(t[1], t[1])} -> {SPACE.get(t[2], t[2])}" if t[0] == "map" else str(t)
            rep.violation(rid, f"{name}: index space", f"returns an {show(got)}, its name and callers require an {show(exp)}",
                          M.where(SA + "." + name))
    # _get_primitive_system: one mask, Conv-indexed, applied to positions, numbers, letters and equivalence
    r, env = run("_get_primitive_system")
    mask = env.get("inside_mask")
    f = meth["_get_primitive_system"]
    sliced = [(norm(s.targets[0]), norm(s.value.slice)) for s in ast.walk(f) if isinstance(s, ast.Assign)
              and isinstance(s.value, ast.Subscript) and isinstance(s.value.slice, ast.Name)]
    per_atom = {"prim_pos", "prim_num", "prim_wyckoff", "prim_equivalent"}
    masks = {m for t, m in sliced if t in per_atom}
    targets = {t for t, _ in sliced}
    if mask == ("map", "P", "C") and len(masks) == 1 and {"prim_pos", "prim_num", "prim_wyckoff", "prim_equivalent"} <= targets:
        rep.ok(rid, "_get_primitive_system: positions, numbers, letters and equivalence sliced by one section primitive -> conventional")
    elif mask != ("map", "P", "C"):
        rep.violation(rid, "_get_primitive_system: atom selection", f"the selection mask has index type {mask}; required a section "
                      "primitive -> conventional of std_mapping_to_primitive (np.unique(..., return_index=True)[1])", M.where(SA + "._get_primitive_system"))
    else:
        rep.violation(rid, "_get_primitive_system: consistent slicing", f"arrays are sliced by different masks {sorted(masks)} or not all of "
                      f"positions/numbers/letters/equivalence are sliced ({sorted(targets)})", M.where(SA + "._get_primitive_system"))


# ----------------------------------------------------------------------------- centring matrices (R12.1)
def _ev_frac(n):
    if isinstance(n, ast.Constant) and isinstance(n.value, (int, float)):
        return F(n.value).limit_denominator(1000)
    if isinstance(n, ast.UnaryOp) and isinstance(n.op, ast.USub):
        return -_ev_frac(n.operand)
    if isinstance(n, ast.BinOp) and isinstance(n.op, ast.Div):
        return _ev_frac(n.left) / _ev_frac(n.right)
    if isinstance(n, ast.BinOp) and isinstance(n.op, ast.Mult):
        return _ev_frac(n.left) * _ev_frac(n.right)
    if isinstance(n, (ast.List, ast.Tuple)):
        return [_ev_frac(e) for e in n.elts]
    if isinstance(n, ast.Call) and n.args:
        return _ev_frac(n.args[0])
    raise AnalysisError(f"primitive_transformations: entry `{ast.unparse(n)[:40]}` is not a rational literal")


def det3(m):
    return (m[0][0] * (m[1][1] * m[2][2] - m[1][2] * m[2][1]) - m[0][1] * (m[1][0] * m[2][2] - m[1][2] * m[2][0])
            + m[0][2] * (m[1][0] * m[2][1] - m[1][1] * m[2][0]))


def centring_matrices(rep, M, T, rid):
    fq = SA + "._get_primitive_system"
    fn = M.func(fq)
    pt = None
    for node in ast.walk(fn):
        if isinstance(node, ast.Assign) and isinstance(node.value, ast.Dict) and all(
                isinstance(k, ast.Constant) and isinstance(k.value, str) and len(k.value) == 1 for k in node.value.keys):
            pt = {k.value: _ev_frac(v) for k, v in zip(node.value.keys, node.value.values)}
            ptname = norm(node.targets[0])
    if pt is None:
        raise AnalysisError("_get_primitive_system: dict of centring transformation matrices not found")
    # which convention: prim_cell = transform.T @ conv_cell  => primitive vectors (in conventional fractional coords) = columns
    env = {}
    for s in ast.walk(fn):
        if isinstance(s, ast.Assign) and isinstance(s.targets[0], ast.Name):
            env.setdefault(s.targets[0].id, s.value)
    pc = env.get("prim_cell")
    if pc is None:
        raise AnalysisError("_get_primitive_system: prim_cell assignment not found")
    f = linalg.nf(pc, resolver(M, fq), {k: v for k, v in env.items() if k in ("conv_cell",) and False})
    conv = "conv_cell"
    if f == [("transform", False, True), (conv, False, False)]:
        use_columns = True
    elif f == [("transform", False, False), (conv, False, False)]:
        use_columns = False
    else:
        raise AnalysisError(f"_get_primitive_system: prim_cell = {linalg.show(f)} not modelled")
    rep.note(f"prim_cell = {linalg.show(f)}: primitive vectors are the {'columns' if use_columns else 'rows'} of the tabulated matrix")
    W = T["WYCKOFF_SETS"]
    # P short-circuit
    pret = [s for s in ast.walk(fn) if isinstance(s, ast.If) and isinstance(s.test, ast.Compare)
            and isinstance(s.test.comparators[0], ast.Constant) and s.test.comparators[0].value == "P"
            and any(isinstance(x, ast.Return) for x in s.body)]
    for g in range(1, 231):
        c = spgref.centring(g)
        key = f"group {g} centring {c}"
        tr = []
        for t in W[g]["translations"]:
            fr = [frac24(float(x)) for x in t]
            if any(x is None for x in fr):
                fr = None
                break
            tr.append(tuple(x % 1 for x in fr))
        n = len(W[g]["translations"]) + 1
        if c == "P":
            if n != 1:
                rep.violation(rid, key, "primitive group with centring translations in the table")
            elif not pret:
                rep.violation(rid, key, "no short-circuit for primitive centring and no matrix", M.where(fq))
            else:
                rep.ok(rid, key + ": conventional cell returned as primitive")
            continue
        if c not in pt:
            rep.violation(rid, key, f"no transformation matrix for centring {c!r}: KeyError for every crystal of this group", M.where(fq))
            continue
        Mx = pt[c]
        vecs = [tuple(Mx[i][j] for i in range(3)) for j in range(3)] if use_columns else [tuple(r) for r in Mx]
        allowed = {(F(0), F(0), F(0))} | set(tr)
        bad = [v for v in vecs if tuple(x % 1 for x in v) not in allowed]
        d = det3(Mx)
        if bad:
            rep.violation(rid, key, f"primitive vector {tuple(str(x) for x in bad[0])} (conventional fractional coordinates) is not a "
                          f"lattice vector of the {c}-centred lattice {sorted(tuple(str(x) for x in t) for t in tr)}", M.where(fq))
        elif d != F(1, n):
            rep.violation(rid, key, f"det = {d}, a primitive cell of a {c}-centred lattice has volume 1/{n} of the conventional one "
                          "(handedness preserved)", M.where(fq))
        else:
            rep.ok(rid, key + f": matrix spans the centred lattice, det = 1/{n}")
    return pt


# ----------------------------------------------------------------------------- conversions in _get_primitive_system (R12.2)
def primitive_conversion(rep, M, rid):
    fq = SA + "._get_primitive_system"
    fn = M.func(fq)
    env = {}
    for s in ast.walk(fn):
        if isinstance(s, ast.Assign) and isinstance(s.targets[0], ast.Name):
            env.setdefault(s.targets[0].id, s.value)
    keep = {k: v for k, v in env.items() if k in ("prim_cell_inv",)}
    pp = env.get("prim_pos")
    f = linalg.nf(pp, resolver(M, fq), keep)
    want = [("conv_pos", False, False), ("prim_cell", True, False)]
    if f == want:
        rep.ok(rid, f"fractional primitive positions = {linalg.show(f)}")
    else:
        rep.violation(rid, "_get_primitive_system: prim_pos", f"= {linalg.show(f)}; row-vector convention requires {linalg.show(want)}",
                      M.where(fq, pp))
    # conv_pos are cartesian positions of the conventional system; prim_sys built with scaled_positions & prim_cell & wrap
    cp = env.get("conv_pos")
    if cp is not None and norm(cp).endswith("get_positions()"):
        rep.ok(rid, "conv_pos = cartesian positions of the conventional system")
    else:
        rep.violation(rid, "_get_primitive_system: conv_pos", f"`{norm(cp) if cp else None}` is not get_positions() (cartesian)", M.where(fq))
    ctor = [c for c in ast.walk(fn) if isinstance(c, ast.Call) and M.resolve(fq, c.func) == ("ext", "ase.Atoms")]
    if ctor:
        kw = {k.arg: norm(k.value) for k in ctor[0].keywords}
        if kw.get("scaled_positions") == "prim_pos" and kw.get("cell") == "prim_cell" and kw.get("symbols", kw.get("numbers")) == "prim_num":
            rep.ok(rid, "primitive system = Atoms(scaled_positions=prim_pos, cell=prim_cell, symbols=prim_num)")
        else:
            rep.violation(rid, "_get_primitive_system: Atoms(...)", f"built from {kw}", M.where(fq, ctor[0]))
    wraps = [c for c in ast.walk(fn) if isinstance(c, ast.Call) and isinstance(c.func, ast.Attribute) and c.func.attr == "wrap"]
    if wraps:
        rep.ok(rid, "primitive system wrapped into its cell")
    else:
        rep.violation(rid, "_get_primitive_system: wrap", "atoms of the primitive system are not wrapped into the primitive cell", M.where(fq))
    # centring letter from the international short symbol
    cen = env.get("centring")
    if cen is not None and isinstance(cen, ast.Subscript) and isinstance(cen.slice, ast.Constant) and cen.slice.value == 0:
        rep.ok(rid, "centring = first character of the international short symbol")
    else:
        rep.violation(rid, "_get_primitive_system: centring", "centring letter is not the first character of the short symbol", M.where(fq))
