"""Rules on matid/symmetry/symmetryanalyzer.py shared by C05, C06, C07, C11, C12."""
import ast
from fractions import Fraction as F

from . import linalg, spgref
from .dataflow import Flow
from .model import norm
from .report import AnalysisError
from .tables import frac24

SAM = "matid.symmetry.symmetryanalyzer"
SA = SAM + ".SymmetryAnalyzer"
GS = SA + "._find_wyckoff_ground_state"


def resolver(M, fq):
    def r(f):
        x = M.resolve(fq, f)
        return x[1] if isinstance(x, tuple) and x[0] == "ext" else None
    return r


# ----------------------------------------------------------------------------- index-space typing (R07.4 / R12.3)
# ("arr", S): array with one entry per atom of space S in {O(riginal), P(rimitive), C(onventional)}
# ("map", A, B): integer array indexed by atoms of A with values = atom indices / labels of B
DATASET = {"wyckoffs": ("arr", "O"), "crystallographic_orbits": ("arr", "O"), "equivalent_atoms": ("arr", "O"),
           "mapping_to_primitive": ("map", "O", "P"), "std_mapping_to_primitive": ("map", "C", "P"),
           "std_types": ("arr", "C"), "std_positions": ("arr", "C")}
EXPECT = {"_get_spglib_wyckoff_letters_original": ("arr", "O"), "_get_spglib_equivalent_atoms_original": ("arr", "O"),
          "_get_spglib_primitive_to_original_mapping": ("map", "P", "O"),
          "_get_spglib_wyckoff_letters_primitive": ("arr", "P"), "_get_spglib_equivalent_atoms_primitive": ("arr", "P"),
          "_get_spglib_wyckoff_letters_conventional": ("arr", "C"), "_get_spglib_equivalent_atoms_conventional": ("arr", "C")}
SPACE = {"O": "original", "P": "primitive", "C": "conventional"}


def unique_arity(rep, M, rid):
    """`values, positions = np.unique(x, return_index=True)`: the number of unpacked results is 1 + the number of return_* flags that are True (a flag
    switched off hands the unique *values* to the name that is used as a position mask)"""
    n = 0
    for q, d in M.functions().items():
        if M.parent.get(q) != SA:
            continue
        for s2 in ast.walk(d):
            if not (isinstance(s2, ast.Assign) and isinstance(s2.value, ast.Call) and (M.ext_name(q, s2.value.func) or "") == "numpy.unique"):
                continue
            flags = [k for k in s2.value.keywords if k.arg in ("return_index", "return_inverse", "return_counts")]
            on = sum(1 for k in flags if isinstance(k.value, ast.Constant) and k.value.value is True)
            if any(not isinstance(k.value, ast.Constant) for k in flags):
                continue
            k_targets = len(s2.targets[0].elts) if isinstance(s2.targets[0], (ast.Tuple, ast.List)) else 1
            n += 1
            if (k_targets == 1 and on == 0) or (k_targets == 1 + on and on > 0):
                rep.ok(rid, f"{q.split('.')[-1]}: `{norm(s2)[:60]}` unpacks what np.unique returns")
            else:
                rep.violation(rid, f"{q.split('.')[-1]}: `{norm(s2)[:60]}`", f"{k_targets} name(s) are bound to a np.unique call that returns {1 + on} array(s): the name used as the "
                              "position of each first occurrence receives unique *values* (or the unpacking fails), so atoms are picked by label instead of by position",
                              M.where(q, s2))
    if n < 2:
        raise AnalysisError(f"np.unique calls in SymmetryAnalyzer: {n} recognised (>= 2 confirmed by hand)")


def observed_scope(rep, M):
    """names of the SymmetryAnalyzer methods reachable from the getters the running property observes (None: no restriction). A defect in a
    method outside this set - a method of another property's getters, or one nothing calls - cannot change what this property observes."""
    obs = OBSERVABLES.get(getattr(rep, "pid", None))
    if not obs:
        return None
    return {q.split(".")[-1] for q in M.reachable([SA + "." + o for o in obs]) if M.parent.get(q) == SA}


def _scoped_violation(rep, M, scope, rid, fname, construct, msg, where):
    if scope is not None and fname not in scope:
        rep.note(f"{rid}: {construct}: {msg[:120]} - in a method no getter observed by this property reaches; not reported here ({where})")
    else:
        rep.violation(rid, construct, msg, where)


def memo_read_once(M, getter, owner):
    """True when the memo behind SymmetryAnalyzer.<getter> has a single consumer that runs at most once per analysed structure: every call of
    the getter from a method some public method reaches sits in <owner>, <owner> starts with its own memo guard (`if self.X is not None:
    return self.X`) and nothing else reads the attribute. Changing the memoised object in place inside <owner> is then not observable."""
    cls = M.cls(SA)
    meth = {f.name: f for f in cls.body if isinstance(f, ast.FunctionDef)}
    if getter not in meth or owner not in meth:
        return False
    public = [SA + "." + n for n in meth if not n.startswith("_")]
    live = {q.split(".")[-1] for q in M.reachable(public) if M.parent.get(q) == SA}
    memo = {norm(r.value) for r in ast.walk(meth[getter]) if isinstance(r, ast.Return) and r.value is not None and norm(r.value).startswith("self._")}
    if len(memo) != 1:
        return False
    attr = next(iter(memo))[len("self."):]
    for name in live:
        f = meth[name]
        for x in ast.walk(f):
            if isinstance(x, ast.Call) and isinstance(x.func, ast.Attribute) and x.func.attr == getter and name not in (owner, getter):
                return False
            if isinstance(x, ast.Attribute) and x.attr == attr and isinstance(x.ctx, ast.Load) and name not in (getter,):
                return False
    first = [s for s in meth[owner].body if not (isinstance(s, ast.Expr) and isinstance(s.value, ast.Constant))][:1]
    if not first or not isinstance(first[0], ast.If) or not first[0].body or not isinstance(first[0].body[0], ast.Return):
        return False
    t, r = norm(first[0].test), norm(first[0].body[0].value) if first[0].body[0].value is not None else ""
    if not (r.startswith("self._") and t in (f"{r} is not None", f"{r} != None")):
        return False
    # the owner's memo is stored on every path that returns normally after the getter was called
    stores = [s for s in ast.walk(meth[owner]) if isinstance(s, ast.Assign) and any(norm(tt) == r for tt in s.targets)
              and not (isinstance(s.value, ast.Constant) and s.value.value is None)]
    rets = [x for x in ast.walk(meth[owner]) if isinstance(x, ast.Return) and x is not first[0].body[0]]
    return bool(stores) and len(stores) >= len(rets)


def index_spaces(rep, M, rid):
    unique_arity(rep, M, rid)
    cls = M.cls(SA)
    scope = observed_scope(rep, M)
    meth = {f.name: f for f in cls.body if isinstance(f, ast.FunctionDef)}
    ret = {}
    errors = []

    def type_of(e, env):
        if isinstance(e, ast.Name):
            return env.get(e.id)
        if isinstance(e, ast.Attribute):
            if isinstance(e.value, ast.Name) and env.get(e.value.id) == "DATASET" and e.attr in DATASET:
                return DATASET[e.attr]
            if isinstance(e.value, ast.Attribute) and e.value.attr == "_symmetry_dataset" and e.attr in DATASET:
                return DATASET[e.attr]
            if isinstance(e.value, ast.Call) and isinstance(e.value.func, ast.Attribute) and e.value.func.attr == "get_symmetry_dataset" \
                    and e.attr in DATASET:
                return DATASET[e.attr]
            if isinstance(e.value, ast.Name) and e.value.id == "self":
                return env.get("self." + e.attr)
        if isinstance(e, ast.Subscript) and isinstance(e.value, ast.Name) and env.get(e.value.id) == "DATASET" \
                and isinstance(e.slice, ast.Constant) and e.slice.value in DATASET:
            return DATASET[e.slice.value]
        if isinstance(e, ast.Call):
            f = e.func
            if isinstance(f, ast.Attribute) and isinstance(f.value, ast.Name) and f.value.id == "self":
                if f.attr == "get_symmetry_dataset":
                    return "DATASET"
                return ret.get(f.attr)
            if isinstance(f, ast.Attribute) and f.attr in ("array", "asarray") and e.args:
                return type_of(e.args[0], env)
            if isinstance(f, ast.Attribute) and f.attr == "unique" and e.args:
                t = type_of(e.args[0], env)
                if t and t != "DATASET" and t[0] == "map" and any(k.arg == "return_index" for k in e.keywords):
                    return ("tuple", [("vals", t[2]), ("map", t[2], t[1])])
                if t and t != "DATASET" and t[0] == "map":
                    # without return_index np.unique gives the sorted labels themselves: one per atom of B, values in B
                    return ("map", t[2], t[2])
        if isinstance(e, ast.Subscript):
            a, i = type_of(e.value, env), type_of(e.slice, env)
            if a and i and a != "DATASET" and i != "DATASET":
                if a[0] == "tuple" and isinstance(e.slice, ast.Constant):
                    return a[1][e.slice.value]
                if a[0] == "arr" and i[0] == "map":
                    if i[2] != a[1]:
                        return ("ERR", f"an array over the {SPACE[a[1]]} atoms is indexed by a map {SPACE[i[1]]} -> {SPACE[i[2]]}")
                    return ("arr", i[1])
        return None

    def run(fname):
        f = meth[fname]
        env = {}
        out = [None]

        def bind(t, val):
            if isinstance(t, ast.Name):
                env[t.id] = val
            elif isinstance(t, ast.Attribute) and isinstance(t.value, ast.Name) and t.value.id == "self":
                env["self." + t.attr] = val
            elif isinstance(t, ast.Tuple) and val and val != "DATASET" and val[0] == "tuple":
                for el, v in zip(t.elts, val[1]):
                    bind(el, v)

        def visit(stmts):
            for s in stmts:
                if isinstance(s, ast.Assign):
                    v = type_of(s.value, env)
                    for t in s.targets:
                        bind(t, v)
                    if v and v != "DATASET" and v[0] == "ERR":
                        errors.append((fname, s, v[1]))
                elif isinstance(s, ast.If):
                    visit(s.body)
                    visit(s.orelse)
                elif isinstance(s, ast.Return) and s.value is not None:
                    out[0] = type_of(s.value, env)
        visit(f.body)
        return out[0], env
    for name in EXPECT:
        if name not in meth:
            raise AnalysisError(f"SymmetryAnalyzer.{name} missing")
    for _ in range(3):
        errors.clear()
        for name in EXPECT:
            r, env = run(name)
            if r:
                ret[name] = r
    seen = set()
    for fname, s, msg in errors:
        if (fname, msg) not in seen:
            seen.add((fname, msg))
            _scoped_violation(rep, M, scope, rid, fname, f"{fname}: {norm(s)[:70]}", msg + ": atoms are silently mislabelled whenever the input is not "
                              "already the conventional cell", M.where(SA + "." + fname, s))
    for name, exp in EXPECT.items():
        got = ret.get(name)
        if any(e[0] == name for e in errors):
            continue
        if got == exp:
            rep.ok(rid, f"{name} : {exp}")
        elif got is None:
            raise AnalysisError(f"{name}: returned value could not be typed in the index-space discipline")
        else:
            def show(t):
                return f"array over {SPACE[t[1]]} atoms" if t[0] == "arr" else f"map {SPACE.get(t[1], t[1])} -> {SPACE.get(t[2], t[2])}" if t[0] == "map" else str(t)
            _scoped_violation(rep, M, scope, rid, name, f"{name}: index space", f"returns an {show(got)}, its name and callers require an {show(exp)}",
                              M.where(SA + "." + name))
    # _get_primitive_system: one mask, Conv-indexed, applied to positions, numbers, letters and equivalence
    r, env = run("_get_primitive_system")
    f = meth["_get_primitive_system"]
    NM, _c0 = _prim_names(M, f, SA + "._get_primitive_system")
    sliced = [(norm(s.targets[0]), norm(s.value.slice)) for s in ast.walk(f) if isinstance(s, ast.Assign)
              and isinstance(s.value, ast.Subscript) and isinstance(s.value.slice, ast.Name)]
    per_atom = {NM["POS"], NM["NUM"], NM.get("WYC"), NM.get("EQV")}
    masks = {m for t, m in sliced if t in per_atom}
    targets = {t for t, _ in sliced}
    mask = env.get(next(iter(masks))) if len(masks) == 1 else None
    if mask == ("map", "P", "C") and len(masks) == 1 and None not in per_atom and per_atom <= targets:
        rep.ok(rid, "_get_primitive_system: positions, numbers, letters and equivalence sliced by one section primitive -> conventional")
    elif mask != ("map", "P", "C"):
        _scoped_violation(rep, M, scope, rid, "_get_primitive_system", "_get_primitive_system: atom selection", f"the selection mask has index type {mask}; required a section "
                      "primitive -> conventional of std_mapping_to_primitive (np.unique(..., return_index=True)[1])", M.where(SA + "._get_primitive_system"))
    else:
        _scoped_violation(rep, M, scope, rid, "_get_primitive_system", "_get_primitive_system: consistent slicing", f"arrays are sliced by different masks {sorted(masks)} or not all of "
                      f"positions/numbers/letters/equivalence are sliced ({sorted(targets)})", M.where(SA + "._get_primitive_system"))

    memo_spaces(rep, M, rid)


GETTER_SPACE = {"get_wyckoff_letters_conventional": "C", "get_equivalent_atoms_conventional": "C",
                "_get_spglib_wyckoff_letters_conventional": "C", "_get_spglib_equivalent_atoms_conventional": "C",
                "get_wyckoff_letters_primitive": "P", "get_equivalent_atoms_primitive": "P",
                "_get_spglib_wyckoff_letters_primitive": "P", "_get_spglib_equivalent_atoms_primitive": "P",
                "get_wyckoff_letters_original": "O", "get_equivalent_atoms_original": "O",
                "_get_spglib_wyckoff_letters_original": "O", "_get_spglib_equivalent_atoms_original": "O"}
SPACE_TOKEN = {"primitive": "P", "conventional": "C", "original": "O"}
KINDS = ("wyckoff_letters", "equivalent_atoms")


def memo_spaces(rep, M, rid):
    """per-atom memo attributes (`self._primitive_equivalent_atoms` ...) are assigned arrays over the index space their name
    states, and every public per-atom getter hands out the memo of its own kind and space"""
    cls = M.cls(SA)
    meth = {f.name: f for f in cls.body if isinstance(f, ast.FunctionDef)}
    scope = observed_scope(rep, M)

    def attr_space(name):
        sp = [v for k, v in SPACE_TOKEN.items() if k in name.split("_")]
        kd = [k for k in KINDS if k in name]
        return (sp[0], kd[0]) if len(sp) == 1 and len(kd) == 1 else None

    def tcall(c, env):
        """space of a per-atom array / tuple returned by a self.<method>() call"""
        f = c.func
        if not (isinstance(f, ast.Attribute) and isinstance(f.value, ast.Name) and f.value.id == "self"):
            return None
        if f.attr in GETTER_SPACE:
            return GETTER_SPACE[f.attr]
        if f.attr == "_find_wyckoff_ground_state" and len(c.args) >= 2:
            # (system, letters) - the letters are those passed in, relabelled atom by atom
            return ("tuple", [None, tof(c.args[1], env)])
        if f.attr == "_get_primitive_system" and len(c.args) >= 3:
            a1, a2 = tof(c.args[1], env), tof(c.args[2], env)
            return ("tuple", [None, "P" if a1 == "C" else ("ERR", a1), "P" if a2 == "C" else ("ERR", a2)])
        return None

    def tof(e, env):
        if isinstance(e, ast.Name):
            return env.get(e.id)
        if isinstance(e, ast.Call):
            if isinstance(e.func, ast.Attribute) and e.func.attr in ("array", "asarray", "copy") and (e.args or e.func.attr == "copy"):
                return tof(e.args[0] if e.args else e.func.value, env)
            return tcall(e, env)
        if isinstance(e, ast.Attribute) and isinstance(e.value, ast.Name) and e.value.id == "self":
            a = attr_space(e.attr)
            return a[0] if a else None
        if isinstance(e, ast.Subscript):
            # primitive array indexed by a dataset map: the result is over the atoms the map is defined on
            idx = e.slice
            if isinstance(idx, ast.Name) and idx.id in env.get("#maps", {}):
                return env["#maps"][idx.id]
            txt = norm(idx)
            if txt.endswith("std_mapping_to_primitive"):
                return "C"
            if txt.endswith("mapping_to_primitive"):
                return "O"
        return None
    n_assign = 0
    for fname, f in meth.items():
        env = {}
        multi = {}      # local -> set of spaces over all its definitions (branches): a memo fed by a local must agree on every branch
        env["#maps"] = {norm(x.targets[0]): ("C" if norm(x.value).endswith("std_mapping_to_primitive") else "O") for x in ast.walk(f) if isinstance(x, ast.Assign)
                        and isinstance(x.targets[0], ast.Name) and norm(x.value).endswith("mapping_to_primitive")}
        for s in [x for x in ast.walk(f) if isinstance(x, ast.Assign)]:
            v = tof(s.value, env)
            for t in s.targets:
                if isinstance(t, ast.Name):
                    env[t.id] = v
                    if isinstance(v, str) and v in SPACE:
                        multi.setdefault(t.id, set()).add(v)
                elif isinstance(t, ast.Tuple) and isinstance(v, tuple) and v[0] == "tuple":
                    for el, vv in zip(t.elts, v[1]):
                        if isinstance(el, ast.Name):
                            env[el.id] = vv
        for s in [x for x in ast.walk(f) if isinstance(x, ast.Assign)]:
            for t in s.targets:
                if not (isinstance(t, ast.Attribute) and isinstance(t.value, ast.Name) and t.value.id == "self"):
                    continue
                a = attr_space(t.attr)
                if a is None or (isinstance(s.value, ast.Constant) and s.value.value is None):
                    continue
                v = tof(s.value, env)
                n_assign += 1
                if isinstance(s.value, ast.Name) and len(multi.get(s.value.id, ())) > 1:
                    wrong = sorted(multi[s.value.id] - {a[0]})
                    _scoped_violation(rep, M, scope, rid, fname, f"{fname}: `{norm(s)}`", f"`{s.value.id}` holds an array over the {' / '.join(SPACE[w] for w in wrong)} atoms on one branch and over the "
                                  f"{SPACE[a[0]]} atoms on another, and is stored as the memo of the {SPACE[a[0]]} cell: equal length does not mean equal atom order (spglib lists "
                                  "the standardised atoms of centred lattices interleaved), so letters / orbit ids end up on the wrong atoms", M.where(SA + "." + fname, s))
                    continue
                if isinstance(v, tuple) and v[0] == "ERR":
                    _scoped_violation(rep, M, scope, rid, fname, f"{fname}: `{norm(s)}`", f"the array is derived by _get_primitive_system from an input over the "
                                  f"{SPACE.get(v[1], v[1])} atoms instead of the conventional atoms", M.where(SA + "." + fname, s))
                elif v == a[0]:
                    rep.ok(rid, f"{fname}: self.{t.attr} <- array over the {SPACE[a[0]]} atoms")
                elif v in SPACE:
                    _scoped_violation(rep, M, scope, rid, fname, f"{fname}: `{norm(s)}`", f"the memo of the *{SPACE[a[0]]}* cell is assigned an array with one entry per "
                                  f"*{SPACE[v]}* atom: for centred lattices the lengths differ by the centring multiplicity and the entries "
                                  "do not line up with the atoms of the system handed out next to them", M.where(SA + "." + fname, s))
                elif fname.startswith("_get_spglib_"):
                    # typed from the dataset by the index-space rule above
                    n_assign -= 1
                else:
                    raise AnalysisError(f"{fname}: index space of `{norm(s.value)}` assigned to self.{t.attr} could not be typed")
    # public getters return the memo of their own kind and space
    n_get = 0
    for fname, f in meth.items():
        if not fname.startswith("get_"):
            continue
        a = attr_space(fname)
        if a is None or a[0] == "O":
            continue
        rets = [r for r in ast.walk(f) if isinstance(r, ast.Return) and r.value is not None]
        for r in rets:
            if isinstance(r.value, ast.Attribute) and isinstance(r.value.value, ast.Name) and r.value.value.id == "self":
                n_get += 1
                b = attr_space(r.value.attr)
                if b == a:
                    rep.ok(rid, f"{fname} returns self.{r.value.attr}")
                else:
                    _scoped_violation(rep, M, scope, rid, fname, f"{fname}: `{norm(r)}`", f"hands out the memo `{r.value.attr}`, not the {a[1].replace('_', ' ')} of the "
                                  f"{SPACE[a[0]]} cell", M.where(SA + "." + fname, r))
    if n_assign < 6 or n_get < 4:
        raise AnalysisError(f"memo index spaces: only {n_assign} typed memo assignments / {n_get} getters found (expected >= 6 / 4)")


# ----------------------------------------------------------------------------- centring matrices (R12.1)
def _ev_frac(n):
    if isinstance(n, ast.Constant) and isinstance(n.value, (int, float)):
        return F(n.value).limit_denominator(1000)
    if isinstance(n, ast.UnaryOp) and isinstance(n.op, ast.USub):
        return -_ev_frac(n.operand)
    if isinstance(n, ast.BinOp) and isinstance(n.op, ast.Div):
        return _ev_frac(n.left) / _ev_frac(n.right)
    if isinstance(n, ast.BinOp) and isinstance(n.op, ast.Mult):
        return _ev_frac(n.left) * _ev_frac(n.right)
    if isinstance(n, (ast.List, ast.Tuple)):
        return [_ev_frac(e) for e in n.elts]
    if isinstance(n, ast.Call) and n.args:
        return _ev_frac(n.args[0])
    raise AnalysisError(f"primitive_transformations: entry `{ast.unparse(n)[:40]}` is not a rational literal")


def det3(m):
    return (m[0][0] * (m[1][1] * m[2][2] - m[1][2] * m[2][1]) - m[0][1] * (m[1][0] * m[2][2] - m[1][2] * m[2][0])
            + m[0][2] * (m[1][0] * m[2][1] - m[1][1] * m[2][0]))


def _prim_names(M, fn, fq):
    """structural names in _get_primitive_system: locals are identified by their role, not by their spelling"""
    ctor = [c for c in ast.walk(fn) if isinstance(c, ast.Call) and M.resolve(fq, c.func) == ("ext", "ase.Atoms")]
    if not ctor:
        raise AnalysisError("_get_primitive_system: construction of the primitive Atoms not found")
    kw = {k.arg: k.value for k in ctor[0].keywords}
    names = {}
    for role, key in (("POS", "scaled_positions"), ("CELL", "cell"), ("NUM", "symbols")):
        v = kw.get(key, kw.get("numbers") if key == "symbols" else None)
        if not isinstance(v, ast.Name):
            raise AnalysisError(f"_get_primitive_system: Atoms({key}=...) is not a local")
        names[role] = v.id
    rets = [r for r in fn.body if isinstance(r, ast.Return) and isinstance(r.value, ast.Tuple) and len(r.value.elts) == 3]
    if rets and all(isinstance(e, ast.Name) for e in rets[-1].value.elts):
        names["SYS"], names["WYC"], names["EQV"] = [e.id for e in rets[-1].value.elts]
    dicts = [nd for nd in ast.walk(fn) if isinstance(nd, ast.Assign) and isinstance(nd.value, ast.Dict) and nd.value.keys and all(
        isinstance(k, ast.Constant) and isinstance(k.value, str) and len(k.value) == 1 for k in nd.value.keys)]
    if dicts:
        names["TABLE"] = norm(dicts[-1].targets[0])
        look = [nd for nd in ast.walk(fn) if isinstance(nd, ast.Assign) and isinstance(nd.value, ast.Subscript) and norm(nd.value.value) == names["TABLE"]]
        if look:
            names["T"] = norm(look[0].targets[0])
            names["CENTRING"] = norm(look[0].value.slice)
    return names, ctor[0]


def centring_matrices(rep, M, T, rid):
    fq = SA + "._get_primitive_system"
    fn = M.func(fq)
    pt = None
    for node in ast.walk(fn):
        if isinstance(node, ast.Assign) and isinstance(node.value, ast.Dict) and all(
                isinstance(k, ast.Constant) and isinstance(k.value, str) and len(k.value) == 1 for k in node.value.keys):
            pt = {k.value: _ev_frac(v) for k, v in zip(node.value.keys, node.value.values)}
            ptname = norm(node.targets[0])
    if pt is None:
        raise AnalysisError("_get_primitive_system: dict of centring transformation matrices not found")
    # which convention: prim_cell = transform.T @ conv_cell  => primitive vectors (in conventional fractional coords) = columns
    env = {}
    for s in ast.walk(fn):
        if isinstance(s, ast.Assign) and isinstance(s.targets[0], ast.Name):
            env.setdefault(s.targets[0].id, s.value)
    NM, _ctor = _prim_names(M, fn, fq)
    pc = env.get(NM["CELL"])
    if pc is None:
        raise AnalysisError("_get_primitive_system: assignment of the primitive cell not found")
    expand = {k: v for k, v in env.items() if k not in (NM.get("T"),)}
    f = linalg.nf(pc, resolver(M, fq), expand)

    def is_cell(x):
        return x[0].endswith(".get_cell()") and not x[1] and not x[2]
    tname = NM.get("T")
    if f is not None and len(f) == 2 and f[0][0] == tname and not f[0][1] and f[0][2] and is_cell(f[1]):
        use_columns = True
    elif f is not None and len(f) == 2 and f[0][0] == tname and not f[0][1] and not f[0][2] and is_cell(f[1]):
        use_columns = False
    else:
        raise AnalysisError(f"_get_primitive_system: primitive cell = {linalg.show(f)} not modelled")
    rep.note(f"primitive cell = {'T^T' if use_columns else 'T'} . conv_cell: primitive vectors are the {'columns' if use_columns else 'rows'} of the tabulated matrix")
    W = T["WYCKOFF_SETS"]
    # P short-circuit
    pret = [s for s in ast.walk(fn) if isinstance(s, ast.If) and isinstance(s.test, ast.Compare)
            and isinstance(s.test.comparators[0], ast.Constant) and s.test.comparators[0].value == "P"
            and any(isinstance(x, ast.Return) for x in s.body)]
    CEN = NM.get("CENTRING")
    if CEN is None:
        raise AnalysisError("_get_primitive_system: lookup of the centring matrix not found")

    def code_key(c):
        """fold the statements between `centring = symbol[0]` and the matrix lookup for centring letter c"""
        cur = c
        started = False
        for st in fn.body:
            if isinstance(st, ast.Assign) and norm(st.targets[0]) == CEN and isinstance(st.value, ast.Subscript):
                started = True
                continue
            if not started:
                continue
            if isinstance(st, ast.Assign) and isinstance(st.value, ast.Subscript) and norm(st.value.value) == ptname:
                return cur
            if isinstance(st, ast.If) and {x.id for x in ast.walk(st.test) if isinstance(x, ast.Name)} <= {CEN}:
                from .constfold import Folder
                F2 = Folder(what="_get_primitive_system centring dispatch")
                blk = st.body if F2.ev(st.test, {CEN: cur}) else st.orelse
                for s3 in blk:
                    if isinstance(s3, ast.Return):
                        return None
                    if isinstance(s3, ast.Assign) and norm(s3.targets[0]) == CEN:
                        cur = F2.ev(s3.value, {CEN: cur})
            elif isinstance(st, ast.Assign) and norm(st.targets[0]) == CEN:
                raise AnalysisError("_get_primitive_system: centring reassigned from a non-constant")
        return cur
    for g in range(1, 231):
        c0 = spgref.centring(g)
        c = code_key(c0)
        key = f"group {g} centring {c0}"
        if c is None:
            c = "P"
        elif c != c0:
            key += f" (code maps it to {c!r})"
        tr = []
        for t in W[g]["translations"]:
            fr = [frac24(float(x)) for x in t]
            if any(x is None for x in fr):
                fr = None
                break
            tr.append(tuple(x % 1 for x in fr))
        n = len(W[g]["translations"]) + 1
        if c == "P":
            if n != 1:
                rep.violation(rid, key, "primitive group with centring translations in the table")
            elif not pret:
                rep.violation(rid, key, "no short-circuit for primitive centring and no matrix", M.where(fq))
            else:
                rep.ok(rid, key + ": conventional cell returned as primitive")
            continue
        if c not in pt:
            rep.violation(rid, key, f"no transformation matrix for centring {c!r}: KeyError for every crystal of this group", M.where(fq))
            continue
        Mx = pt[c]
        vecs = [tuple(Mx[i][j] for i in range(3)) for j in range(3)] if use_columns else [tuple(r) for r in Mx]
        allowed = {(F(0), F(0), F(0))} | set(tr)
        bad = [v for v in vecs if tuple(x % 1 for x in v) not in allowed]
        d = det3(Mx)
        if bad:
            rep.violation(rid, key, f"primitive vector {tuple(str(x) for x in bad[0])} (conventional fractional coordinates) is not a "
                          f"lattice vector of the {c}-centred lattice {sorted(tuple(str(x) for x in t) for t in tr)}", M.where(fq))
        elif d != F(1, n):
            rep.violation(rid, key, f"det = {d}, a primitive cell of a {c}-centred lattice has volume 1/{n} of the conventional one "
                          "(handedness preserved)", M.where(fq))
        else:
            rep.ok(rid, key + f": matrix spans the centred lattice, det = 1/{n}")
    return pt


# ----------------------------------------------------------------------------- conversions in _get_primitive_system (R12.2)
def primitive_conversion(rep, M, rid):
    fq = SA + "._get_primitive_system"
    fn = M.func(fq)
    env = {}
    for s in ast.walk(fn):
        if isinstance(s, ast.Assign) and isinstance(s.targets[0], ast.Name):
            env.setdefault(s.targets[0].id, s.value)
    NM, ctor0 = _prim_names(M, fn, fq)
    res = resolver(M, fq)
    expand = {k: v for k, v in env.items() if k not in (NM.get("T"), NM["POS"])}
    pp = env.get(NM["POS"])
    f = linalg.nf(pp, res, expand)
    cf = linalg.nf(env.get(NM["CELL"]), res, expand)
    ok_f = f is not None and cf is not None and len(f) >= 2 and f[0][0].endswith(".get_positions()") and not f[0][1] and not f[0][2] and f[1:] == linalg.I(cf)
    if ok_f:
        rep.ok(rid, "fractional primitive positions = cartesian positions . (primitive cell)^-1")
    else:
        rep.violation(rid, "_get_primitive_system: fractional positions", f"= {linalg.show(f)}; row-vector convention requires <system>.get_positions() . "
                      f"({linalg.show(cf)})^-1", M.where(fq, pp))
    src_sys = f[0][0][:-len(".get_positions()")] if f and f[0][0].endswith(".get_positions()") else None
    if src_sys is not None and cf is not None and cf[-1][0] == src_sys + ".get_cell()":
        rep.ok(rid, "cartesian positions and cell are those of the same conventional system")
    else:
        rep.violation(rid, "_get_primitive_system: source of positions / cell", f"positions from `{src_sys}`, cell from `{cf[-1][0] if cf else None}`", M.where(fq))
    kwn = {k.arg: norm(k.value) for k in ctor0.keywords}
    if kwn.get("scaled_positions") and kwn.get("cell") and (kwn.get("symbols") or kwn.get("numbers")):
        rep.ok(rid, "primitive system = Atoms(scaled_positions=<fractional positions>, cell=<primitive cell>, symbols=<numbers>)")
    else:
        rep.violation(rid, "_get_primitive_system: Atoms(...)", f"built from {kwn}", M.where(fq, ctor0))
    wraps = [c for c in ast.walk(fn) if isinstance(c, ast.Call) and isinstance(c.func, ast.Attribute) and c.func.attr == "wrap"]
    if wraps:
        rep.ok(rid, "primitive system wrapped into its cell")
    else:
        # not an obligation of C12: an atom stored outside the primitive cell is the same atom modulo the lattice; count, volume, composition, space group
        # and letters of the primitive description do not depend on it (mutation audit: no demo of C12 notices a dropped wrap)
        rep.note("_get_primitive_system does not wrap the primitive atoms into the cell (allowed: positions are equivalent modulo the lattice)")
    # centring letter from the international short symbol
    cen = env.get(NM.get("CENTRING"))
    if cen is not None and isinstance(cen, ast.Subscript) and isinstance(cen.slice, ast.Constant) and cen.slice.value == 0:
        rep.ok(rid, "centring = first character of the international short symbol")
    else:
        rep.violation(rid, "_get_primitive_system: centring", "centring letter is not the first character of the short symbol", M.where(fq))


# ----------------------------------------------------------------------------- orbit source
def orbit_source(rep, M, rid):
    fq = SA + "._get_spglib_equivalent_atoms_original"
    fn = M.func(fq)
    attrs = {x.attr for x in ast.walk(fn) if isinstance(x, ast.Attribute)}
    if "crystallographic_orbits" in attrs and "equivalent_atoms" not in attrs:
        rep.ok(rid, "equivalence of original atoms = crystallographic_orbits of the dataset")
    else:
        rep.violation(rid, "_get_spglib_equivalent_atoms_original", "does not read dataset.crystallographic_orbits: spglib's `equivalent_atoms` "
                      "is relative to the symmetry of the *input cell*, so for a supercell whose lattice breaks the point symmetry one "
                      "crystallographic orbit is split into several sets", M.where(fq))


# ----------------------------------------------------------------------------- memo coherence with set_system()
OBSERVABLES = {
    "C04": ("get_material_id", "get_space_group_number", "get_wyckoff_sets_conventional"),
    "C05": ("get_conventional_system", "get_space_group_number"),
    "C06": ("get_material_id", "get_space_group_number", "get_hall_number", "get_point_group", "get_bravais_lattice", "get_crystal_system",
            "get_wyckoff_sets_conventional", "get_has_free_wyckoff_parameters", "get_conventional_system"),
    "C07": ("get_wyckoff_sets_conventional", "get_conventional_system", "get_wyckoff_letters_conventional", "get_equivalent_atoms_conventional", "get_space_group_number"),
    "C08": ("get_wyckoff_sets_conventional", "get_has_free_wyckoff_parameters"),
    "C11": ("get_conventional_system", "get_material_id", "get_space_group_number", "get_wyckoff_sets_conventional"),
    "C12": ("get_primitive_system", "get_conventional_system", "get_wyckoff_letters_original", "get_wyckoff_letters_primitive", "get_wyckoff_letters_conventional",
            "get_equivalent_atoms_original", "get_equivalent_atoms_primitive", "get_equivalent_atoms_conventional", "get_space_group_number"),
    "C14": ("get_crystal_system", "get_bravais_lattice", "get_point_group", "get_space_group_number"),
    "C15": ("get_is_chiral", "get_space_group_number", "get_hall_number"),
}


# arguments of observed getters that only some properties can observe (everything not listed is observable by whoever observes the getter)
ARG_OBSERVERS = {("get_wyckoff_sets_conventional", "return_parameters"): ("C08",)}


def _reads_of(M, meth, name, seen=None):
    """self attributes read by SymmetryAnalyzer.<name>, through self.<method>() calls"""
    seen = seen if seen is not None else set()
    if name in seen or name not in meth:
        return set()
    seen.add(name)
    out = set()
    for x in ast.walk(meth[name]):
        if isinstance(x, ast.Attribute) and isinstance(x.value, ast.Name) and x.value.id == "self":
            if x.attr in meth:
                out |= _reads_of(M, meth, x.attr, seen)
            else:
                out.add(x.attr)
    return out


def reset_covers_caches(rep, M, rid):
    """every memoised result of SymmetryAnalyzer *that the observed getters of this property read* is dropped by reset(), and set_system()
    calls reset(): otherwise an analyzer reused through set_system() answers for the previous structure"""
    cls = M.cls(SA)
    meth = {f.name: f for f in cls.body if isinstance(f, ast.FunctionDef)}
    pid = getattr(rep, "pid", None)
    obs = OBSERVABLES.get(pid)
    relevant = None
    if obs:
        missing = [o for o in obs if o not in meth]
        if missing:
            raise AnalysisError(f"SymmetryAnalyzer getters {missing} (observed for {pid}) missing")
        relevant = set().union(*[_reads_of(M, meth, o) for o in obs])
    if "reset" not in meth or "set_system" not in meth:
        raise AnalysisError("SymmetryAnalyzer.reset / set_system missing")
    lifecycle = {"__init__", "reset", "set_system"}
    assigned = {}
    for name, f in meth.items():
        if name in lifecycle:
            continue
        for n in ast.walk(f):
            tgts = []
            if isinstance(n, (ast.Assign, ast.AugAssign)):
                if isinstance(n, ast.Assign) and isinstance(n.value, ast.Constant) and n.value.value is None:
                    continue
                tgts = n.targets if isinstance(n, ast.Assign) else [n.target]
            elif isinstance(n, ast.Call) and isinstance(n.func, ast.Attribute) and n.func.attr in ("update", "append", "setdefault", "add", "extend", "insert"):
                tgts = [n.func.value]
            for t in tgts:
                for el in (t.elts if isinstance(t, (ast.Tuple, ast.List)) else [t]):
                    base = el
                    while isinstance(base, ast.Subscript):
                        base = base.value
                    if isinstance(base, ast.Attribute) and isinstance(base.value, ast.Name) and base.value.id == "self":
                        assigned.setdefault(base.attr, name)
    reset_set = {t.attr for n in ast.walk(meth["reset"]) if isinstance(n, ast.Assign) for t in n.targets if isinstance(t, ast.Attribute)
                 and isinstance(t.value, ast.Name) and t.value.id == "self"}
    memos = sorted(assigned)
    rep.count("state_attributes_written_outside_lifecycle", len(memos))
    for a in memos:
        if a in reset_set:
            rep.ok(rid, f"state self.{a} (written in {assigned[a]}) is re-initialised by reset()")
        elif relevant is not None and a not in relevant:
            rep.note(f"self.{a} (written in {assigned[a]}) is not re-initialised by reset(), but none of the getters observed for {pid} reads it")
        else:
            rep.violation(rid, f"SymmetryAnalyzer memo self.{a}", f"written in {assigned[a]} and kept on the analyzer, but reset() does not re-initialise it: "
                          "after set_system(other) the analyzer answers for the previous structure", M.where(SA + "." + assigned[a]))
    module_state(rep, M, rid, roots=[SA + "." + o for o in obs] if obs else None)
    observed_methods = None
    if obs:
        observed_methods = {q.split(".")[-1] for q in M.reachable([SA + "." + o for o in obs]) if M.parent.get(q) == SA}
    # set_system(): every path to its end passes through self.reset() (an early return keeps the memos of the previous - or the same, since
    # modified in place - structure)
    from .cfg import CFG, walk_own
    cfg = CFG(meth["set_system"])
    resets = [n for n, d in cfg.g.nodes(data=True) if d["ast"] is not None and any(
        isinstance(c, ast.Call) and isinstance(c.func, ast.Attribute) and c.func.attr == "reset" and norm(c.func.value) == "self" for c in walk_own(d["ast"]))]
    if not resets:
        rep.violation(rid, "SymmetryAnalyzer.set_system", "does not call self.reset(): every memo survives a change of the analysed structure", M.where(SA + ".set_system"))
    elif cfg.all_paths_pass(cfg.entry, cfg.exit, resets):
        rep.ok(rid, "set_system() calls reset() on every path")
    else:
        early = [d["ast"] for n, d in cfg.g.nodes(data=True) if isinstance(d["ast"], ast.Return) and not cfg.all_paths_pass(cfg.entry, n, resets)]
        rep.violation(rid, "SymmetryAnalyzer.set_system: path without reset()", "set_system can return without calling reset() (early return): the caller's Atoms object is "
                      "mutable, so when the same object is edited in place (strain, substitution) and set again, the analyzer keeps answering for the crystal it was before",
                      M.where(SA + ".set_system", early[0] if early else None))
    # memo guard polarity: `if self._x is not None: return self._x`; with the test inverted the getter hands out None and never computes
    for name, f in meth.items():
        if name in lifecycle or (observed_methods is not None and name not in observed_methods):
            continue
        for t in ast.walk(f):
            if isinstance(t, ast.If) and isinstance(t.test, ast.Compare) and len(t.test.ops) == 1 and isinstance(t.test.ops[0], (ast.Is, ast.Eq)) \
                    and isinstance(t.test.comparators[0], ast.Constant) and t.test.comparators[0].value is None and isinstance(t.test.left, ast.Attribute) \
                    and norm(t.test.left.value) == "self" and t.body and isinstance(t.body[0], ast.Return) and t.body[0].value is not None \
                    and norm(t.body[0].value) == norm(t.test.left):
                rep.violation(rid, f"SymmetryAnalyzer.{name}: memo guard `{norm(t.test)}`", f"the memo `{norm(t.test.left)}` is returned exactly when it is None: the getter "
                              "hands out None on the first call and never computes its result", M.where(SA + "." + name, t))
    # memo-key completeness: a method with parameters must not return a memo that ignores them
    for name, f in meth.items():
        ps = [a.arg for a in f.args.args[1:] + f.args.kwonlyargs]
        if not ps or name in lifecycle:
            continue
        for t in ast.walk(f):
            if isinstance(t, ast.If) and any(isinstance(r, ast.Return) and isinstance(r.value, (ast.Attribute, ast.Subscript)) and "self." in ast.unparse(r.value)
                                              for r in t.body):
                names = {x.id for x in ast.walk(t.test) if isinstance(x, ast.Name)}
                attr = [x for x in ast.walk(t.test) if isinstance(x, ast.Attribute) and isinstance(x.value, ast.Name) and x.value.id == "self"]
                if attr and not (names & set(ps)):
                    used = [p for p in ps if any(isinstance(x, ast.Name) and x.id == p for s2 in f.body for x in ast.walk(s2))]
                    if used and observed_methods is not None and (name not in observed_methods or
                                                                 any(pid not in ARG_OBSERVERS.get((name, p), (pid,)) for p in used)):
                        rep.note(f"SymmetryAnalyzer.{name} returns a memo regardless of {used}; not observable through the getters of {pid}")
                    elif used:
                        rep.violation(rid, f"SymmetryAnalyzer.{name}: memo `{ast.unparse(t.test)[:50]}`", f"the cached result is returned regardless of the "
                                      f"argument(s) {used}: a later call with another argument gets the first call's answer (e.g. sets without the "
                                      "free parameters although they were requested)", M.where(SA + "." + name, t))
    for name, f in meth.items():
        for d in f.decorator_list:
            t = ast.unparse(d)
            if any(k in t for k in ("lru_cache", "functools.cache", "cached_property")) or t == "cache":
                clears = any(isinstance(c, ast.Call) and isinstance(c.func, ast.Attribute) and c.func.attr == "cache_clear" and name in ast.unparse(c)
                             for c in ast.walk(meth["reset"]))
                if not clears and observed_methods is not None and name not in observed_methods:
                    rep.note(f"SymmetryAnalyzer.{name} is memoised with @{t} outside reset(); no getter observed for {pid} reaches it")
                elif not clears:
                    rep.violation(rid, f"SymmetryAnalyzer.{name} @{t}", "result memoised per analyzer object outside the attributes reset() clears: "
                                  "after set_system(other) the analyzer answers for the previous structure", M.where(SA + "." + name))
    calls_reset = any(isinstance(c, ast.Call) and isinstance(c.func, ast.Attribute) and c.func.attr == "reset" and isinstance(c.func.value, ast.Name)
                      and c.func.value.id == "self" for c in ast.walk(meth["set_system"]))
    first = meth["set_system"].body[0] if meth["set_system"].body else None
    if calls_reset:
        rep.ok(rid, "set_system() calls reset()")
    else:
        rep.violation(rid, "SymmetryAnalyzer.set_system", "does not call reset(): cached results of the previous structure survive", M.where(SA + ".set_system"))
    if len(memos) < 8:
        raise AnalysisError(f"only {len(memos)} state attributes recognised in SymmetryAnalyzer (>= 8 confirmed by hand)")


# ----------------------------------------------------------------------------- letter-space typing
# A normalizer's "permutations" is a dict OLD -> NEW letter. Types:
#   ("L", s)            sequence / array / scalar of letters of space s in {"OLD", "NEW"}
#   ("D", a, b)         dict from letters of space a to values of kind b ("OLD"/"NEW" letter, or ("POS", s): position aligned with the
#                       key/value order of the permutation dict whose entry at that position is of space s)
#   ("P", s)            integer positions aligned with the permutation dict's order, pointing at entries of space s ... (see below)
def letter_spaces(rep, M, rid):
    fq = SA + ".get_wyckoff_letters_original"
    fn = M.func(fq)
    env = {}
    errors = []

    def ty(e, loc=None):
        loc = loc or {}
        if isinstance(e, ast.Name):
            return loc.get(e.id, env.get(e.id))
        if isinstance(e, ast.Call):
            f = e.func
            if isinstance(f, ast.Attribute) and isinstance(f.value, ast.Name) and f.value.id == "self" and f.attr == "_get_spglib_wyckoff_letters_original":
                return ("L", "OLD", "atoms")
            if isinstance(f, ast.Attribute) and f.attr in ("keys", "values", "items", "get"):
                d = ty(f.value, loc)
                if d and d[0] == "D":
                    if f.attr == "keys":
                        return ("L", d[1], "aligned")
                    if f.attr == "values":
                        return ("L", d[2], "aligned") if isinstance(d[2], str) else ("POSSEQ", d[2])
                    if f.attr == "items":
                        return ("ITEMS", d[1], d[2])
                    if f.attr == "get" and e.args:
                        k = ty(e.args[0], loc)
                        if k and k[0] == "L" and k[1] != d[1]:
                            errors.append((e, f"a dict keyed by {d[1]} letters is looked up with {k[1]} letters"))
                        return (("L", d[2]) + (k[2:3] if k and k[0] == "L" else ())) if isinstance(d[2], str) else d[2]
            if isinstance(f, ast.Name) and f.id in ("list", "tuple", "sorted") and e.args:
                return ty(e.args[0], loc)
            if isinstance(f, ast.Attribute) and f.attr in ("array", "asarray", "copy") and e.args:
                return ty(e.args[0], loc)
            if isinstance(f, ast.Attribute) and f.attr == "copy" and not e.args:
                return ty(f.value, loc)
            if isinstance(f, ast.Name) and f.id == "enumerate" and e.args:
                t = ty(e.args[0], loc)
                if t and t[0] == "L":
                    return ("ENUM", t)
            if isinstance(f, ast.Name) and f.id == "zip" and len(e.args) == 2:
                return ("ZIP", ty(e.args[0], loc), ty(e.args[1], loc))
            if isinstance(f, ast.Name) and f.id == "dict" and len(e.args) == 1:
                z = ty(e.args[0], loc)
                if z and z[0] == "ZIP" and z[1] and z[2] and z[1][0] == "L" and z[2][0] == "L":
                    if not (z[1][2:3] == ("aligned",) and z[2][2:3] == ("aligned",)):
                        return None
                    return ("D", z[1][1], z[2][1])
            return None
        if isinstance(e, ast.Subscript):
            base = ty(e.value, loc)
            if isinstance(e.value, ast.Attribute) and e.value.attr == "_best_transform" and isinstance(e.slice, ast.Constant) and e.slice.value == "permutations":
                return ("D", "OLD", "NEW")
            if base and base[0] == "D":
                k = ty(e.slice, loc)
                if k and k[0] == "L" and k[1] != base[1]:
                    errors.append((e, f"a dict keyed by {base[1]} letters is subscripted with {k[1]} letters"))
                return (("L", base[2]) + (k[2:3] if k and k[0] == "L" else ())) if isinstance(base[2], str) else base[2]
            if base and base[0] == "L":
                k = ty(e.slice, loc)
                if k and k[0] == "POS":
                    if base[2:3] != ("aligned",):
                        errors.append((e, "positions are used to index a letter sequence that is not aligned with the permutation dict"))
                    return ("L", base[1])
                return ("L", base[1])
            return None
        if isinstance(e, ast.DictComp) and len(e.generators) == 1:
            g = e.generators[0]
            it = ty(g.iter, loc)
            l2 = dict(loc)
            bind(g.target, it, l2)
            k, v = ty(e.key, l2), ty(e.value, l2)
            if k and k[0] == "L":
                if v and v[0] == "L":
                    return ("D", k[1], v[1])
                if v and v[0] == "POS":
                    return ("D", k[1], v)
            return None
        if isinstance(e, (ast.ListComp, ast.GeneratorExp)) and len(e.generators) == 1:
            g = e.generators[0]
            it = ty(g.iter, loc)
            l2 = dict(loc)
            bind(g.target, it, l2)
            r = ty(e.elt, l2)
            if r and r[0] == "L":
                return ("L", r[1]) + r[2:3]
            if r and r[0] == "POS":
                return ("POS", r[1])
            return None
        return None

    def bind(t, it, loc):
        if it is None:
            return
        if isinstance(t, ast.Name):
            if it[0] == "L":
                loc[t.id] = ("L", it[1]) + it[2:3]
            elif it[0] == "D":
                # iterating a dict walks its keys: one per *letter of the group*, not one per atom
                loc[t.id] = ("L", it[1], "aligned")
            elif it[0] == "POS":
                loc[t.id] = it
        elif isinstance(t, ast.Tuple) and len(t.elts) == 2:
            a, b = t.elts
            if it[0] == "ITEMS":
                if isinstance(a, ast.Name):
                    loc[a.id] = ("L", it[1])
                if isinstance(b, ast.Name):
                    loc[b.id] = ("L", it[2]) if isinstance(it[2], str) else it[2]
            elif it[0] == "ENUM":
                if isinstance(a, ast.Name):
                    loc[a.id] = ("POS", it[1][1]) if it[1][2:3] == ("aligned",) else ("POS", "?")
                if isinstance(b, ast.Name):
                    loc[b.id] = ("L", it[1][1]) + it[1][2:3]
            elif it[0] == "ZIP":
                bind(a, it[1], loc)
                bind(b, it[2], loc)
    ret = [None]

    def visit(stmts):
        for s in stmts:
            if isinstance(s, ast.Assign) and isinstance(s.targets[0], ast.Name):
                t = ty(s.value)
                if t:
                    env[s.targets[0].id] = t
                elif isinstance(s.value, ast.List) and not s.value.elts:
                    env[s.targets[0].id] = ("EMPTY",)
            elif isinstance(s, ast.Assign) and isinstance(s.targets[0], ast.Subscript) and isinstance(s.targets[0].value, ast.Name) \
                    and isinstance(s.targets[0].slice, ast.Compare) and len(s.targets[0].slice.ops) == 1 and isinstance(s.targets[0].slice.ops[0], ast.Eq):
                # vectorised substitution  A[B == old] = new  (one statement per entry of the permutation)
                a, m = s.targets[0].value.id, s.targets[0].slice
                ta, tb, tk, tv = env.get(a), ty(m.left), ty(m.comparators[0]), ty(s.value)
                if ta and ta[0] == "L" and tk and tk[0] == "L" and tv and tv[0] == "L":
                    if isinstance(m.left, ast.Name) and m.left.id == a:
                        errors.append((s, "the mask is taken from the array that is being rewritten, so a letter that has already been replaced is "
                                          "replaced again by a later entry (a swap {a: b, b: a} collapses to one letter, longer cycles chain)"))
                    elif tb and tb[0] == "L" and tb[1] != tk[1]:
                        errors.append((s, f"{tb[1]} letters are compared with {tk[1]} letters"))
                    elif tb and tb[0] == "L":
                        env[a] = ("L", tv[1]) + tb[2:3]
            elif isinstance(s, ast.For):
                it = ty(s.iter)
                bind(s.target, it, env)
                visit(s.body)
            elif isinstance(s, ast.If):
                visit(s.body)
                visit(s.orelse)
            elif isinstance(s, ast.Expr) and isinstance(s.value, ast.Call) and isinstance(s.value.func, ast.Attribute) and s.value.func.attr == "append" \
                    and isinstance(s.value.func.value, ast.Name) and s.value.args:
                t = ty(s.value.args[0])
                if t and t[0] == "L":
                    env[s.value.func.value.id] = ("L", t[1]) + t[2:3]
            elif isinstance(s, ast.Return) and s.value is not None:
                ret[0] = ty(s.value)
    visit(fn.body)
    for node, msg in errors:
        rep.violation(rid, f"get_wyckoff_letters_original: `{norm(node)[:60]}`", msg + (": the letters of the original atoms go through the inverse of the "
                      "chosen normalizer permutation (differs from the permutation itself for 3- and 4-cycles)" if "keyed by" in msg else ""), M.where(fq, node))
    if errors:
        return
    if ret[0] is None:
        raise AnalysisError("get_wyckoff_letters_original: return value could not be typed in the letter-space discipline")
    if ret[0][0] == "L" and ret[0][1] == "NEW" and ret[0][2:3] != ("atoms",):
        rep.violation(rid, "get_wyckoff_letters_original: result", "the returned letters are not one per atom of the analysed cell (the sequence is "
                      "driven by the keys of the permutation table / another per-letter sequence): has_free_wyckoff_parameters and every per-atom consumer "
                      "see letters the structure does not occupy", M.where(fq))
    elif ret[0][0] == "L" and ret[0][1] == "NEW":
        rep.ok(rid, "get_wyckoff_letters_original returns NEW letters = permutation applied to spglib's (OLD) letters")
    else:
        rep.violation(rid, "get_wyckoff_letters_original: result", f"returns letters of the {ret[0][1] if len(ret[0]) > 1 else ret[0]} space; required the "
                      "images of spglib's letters under the chosen permutation", M.where(fq))


# ----------------------------------------------------------------------------- tolerance reaches spglib
def tolerance_reaches_spglib(rep, M, rid):
    """self.symmetry_tol must arrive at spglib.get_symmetry_dataset as its symprec, through segfault_protect"""
    fq = SA + ".get_symmetry_dataset"
    fn = M.func(fq)
    sp = "matid.utils.segfault_protect.segfault_protect"
    calls = M.calls_to(fq, sp)
    direct = [c for c in ast.walk(fn) if isinstance(c, ast.Call) and M.ext_name(fq, c.func) == "spglib.get_symmetry_dataset"]
    if not calls and not direct:
        raise AnalysisError("get_symmetry_dataset: call of spglib.get_symmetry_dataset (directly or through segfault_protect) not found")
    for c in direct:
        vals = [norm(a) for a in c.args[1:2]] + [norm(k.value) for k in c.keywords if k.arg == "symprec"]
        if "self.symmetry_tol" in vals:
            rep.ok(rid, "spglib.get_symmetry_dataset(..., symprec=self.symmetry_tol)")
        else:
            rep.violation(rid, "get_symmetry_dataset: tolerance", "spglib is not called with the analyzer's symmetry tolerance", M.where(fq, c))
    if calls:
        w = M.func(sp)
        inner = [c for c in ast.walk(w) if isinstance(c, ast.Call) and isinstance(c.func, ast.Name) and c.func.id == w.args.args[0].arg]
        fwd_args = any(any(isinstance(a, ast.Starred) and norm(a.value) == (w.args.vararg.arg if w.args.vararg else "") for a in c.args) for c in inner)
        fwd_kw = any(any(k.arg is None and norm(k.value) == (w.args.kwarg.arg if w.args.kwarg else "") for k in c.keywords) for c in inner)
        for c in calls:
            tgt = c.args[0] if c.args else None
            if tgt is None or M.ext_name(fq, tgt) != "spglib.get_symmetry_dataset":
                rep.violation(rid, "get_symmetry_dataset: protected call", f"segfault_protect does not wrap spglib.get_symmetry_dataset (`{norm(tgt) if tgt is not None else None}`)",
                              M.where(fq, c))
                continue
            pos = [norm(a) for a in c.args[1:]]
            kws = {k.arg: norm(k.value) for k in c.keywords if k.arg}
            if len(pos) >= 2 and pos[1] == "self.symmetry_tol" and fwd_args:
                rep.ok(rid, "self.symmetry_tol is passed positionally through segfault_protect(function, *args) as spglib's symprec")
            elif kws.get("symprec") == "self.symmetry_tol" and fwd_kw:
                rep.ok(rid, "self.symmetry_tol is passed as symprec= and segfault_protect forwards **kwargs")
            elif "self.symmetry_tol" in kws.values() and not fwd_kw:
                rep.violation(rid, "get_symmetry_dataset: tolerance passed by keyword", "segfault_protect(function, *args, **kwargs) calls function(*args) "
                              "and drops the keyword arguments, so `symprec=self.symmetry_tol` never reaches spglib: the default 1e-5 is used and any "
                              "crystal with noise above it is analysed as P1", M.where(fq, c))
            else:
                rep.violation(rid, "get_symmetry_dataset: tolerance", f"the symmetry tolerance does not reach spglib (positional {pos}, keywords {kws})", M.where(fq, c))
    init = M.func(SA + ".__init__")
    if any(isinstance(s2, ast.Assign) and norm(s2.targets[0]) == "self.symmetry_tol" and norm(s2.value) == "symmetry_tol" for s2 in ast.walk(init)):
        rep.ok(rid, "the symmetry_tol constructor argument is stored")
    else:
        rep.violation(rid, "SymmetryAnalyzer.__init__: symmetry_tol", "the constructor argument is not stored", M.where(SA + ".__init__"))


def two_d_only_flags(M):
    """attributes of the analyzer that hold a value other than None only for structures with two periodic directions: every store of a
    non-None value is control-dependent on `<number of periodic directions> == 2`"""
    from .dataflow import Flow
    stores = {}
    for q, d in M.functions().items():
        if M.parent.get(q) != SA:
            continue
        fl = None
        for st in ast.walk(d):
            if isinstance(st, ast.Assign) and len(st.targets) == 1 and isinstance(st.targets[0], ast.Attribute) and norm(st.targets[0].value) == "self" \
                    and not (isinstance(st.value, ast.Constant) and st.value.value is None):
                fl = fl or Flow(d)
                n = fl.node_of(st)
                two_d = False
                for t, pol in fl.cfg.branch_conditions(n):
                    test = getattr(t, "test", None)
                    if pol and isinstance(test, ast.Compare) and len(test.ops) == 1 and isinstance(test.ops[0], ast.Eq) \
                            and isinstance(test.comparators[0], ast.Constant) and test.comparators[0].value == 2 and isinstance(test.left, ast.Name):
                        vals = [v for dn in fl.rd[fl.node_of(t)].get(test.left.id, ()) if dn != fl.cfg.entry for k, v, *_ in
                                [tuple(x) + (None,) for x in fl.def_value(dn, test.left.id)] if k == "expr"]
                        if vals and all(isinstance(v, ast.Call) and norm(v.func).split(".")[-1] == "sum" and "pbc" in norm(v) for v in vals):
                            two_d = True
                stores.setdefault(st.targets[0].attr, []).append(two_d)
    return {a for a, flags in stores.items() if flags and all(flags)}


def handed_out_objects_not_mutated(rep, M, rid, three_d_only=False):
    """systems that the analyzer caches and hands out (conventional / primitive system) are never modified afterwards.
    three_d_only: the borrowing property speaks about three-dimensionally periodic crystals only; a modification that is control-dependent on
    a flag which is set only for 2D structures cannot be reached for them"""
    flags_2d = two_d_only_flags(M) if three_d_only else set()
    from .effects import Effects, MUTATORS
    E = Effects(M)
    fq = SA + "._get_primitive_system"
    ps = M.params(fq)
    mut = [p for p in ps if p in E.mut[fq]]
    if mut:
        for p in mut:
            why = E.why(fq, p)
            rep.violation(rid, f"_get_primitive_system mutates `{p}`", f"{why[0][2] if why else 'in place'}: the argument is the cached system that "
                          "get_conventional_system() hands out, so a conventional system fetched earlier changes retroactively (e.g. it keeps all atoms "
                          "but carries the primitive lattice)", M.where(fq))
    else:
        rep.ok(rid, "_get_primitive_system does not modify the conventional system it is given")
    # no method other than the builder itself applies a mutator to the cached objects (flow sensitive: a rebinding to a copy ends the exposure)
    from .dataflow import Flow
    from .cfg import walk_own
    GETTERS = ("get_conventional_system", "get_primitive_system", "_get_spglib_conventional_system", "_get_spglib_primitive_system")
    n = 0
    for q, d in M.functions().items():
        if M.parent.get(q) != SA or d.name in ("get_conventional_system", "_find_wyckoff_ground_state", "set_system", "reset", "__init__"):
            continue
        if not any(isinstance(c, ast.Call) and isinstance(c.func, ast.Attribute) and c.func.attr in GETTERS for c in ast.walk(d)):
            continue
        fl = Flow(d)

        def cached(name, at):
            for dn in fl.rd[at].get(name, ()):
                for kind, *rest in fl.def_value(dn, name):
                    if kind == "expr" and isinstance(rest[0], ast.Call) and isinstance(rest[0].func, ast.Attribute) and rest[0].func.attr in GETTERS:
                        return rest[0].func.attr
                    if kind == "expr" and isinstance(rest[0], ast.Name) and rest[0].id != name:
                        r = cached(rest[0].id, dn)
                        if r:
                            return r
            return None
        for node, data in fl.cfg.g.nodes(data=True):
            if data["ast"] is None:
                continue
            for c in walk_own(data["ast"]):
                if not isinstance(c, ast.Call):
                    continue
                hits = []
                if isinstance(c.func, ast.Attribute) and c.func.attr in MUTATORS and isinstance(c.func.value, ast.Name):
                    hits.append((c.func.value.id, f".{c.func.attr}()"))
                for callee in M.callees_of_call(q, c):
                    if callee not in E.mut:
                        continue
                    ps2 = [x for x in M.params(callee) if x != "self"]
                    for i, a in enumerate(c.args):
                        if isinstance(a, ast.Name) and i < len(ps2) and ps2[i] in E.mut[callee]:
                            hits.append((a.id, f"{callee.split('.')[-1]}() modifies its parameter `{ps2[i]}` in place"))
                    for k in c.keywords:
                        if isinstance(k.value, ast.Name) and k.arg in E.mut[callee]:
                            hits.append((k.value.id, f"{callee.split('.')[-1]}() modifies its parameter `{k.arg}` in place"))
                if hits and flags_2d and any(pol and isinstance(getattr(t, "test", None), ast.Compare) and isinstance(t.test.ops[0], ast.IsNot)
                                             and isinstance(t.test.left, ast.Attribute) and norm(t.test.left.value) == "self" and t.test.left.attr in flags_2d
                                             for t, pol in fl.cfg.branch_conditions(node)):
                    rep.ok(rid, f"{d.name}: `{norm(c)[:50]}` runs only for structures with two periodic directions")
                    continue
                for name, how in hits:
                    src = cached(name, node)
                    if src:
                        n += 1
                        rep.violation(rid, f"{d.name}: `{norm(c)[:60]}`", f"`{name}` is the cached object returned by {src}() ({how}): the system a caller "
                                      "fetched earlier changes retroactively, and a second call sees the already modified object", M.where(q, c))
    if not n:
        rep.ok(rid, "no analyzer method applies a mutator to a cached conventional / primitive system it fetched")


# ----------------------------------------------------------------------------- the built-in tables are read-only
TABLE_NAMES = ("CHIRALITY_PRESERVING_EUCLIDEAN_NORMALIZERS", "WYCKOFF_SETS", "SPACE_GROUP_INFO", "IMPROPER_RIGID_TRANSFORMATIONS", "PROPER_RIGID_TRANSFORMATIONS")
_TAB_MUT = {"append", "extend", "insert", "pop", "remove", "clear", "sort", "reverse", "update", "setdefault", "popitem", "add", "discard", "fill", "put", "itemset", "resize"}


IMPORT_UNIT = "matid.data.symmetry_data.<import time>"


def tables_read_only(rep, M, rid, only_import=False):
    """no function stores into, or calls a mutator on, an object obtained from the built-in symmetry tables (the tables are module
    state shared by every analysis: an in-place edit changes what all later lookups see)"""
    from .dataflow import Flow
    from .cfg import walk_own
    from .effects import Effects
    E = Effects(M)
    n_funcs = n_sites = 0
    from . import tables as _tables
    extra = _tables.load(M.root).get(_tables.IMPORT_TIME, [])
    units = list(M.functions().items()) if not only_import else []
    if only_import and not extra:
        rep.ok(rid, "the table module consists of imports and literal assignments only")
        return
    if extra:
        # statements of the table module that run at import after the literals, analysed as one synthetic function
        body = []
        for lineno, text in extra:
            for st in ast.parse(text).body:
                ast.increment_lineno(st, lineno - 1)
                body.append(st)
        syn = ast.FunctionDef(name="<import time>", args=ast.arguments(posonlyargs=[], args=[], kwonlyargs=[], kw_defaults=[], defaults=[]),
                              body=body, decorator_list=[], lineno=extra[0][0], col_offset=0)
        units.append((IMPORT_UNIT, ast.fix_missing_locations(syn)))
    for q, d in units:
        src_names = {x.id for x in ast.walk(d) if isinstance(x, ast.Name) and x.id in TABLE_NAMES} | \
                    {x.attr for x in ast.walk(d) if isinstance(x, ast.Attribute) and x.attr in TABLE_NAMES}
        if not src_names:
            continue
        n_funcs += q != IMPORT_UNIT
        fl = Flow(d)

        def from_table(e, at, depth=0):
            """is the object denoted by e (part of) a table? views only: subscripts, .get(), .values()/.items() elements, plain aliases"""
            if depth > 8:
                return None
            if isinstance(e, ast.Name):
                if e.id in TABLE_NAMES:
                    return e.id
                for dn in fl.rd[at].get(e.id, ()):
                    if dn == fl.cfg.entry:
                        continue
                    for kind, *rest in fl.def_value(dn, e.id):
                        if kind in ("expr", "iter", "unpack"):
                            r = from_table(rest[0], dn, depth + 1)
                            if r:
                                return r
                return None
            if isinstance(e, ast.Attribute):
                return e.attr if e.attr in TABLE_NAMES else None
            if isinstance(e, ast.Subscript):
                return from_table(e.value, at, depth + 1)
            if isinstance(e, ast.Call) and isinstance(e.func, ast.Attribute) and e.func.attr in ("get", "values", "items", "setdefault"):
                return from_table(e.func.value, at, depth + 1)
            if isinstance(e, ast.Call) and isinstance(e.func, ast.Name) and e.func.id in ("enumerate", "zip", "reversed", "iter") and e.args:
                return from_table(e.args[0], at, depth + 1)
            if isinstance(e, (ast.ListComp, ast.GeneratorExp, ast.SetComp)):
                return from_table(e.elt, at, depth + 1)        # a fresh container whose *elements* are table objects
            if isinstance(e, (ast.List, ast.Tuple)):
                for v in e.elts:
                    r = from_table(v, at, depth + 1)
                    if r:
                        return r
                return None
            if isinstance(e, ast.Starred):
                return from_table(e.value, at, depth + 1)
            if isinstance(e, ast.IfExp):
                return from_table(e.body, at, depth + 1) or from_table(e.orelse, at, depth + 1)
            if isinstance(e, ast.BoolOp):
                for v in e.values:
                    r = from_table(v, at, depth + 1)
                    if r:
                        return r
            return None
        for node, data in fl.cfg.g.nodes(data=True):
            s = data["ast"]
            if s is None:
                continue
            hits = []
            if isinstance(s, (ast.Assign, ast.AugAssign)):
                for t in (s.targets if isinstance(s, ast.Assign) else [s.target]):
                    if isinstance(t, (ast.Subscript, ast.Attribute)) and isinstance(t.ctx, ast.Store):
                        r = from_table(t.value, node)
                        if r:
                            hits.append((s, r, f"stores into `{norm(t)[:40]}`"))
                    if isinstance(s, ast.AugAssign) and isinstance(t, ast.Name):
                        r = from_table(t, node)
                        if r:
                            hits.append((s, r, f"augmented assignment to `{t.id}` (in place for lists / arrays)"))
            if isinstance(s, ast.Delete):
                for t in s.targets:
                    if isinstance(t, ast.Subscript):
                        r = from_table(t.value, node)
                        if r:
                            hits.append((s, r, f"deletes `{norm(t)[:40]}`"))
            for c in walk_own(s):
                if not isinstance(c, ast.Call):
                    continue
                if isinstance(c.func, ast.Attribute) and c.func.attr in _TAB_MUT:
                    r = from_table(c.func.value, node)
                    if r:
                        hits.append((c, r, f"calls .{c.func.attr}() on it"))
                for callee in (M.callees_of_call(q, c) if q != IMPORT_UNIT else ()):
                    if callee not in E.mut:
                        continue
                    ps2 = [x for x in M.params(callee) if x != "self"]
                    for i, a in enumerate(c.args):
                        if i < len(ps2) and ps2[i] in E.mut[callee]:
                            r = from_table(a, node)
                            if r:
                                hits.append((c, r, f"passes it to {callee.split('.')[-1]}(), which modifies its parameter `{ps2[i]}`"))
            if q == IMPORT_UNIT:
                for nd, tab, how in hits:
                    # a pure change of representation of the same entry (array(x), x.copy(), tuple(x) ...) leaves the values alone
                    val = nd.value if isinstance(nd, ast.Assign) else None
                    tgt = norm(nd.targets[0]) if isinstance(nd, ast.Assign) else None
                    same = lambda e: norm(e) == tgt or (isinstance(e, ast.Name) and from_table(e, node) is not None)      # noqa: E731
                    conv = isinstance(val, ast.Call) and not val.keywords and (
                        (isinstance(val.func, ast.Name) and val.func.id in ("array", "asarray", "tuple", "list", "float64") and len(val.args) == 1 and same(val.args[0]))
                        or (isinstance(val.func, ast.Attribute) and val.func.attr in ("array", "asarray") and len(val.args) == 1 and same(val.args[0]))
                        or (isinstance(val.func, ast.Attribute) and val.func.attr == "copy" and not val.args and same(val.func.value)))
                    if conv:
                        rep.ok(rid, f"import-time statement `{norm(nd)[:50]}` only changes the representation of a table entry")
                        continue
                    n_sites += 1
                    rep.violation(rid, f"data.symmetry_data import time: `{norm(nd)[:60]}`", f"the table module rewrites entries of {tab} after their literal definition "
                                  f"({how}) with something other than a change of representation: the values the library uses are no longer the literals of the file "
                                  "(e.g. snapping to multiples of 1/12 turns the eighths of the d-glide groups into sixths and thirds), and every table obligation "
                                  "decided on the literals is void", f"matid/data/symmetry_data.py:{getattr(nd, 'lineno', 0)} (module level)")
                continue
            for nd, tab, how in hits:
                n_sites += 1
                rep.violation(rid, f"{q.replace('matid.', '')}: `{norm(nd)[:60]}`", f"an object taken from the built-in table {tab} is modified in place ({how}): the table is "
                              "module state shared by every analysis of the process, so every later lookup (and anyone inspecting the table) sees entries that are not in "
                              "the source file - e.g. an identity record with a partial letter permutation inserted among the normalizers", M.where(q, nd))
    if only_import:
        if not n_sites:
            rep.ok(rid, f"{len(extra)} import-time statement(s) of the table module: none rewrites the values of a table entry")
        return
    if n_funcs == 0:
        raise AnalysisError("no function reads the built-in symmetry tables")
    if not n_sites:
        rep.ok(rid, f"{n_funcs} functions read the built-in tables; none modifies an object obtained from them")


# ----------------------------------------------------------------------------- no result is kept in module-level state
GEOMETRY_SIDE = ("matid.geometry", "matid.clustering", "matid.core", "matid.classification", "matid.utils", "matid.data.constants", "matid.data.element_data")
SYMMETRY_SIDE = ("matid.symmetry", "matid.geometry", "matid.data", "matid.utils", "matid.core.system")


def module_state(rep, M, rid, prefixes=SYMMETRY_SIDE, roots=None):
    """no function writes into a module-level object (a dict / list / array defined at import time): such a memo or buffer makes a result
    depend on what the process analysed before, and nothing invalidates it when the inputs change.
    roots: entry points the borrowing property observes; a write in a function that none of them reaches is a note, not a violation"""
    n_mod = n_fn = 0
    reach = None
    if roots:
        reach = {(M.owner_mod.get(q), q.split(".")[-1]) for q in M.reachable(roots)}
    hits = []
    for mname, tree in M.mods.items():
        if not any(mname == pf or mname.startswith(pf + ".") for pf in prefixes):
            continue
        n_mod += 1
        top = set()
        for st in tree.body:
            if isinstance(st, (ast.Assign, ast.AnnAssign)):
                for t in (st.targets if isinstance(st, ast.Assign) else [st.target]):
                    for x in ast.walk(t):
                        if isinstance(x, ast.Name):
                            top.add(x.id)
        if not top:
            continue
        for fn in [f for f in ast.walk(tree) if isinstance(f, ast.FunctionDef)]:
            n_fn += 1
            local = {a.arg for a in fn.args.posonlyargs + fn.args.args + fn.args.kwonlyargs}
            globs = {g for s2 in ast.walk(fn) if isinstance(s2, ast.Global) for g in s2.names}
            for s2 in ast.walk(fn):
                if isinstance(s2, ast.Assign):
                    for t in s2.targets:
                        for x in ast.walk(t):
                            if isinstance(x, ast.Name) and isinstance(x.ctx, ast.Store) and x.id not in globs:
                                local.add(x.id)
                if isinstance(s2, (ast.For, ast.comprehension)):
                    for x in ast.walk(s2.target):
                        if isinstance(x, ast.Name):
                            local.add(x.id)
            shared = (top - local) | (top & globs)
            for s2 in ast.walk(fn):
                if isinstance(s2, (ast.Assign, ast.AugAssign)):
                    for t in (s2.targets if isinstance(s2, ast.Assign) else [s2.target]):
                        base = t
                        while isinstance(base, (ast.Subscript, ast.Attribute)):
                            base = base.value
                        if isinstance(base, ast.Name) and base.id in shared and (t is not base or base.id in globs):
                            hits.append((mname, fn.name, s2, base.id))
                if isinstance(s2, ast.Call) and isinstance(s2.func, ast.Attribute) and s2.func.attr in _TAB_MUT | {"fill", "resize", "cache_clear"}:
                    base = s2.func.value
                    while isinstance(base, (ast.Subscript, ast.Attribute)):
                        base = base.value
                    if isinstance(base, ast.Name) and base.id in shared:
                        hits.append((mname, fn.name, s2, base.id))
            # functools caches on functions are module state as well
            for dec in fn.decorator_list:
                dn = ast.unparse(dec)
                if "lru_cache" in dn or dn.endswith("cache") or dn.endswith("cache()"):
                    hits.append((mname, fn.name, dec, dn))
    # class-level mutable attributes that are modified through an instance and never rebound per instance: shared by all objects of the class
    MUT_PREFIX = ("add", "remove", "append", "extend", "insert", "pop", "clear", "update", "discard", "sort", "fill", "setdefault")
    E_shared = None
    IMMUTABLE_CALLS = {"tuple", "frozenset", "int", "float", "str", "bool", "bytes", "property", "namedtuple", "object"}
    for mname, tree in M.mods.items():
        if not any(mname == pf or mname.startswith(pf + ".") for pf in prefixes):
            continue
        for cls in [c for c in ast.walk(tree) if isinstance(c, ast.ClassDef)]:
            shared_attrs = {}
            for st in cls.body:
                if isinstance(st, ast.Assign) and len(st.targets) == 1 and isinstance(st.targets[0], ast.Name):
                    v = st.value
                    if isinstance(v, (ast.Dict, ast.List, ast.Set, ast.ListComp, ast.DictComp, ast.SetComp)) or \
                            (isinstance(v, ast.Call) and norm(v.func).split(".")[-1] not in IMMUTABLE_CALLS):
                        shared_attrs[st.targets[0].id] = st
            if not shared_attrs:
                continue
            methods = [f for f in cls.body if isinstance(f, ast.FunctionDef)]
            rebound = {t.attr for f in methods if f.name == "__init__" for s2 in ast.walk(f) if isinstance(s2, ast.Assign) for t in s2.targets
                       if isinstance(t, ast.Attribute) and norm(t.value) == "self"}
            for attr, st in shared_attrs.items():
                if attr in rebound:
                    continue
                # handed to a callee that modifies its parameter, anywhere in the package (`finder._track(collection._search_graph, ...)`)
                if E_shared is None:
                    from .effects import Effects
                    E_shared = Effects(M)
                found = False
                for q2, d2 in M.functions().items():
                    for c2 in [c for c in ast.walk(d2) if isinstance(c, ast.Call)]:
                        for callee in M.callees_of_call(q2, c2):
                            for p2, a in M.bind_args(callee, c2).items():
                                if p2 in E_shared.mut.get(callee, ()) and isinstance(a, ast.Attribute) and a.attr == attr and not found:
                                    hits.append((M.owner_mod.get(q2, mname), q2.split(".")[-1], c2,
                                                 f"{cls.name}.{attr} (class attribute `{norm(st)[:40]}`, never rebound in __init__: one object for all instances; "
                                                 f"{callee.split('.')[-1]}() modifies it through its parameter `{p2}`)"))
                                    found = True
                if found:
                    continue
                for f in methods:
                    aliases = {a.targets[0].id for a in ast.walk(f) if isinstance(a, ast.Assign) and len(a.targets) == 1 and isinstance(a.targets[0], ast.Name)
                               and isinstance(a.value, ast.Attribute) and a.value.attr == attr and norm(a.value.value) in ("self", "cls", cls.name)}

                    def is_it(e):
                        while isinstance(e, ast.Subscript):
                            e = e.value
                        return (isinstance(e, ast.Attribute) and e.attr == attr and norm(e.value) in ("self", "cls", cls.name)) or (isinstance(e, ast.Name) and e.id in aliases)
                    for s2 in ast.walk(f):
                        hit = None
                        if isinstance(s2, ast.Call) and isinstance(s2.func, ast.Attribute) and s2.func.attr.startswith(MUT_PREFIX) and is_it(s2.func.value):
                            hit = s2
                        elif isinstance(s2, (ast.Assign, ast.AugAssign)):
                            for t in (s2.targets if isinstance(s2, ast.Assign) else [s2.target]):
                                if isinstance(t, ast.Subscript) and is_it(t):
                                    hit = s2
                        if hit is not None:
                            hits.append((mname, f.name, hit, f"{cls.name}.{attr} (class attribute `{norm(st)[:40]}`, never rebound in __init__: one object for all instances)"))
                            break
                    else:
                        continue
                    break
    rep.count("modules_scanned_for_shared_state", n_mod)
    if reach is not None:
        for mname, fname, node, what in hits:
            if (mname, fname) not in reach:
                rep.note(f"{mname}.{fname} keeps module-level state `{what}`, but no entry point observed for {getattr(rep, 'pid', '?')} reaches it")
        hits = [h for h in hits if (h[0], h[1]) in reach]
    for mname, fname, node, what in hits:
        rep.violation(rid, f"{mname.replace('matid.', '')}.{fname}: `{norm(node)[:60]}`", f"writes into / memoises in the module-level object `{what}`: the value is shared by every call "
                      "in the process and is never invalidated, so a result depends on which structures (or parameters) were analysed before - a second, different input with the same "
                      "memo key gets the answer of the first", f"{mname.replace('.', '/')}.py:{getattr(node, 'lineno', 0)}")
    if not hits:
        rep.ok(rid, f"no function of the {n_mod} modules writes into module-level state or memoises with functools ({n_fn} functions scanned)")


# ----------------------------------------------------------------------------- polarity rules that came out of the mutation audit
def ground_state_consistency_raises(rep, M, rid):
    """_find_wyckoff_ground_state: equally ranked candidates must agree on their (letter, element) counts, otherwise an error is raised. Each such raise
    is control-dependent on an *inequality* of data of two candidates - with `==` every crystal that has more than one best candidate raises"""
    fn = M.func(GS)
    from .dataflow import Flow
    fl = Flow(fn)
    n = 0
    for lp in [x for x in ast.walk(fn) if isinstance(x, ast.For) and isinstance(x.iter, ast.Subscript) and isinstance(x.iter.slice, ast.Slice)]:
        for r in [x for x in ast.walk(lp) if isinstance(x, ast.Raise)]:
            conds = [(t, pol) for t, pol in fl.cfg.branch_conditions(fl.node_of(r)) if isinstance(t, ast.If) and any(x is r for x in ast.walk(t))]
            inner = [(t, pol) for t, pol in conds if isinstance(t.test, ast.Compare) and len(t.test.ops) == 1 and isinstance(t.test.ops[0], (ast.Eq, ast.NotEq))]
            if not inner:
                continue
            n += 1
            t, pol = inner[-1]
            differs = (isinstance(t.test.ops[0], ast.NotEq) and pol) or (isinstance(t.test.ops[0], ast.Eq) and not pol)
            if differs:
                rep.ok(rid, f"_find_wyckoff_ground_state: `{norm(r)}` only when `{norm(t.test)[:50]}`")
            else:
                rep.violation(rid, f"_find_wyckoff_ground_state: `{norm(t.test)[:50]}` -> raise", "the error for inconsistent equally-ranked candidates is raised when they *agree*: "
                              "every crystal with more than one best candidate (any structure whose occupied positions are permuted among themselves by a normalizer) ends in "
                              "CellNormalizationError", M.where(GS, t))
    if n < 2:
        raise AnalysisError(f"_find_wyckoff_ground_state: consistency tests of equally ranked candidates recognised at {n} site(s) (2 confirmed by hand)")


def lazy_init_polarity(rep, M, rid, methods):
    """`if self._x is None: self.<compute>()` before `self._x[...]` is read: the guard must run the computation when the value is missing"""
    n = 0
    for name in methods:
        fq = SA + "." + name
        fn = M.func(fq)
        for t in ast.walk(fn):
            if isinstance(t, ast.If) and isinstance(t.test, ast.Compare) and len(t.test.ops) == 1 and isinstance(t.test.comparators[0], ast.Constant) \
                    and t.test.comparators[0].value is None and isinstance(t.test.left, ast.Attribute) and norm(t.test.left.value) == "self" and not t.orelse \
                    and len(t.body) == 1 and isinstance(t.body[0], ast.Expr) and isinstance(t.body[0].value, ast.Call) and isinstance(t.body[0].value.func, ast.Attribute) \
                    and norm(t.body[0].value.func.value) == "self":
                n += 1
                if isinstance(t.test.ops[0], (ast.Is, ast.Eq)):
                    rep.ok(rid, f"{name}: `{norm(t.body[0])}` runs when `{norm(t.test.left)}` is missing")
                else:
                    rep.violation(rid, f"{name}: `{norm(t.test)}`", f"`{norm(t.body[0])}` runs only when `{norm(t.test.left)}` is already there: on a fresh analyzer the value is "
                                  "still None when it is subscripted", M.where(fq, t))
    if n < 1:
        raise AnalysisError(f"lazy initialisation guards in {methods}: none recognised")
