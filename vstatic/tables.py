"""Loader for matid/data/symmetry_data.py *through ast* with a closed evaluator, plus the exact
arithmetic helpers used by the table obligations. The file is never imported or executed.

All tabulated translations/constants are multiples of 1/24 rounded to 8 digits; they are
converted to integers scaled by D=24 (nearest multiple, deviation must be < 1e-6).
"""
import ast
import hashlib
import os
import pickle
import re
from fractions import Fraction as F

import numpy as np

from .report import REPO, VERIF, AnalysisError

D = 24
TABLE_REL = "matid/data/symmetry_data.py"
TABLE_NAMES = ("SPACE_GROUP_INFO", "WYCKOFF_SETS", "CHIRALITY_PRESERVING_EUCLIDEAN_NORMALIZERS")


def _ev(n):
    if isinstance(n, ast.Constant):
        return n.value
    if isinstance(n, ast.UnaryOp) and isinstance(n.op, ast.USub):
        return -_ev(n.operand)
    if isinstance(n, ast.UnaryOp) and isinstance(n.op, ast.UAdd):
        return _ev(n.operand)
    if isinstance(n, ast.BinOp) and isinstance(n.op, ast.Div):
        return _ev(n.left) / _ev(n.right)
    if isinstance(n, ast.Dict):
        if any(k is None for k in n.keys):
            raise AnalysisError("symmetry_data.py: dict unpacking not modelled")
        return {_ev(k): _ev(v) for k, v in zip(n.keys, n.values)}
    if isinstance(n, (ast.List, ast.Tuple)):
        return [_ev(e) for e in n.elts]
    if isinstance(n, ast.Set):
        return {_ev(e) for e in n.elts}
    if isinstance(n, ast.Call):
        name = n.func.id if isinstance(n.func, ast.Name) else (n.func.attr if isinstance(n.func, ast.Attribute) else None)
        if name == "array" and n.args:
            return _ev(n.args[0])
        if name == "set" and not n.args:
            return set()
        if name == "set" and len(n.args) == 1:
            return set(_ev(n.args[0]))
    raise AnalysisError(f"symmetry_data.py: expression outside the closed evaluator at line "
                        f"{getattr(n, 'lineno', '?')}: {ast.dump(n)[:120]}")


IMPORT_TIME = "__import_time_statements__"


def load(root=None):
    root = root or REPO
    path = os.path.join(root, TABLE_REL)
    if not os.path.exists(path):
        raise AnalysisError(f"{path} missing")
    raw = open(path, "rb").read()
    dig = hashlib.sha1(raw).hexdigest()
    cdir = os.path.join(VERIF, ".cache")
    cpath = os.path.join(cdir, f"tables-v2-{dig}.pkl")
    if os.path.exists(cpath):
        try:
            return pickle.load(open(cpath, "rb"))
        except Exception:
            pass
    try:
        tree = ast.parse(raw.decode(), path)
    except SyntaxError as e:
        raise AnalysisError(f"{path} does not parse: {e}")
    out = {}
    for st in tree.body:
        if isinstance(st, ast.Assign) and len(st.targets) == 1 and isinstance(st.targets[0], ast.Name):
            out[st.targets[0].id] = _ev(st.value)
        elif isinstance(st, (ast.Import, ast.ImportFrom)):
            continue
        elif isinstance(st, ast.Expr) and isinstance(st.value, ast.Constant):
            continue
        elif isinstance(st, (ast.For, ast.While, ast.If, ast.AugAssign, ast.Delete, ast.Expr, ast.Assign)):
            # code that runs at import after the literals: kept as text for symrules.tables_read_only, which decides whether it rewrites
            # table entries (then the literals analysed here are not what the library uses)
            out.setdefault(IMPORT_TIME, []).append((st.lineno, ast.unparse(st)))
        else:
            raise AnalysisError(f"symmetry_data.py: top-level statement not modelled at line {st.lineno}")
    for k in TABLE_NAMES:
        if k not in out:
            raise AnalysisError(f"symmetry_data.py: table {k} missing")
    try:
        os.makedirs(cdir, exist_ok=True)
        tmp = cpath + f".{os.getpid()}"
        pickle.dump(out, open(tmp, "wb"))
        os.replace(tmp, cpath)
        # keep the cache small
        olds = sorted((os.path.getmtime(os.path.join(cdir, f)), f) for f in os.listdir(cdir) if f.startswith("tables-"))
        for _, f in olds[:-6]:
            os.remove(os.path.join(cdir, f))
    except OSError:
        pass
    return out


def letters_of(wy_group):
    return [k for k in wy_group if k != "translations"]


def toint(a, scale=1, what=""):
    """array of floats -> integer array of round(a*scale); deviation must be tiny"""
    b = np.array(a, dtype=float) * scale
    r = np.rint(b).astype(int)
    if b.size and np.abs(b - r).max() > 1e-5 * max(scale, 1):
        return None
    return r


def frac24(x):
    """float -> Fraction on the 1/24 grid if within 1e-6, else None"""
    r = round(x * D)
    if abs(x * D - r) < 2e-5:
        return F(r, D)
    return None


_term = re.compile(r"([+-]?)(\d+/\d+|\d+(?:\.\d+)?)?\*?([xyz])?")


def parse_expr(s):
    """'-x+1/2' -> {'x': -1, 'y': 0, 'z': 0, '1': 1/2} ; raises ValueError on junk"""
    s = s.replace(" ", "")
    co = {"x": F(0), "y": F(0), "z": F(0), "1": F(0)}
    i = 0
    if not s:
        raise ValueError("empty expression")
    while i < len(s):
        m = _term.match(s, i)
        if not m or m.end() == i:
            raise ValueError(s)
        sign = -1 if m.group(1) == "-" else 1
        num = F(m.group(2)) if m.group(2) else None
        var = m.group(3)
        if var is None and num is None:
            raise ValueError(s)
        if var:
            co[var] += sign * (num if num is not None else 1)
        else:
            co["1"] += sign * num
        i = m.end()
    return co


def normalizer_parts(n):
    """-> (P int 3x3, p int*24 3-vector, lastrow ok) or raises ValueError naming the defect"""
    A = np.array(n["transformation"], dtype=float)
    if A.shape != (4, 4):
        raise ValueError(f"transformation has shape {A.shape}, expected 4x4")
    P = toint(A[:3, :3])
    if P is None:
        raise ValueError("rotation part is not integral")
    p = toint(A[:3, 3], D)
    if p is None:
        raise ValueError("translation part is not on the 1/24 grid")
    last_ok = bool(np.allclose(A[3], [0, 0, 0, 1]))
    return P, p, last_ok


def idet(P):
    P = [[int(x) for x in r] for r in P]
    return (P[0][0] * (P[1][1] * P[2][2] - P[1][2] * P[2][1])
            - P[0][1] * (P[1][0] * P[2][2] - P[1][2] * P[2][0])
            + P[0][2] * (P[1][0] * P[2][1] - P[1][1] * P[2][0]))


def iinv(P):
    """exact inverse of a unimodular integer matrix"""
    P = np.array(P, dtype=int)
    d = idet(P)
    if abs(d) != 1:
        raise ValueError("not unimodular")
    c = np.zeros((3, 3), dtype=int)
    for i in range(3):
        for j in range(3):
            m = np.delete(np.delete(P, i, 0), j, 1)
            c[i, j] = (-1) ** (i + j) * (m[0, 0] * m[1, 1] - m[0, 1] * m[1, 0])
    return (c.T * d)
