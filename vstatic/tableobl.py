"""Exhaustive, exact obligations over the literal symmetry tables (shared by C05-C08, C12, C14).

Reference = spglib's Hall database in the standard setting (vstatic.spgref). All arithmetic is
integer arithmetic on the 1/24 grid or `fractions.Fraction`.
"""
import itertools
from fractions import Fraction as F

import numpy as np

from . import spgref
from .tables import D, frac24, idet, iinv, letters_of, normalizer_parts, parse_expr, toint

ALPHABET = list("abcdefghijklmnopqrstuvwxyzA")


# ----------------------------------------------------------------------------- SPACE_GROUP_INFO
def sg_info(rep, T, rid):
    SGI = T["SPACE_GROUP_INFO"]
    for g in range(1, 231):
        info = SGI.get(g)
        if not isinstance(info, dict):
            rep.violation(rid, f"SPACE_GROUP_INFO[{g}]", "entry missing")
            continue
        t = spgref.sgtype(g)
        sysname = spgref.crystal_system(g)
        if info.get("crystal_system") != sysname:
            rep.violation(rid, f"SPACE_GROUP_INFO[{g}].crystal_system",
                          f"tabulated {info.get('crystal_system')!r}, ITA range gives {sysname!r}")
        else:
            rep.ok(rid, f"SPACE_GROUP_INFO[{g}].crystal_system")
        if info.get("pointgroup") != t.pointgroup_international:
            rep.violation(rid, f"SPACE_GROUP_INFO[{g}].pointgroup",
                          f"tabulated {info.get('pointgroup')!r}, reference {t.pointgroup_international!r}")
        else:
            rep.ok(rid, f"SPACE_GROUP_INFO[{g}].pointgroup")
        bl = info.get("bravais_lattice")
        cent = spgref.centring(g)

        def m(c):
            return "S" if c in "ABC" else c
        if not (isinstance(bl, str) and len(bl) == 2 and bl[0] == spgref.PEARSON[sysname] and m(bl[1]) == m(cent)):
            rep.violation(rid, f"SPACE_GROUP_INFO[{g}].bravais_lattice",
                          f"tabulated {bl!r}, reference Pearson {spgref.PEARSON[sysname]}{m(cent)} (side centrings merged)")
        else:
            rep.ok(rid, f"SPACE_GROUP_INFO[{g}].bravais_lattice")
    extra = sorted(k for k in SGI if k not in range(1, 231))
    if extra:
        rep.violation(rid, "SPACE_GROUP_INFO.keys", f"unexpected keys {extra[:5]}")


# ----------------------------------------------------------------------------- keys / letters
def reader_keys(rep, T, rid):
    """every key the analyzer subscripts exists; letters are the contiguous run a,b,...;
    the last letter is the general position with multiplicity = order of the reference group"""
    W = T["WYCKOFF_SETS"]
    N = T["CHIRALITY_PRESERVING_EUCLIDEAN_NORMALIZERS"]
    for g in range(1, 231):
        wg = W.get(g)
        if not isinstance(wg, dict) or "translations" not in wg:
            rep.violation(rid, f"WYCKOFF_SETS[{g}]", "entry or its 'translations' missing")
            continue
        letters = letters_of(wg)
        if not all(l in ALPHABET for l in letters) or sorted(letters, key=ALPHABET.index) != ALPHABET[:len(letters)]:
            rep.violation(rid, f"WYCKOFF_SETS[{g}].letters", f"letters {letters} are not the contiguous run a,b,...")
        else:
            rep.ok(rid, f"WYCKOFF_SETS[{g}].letters")
        ok = True
        for L in letters:
            info = wg[L]
            for k in ("variables", "expressions", "matrices", "constants"):
                if not isinstance(info, dict) or k not in info:
                    rep.violation(rid, f"WYCKOFF_SETS[{g}][{L!r}].{k}", "key missing")
                    ok = False
        if ok and letters:
            last = max(letters, key=ALPHABET.index)
            n = len(wg[last]["expressions"]) * (1 + len(wg["translations"]))
            if n != spgref.group_order(g):
                rep.violation(rid, f"WYCKOFF_SETS[{g}][{last!r}].multiplicity",
                              f"general position lists {n} points, reference group has order {spgref.group_order(g)}")
            elif wg[last]["variables"] != {"x", "y", "z"}:
                rep.violation(rid, f"WYCKOFF_SETS[{g}][{last!r}].variables", "general position must have x, y, z free")
            else:
                rep.ok(rid, f"WYCKOFF_SETS[{g}][{last!r}].general")
    for g, lst in N.items():
        if g not in W:
            rep.violation(rid, f"NORMALIZERS[{g}]", "normalizers for a group without Wyckoff table")
            continue
        letters = set(letters_of(W[g]))
        for i, n in enumerate(lst):
            if not isinstance(n, dict) or "transformation" not in n or "permutations" not in n:
                rep.violation(rid, f"NORMALIZERS[{g}][{i}]", "key 'transformation'/'permutations' missing")
                continue
            perm = n["permutations"]
            if set(perm.keys()) != letters or set(perm.values()) != letters:
                rep.violation(rid, f"NORMALIZERS[{g}][{i}].permutations",
                              "letter permutation is not a bijection on the letters of the group")
            else:
                rep.ok(rid, f"NORMALIZERS[{g}][{i}].permutations.bijective")


# ----------------------------------------------------------------------------- expressions
def expr_matrices(rep, T, rid):
    W = T["WYCKOFF_SETS"]
    for g in range(1, 231):
        wg = W.get(g, {})
        for L in letters_of(wg):
            info = wg[L]
            try:
                ex, M, C = info["expressions"], info["matrices"], info["constants"]
            except (KeyError, TypeError):
                continue
            if not (len(ex) == len(M) == len(C)) or not ex:
                rep.violation(rid, f"WYCKOFF_SETS[{g}][{L!r}]", "expressions / matrices / constants differ in length")
                continue
            used = set()
            for k, e in enumerate(ex):
                for comp in range(3):
                    key = f"WYCKOFF_SETS[{g}][{L!r}] expr {k} comp {comp}"
                    try:
                        co = parse_expr(e[comp])
                    except (ValueError, IndexError, TypeError):
                        rep.violation(rid, key, f"expression {e!r} does not parse as a linear form")
                        continue
                    good = True
                    for vi, v in enumerate("xyz"):
                        if co[v] != 0:
                            used.add(v)
                        try:
                            mv = F(M[k][vi][comp]).limit_denominator(1000)
                        except Exception:
                            mv = None
                        if mv != co[v]:
                            rep.violation(rid, key, f"matrices[{k}][{vi}][{comp}] = {M[k][vi][comp]!r} but expression "
                                                    f"{e[comp]!r} has coefficient {co[v]} for {v}")
                            good = False
                    try:
                        cv = frac24(float(C[k][comp]))
                    except Exception:
                        cv = None
                    if cv is None or (cv - co["1"]) != 0:
                        rep.violation(rid, key, f"constants[{k}][{comp}] = {C[k][comp]!r} but expression {e[comp]!r} "
                                                f"has constant {co['1']}")
                        good = False
                    if good:
                        rep.ok(rid, key)
            if used != set(info.get("variables", ())):
                rep.violation(rid, f"WYCKOFF_SETS[{g}][{L!r}].variables",
                              f"tabulated {sorted(info.get('variables', ()))}, expressions use {sorted(used)}")
            else:
                rep.ok(rid, f"WYCKOFF_SETS[{g}][{L!r}].variables")


# ----------------------------------------------------------------------------- orbits
def _pos_maps(wg, L):
    """all points of position L as exact affine maps (A int 3x3 flattened, c int*24 mod 24), incl. centring"""
    info = wg[L]
    tr = [np.zeros(3, int)]
    for t in wg["translations"]:
        ti = toint(t, D)
        if ti is None:
            raise ValueError("centring translation off the 1/24 grid")
        tr.append(ti)
    lst = []
    for Mx, Cx in zip(info["matrices"], info["constants"]):
        A = toint(Mx)
        c = toint(Cx, D)
        if A is None or c is None or np.shape(A) != (3, 3):
            raise ValueError("matrix / constant not exact")
        A = A.T
        for t in tr:
            lst.append((tuple(A.flatten()), tuple((c + t) % D)))
    return lst


def orbit_closure(rep, T, rid):
    W = T["WYCKOFF_SETS"]
    for g in range(1, 231):
        wg = W.get(g, {})
        if "translations" not in wg:
            continue
        R, t = spgref.ops(g)
        for L in letters_of(wg):
            key = f"WYCKOFF_SETS[{g}][{L!r}].orbit"
            try:
                lst = _pos_maps(wg, L)
            except (ValueError, KeyError, TypeError) as e:
                rep.violation(rid, key, f"position cannot be read exactly: {e}")
                continue
            maps = set(lst)
            if len(maps) != len(lst):
                rep.violation(rid, key, "a point of the position is listed twice")
                continue
            A0 = np.array(lst[0][0]).reshape(3, 3)
            c0 = np.array(lst[0][1])
            orbit = {(tuple((r @ A0).flatten()), tuple((r @ c0 + tt) % D)) for r, tt in zip(R, t)}
            if orbit != maps:
                rep.violation(rid, key, f"listed points are not the orbit of the first one under the reference group: "
                                        f"{len(orbit - maps)} missing, {len(maps - orbit)} extra "
                                        f"(orbit size {len(orbit)}, listed {len(maps)})")
            else:
                rep.ok(rid, key)


# ----------------------------------------------------------------------------- normalizers
def _norms(T):
    for g, lst in sorted(T["CHIRALITY_PRESERVING_EUCLIDEAN_NORMALIZERS"].items()):
        for i, n in enumerate(lst):
            yield g, i, n


def norm_shape(rep, T, rid):
    for g, i, n in _norms(T):
        key = f"NORMALIZERS[{g}][{i}].shape"
        try:
            P, p, last = normalizer_parts(n)
        except (ValueError, KeyError, TypeError) as e:
            rep.violation(rid, key, str(e))
            continue
        if abs(idet(P)) != 1:
            rep.violation(rid, key, f"rotation part has determinant {idet(P)}")
        elif not last:
            rep.violation(rid, key, "last row is not [0, 0, 0, 1]")
        else:
            rep.ok(rid, key)


def _good_norms(T):
    for g, i, n in _norms(T):
        try:
            P, p, last = normalizer_parts(n)
        except (ValueError, KeyError, TypeError):
            continue
        if abs(idet(P)) != 1 or not (1 <= g <= 230):
            continue
        yield g, i, n, P, p


def norm_conjugation(rep, T, rid):
    for g, i, n, P, p in _good_norms(T):
        key = f"NORMALIZERS[{g}][{i}].conjugation"
        R, t = spgref.ops(g)
        gset = spgref.opset(g)
        Pinv = iinv(P)
        ok = True
        for r, tt in zip(R, t):
            r2 = P @ r @ Pinv
            t2 = (P @ tt + p - r2 @ p) % D
            if (tuple(r2.flatten()), tuple(t2)) not in gset:
                ok = False
                break
        if ok:
            rep.ok(rid, key)
        else:
            rep.violation(rid, key, "N g N^-1 is not an operation of the reference group: not a normalizer "
                                    "of the standard-setting group")


def _metric(g):
    a2, b2, c2 = F(4), F(5), F(7)
    if g <= 2:
        return [[a2, F(1), F(1, 2)], [F(1), b2, F(7, 10)], [F(1, 2), F(7, 10), c2]]
    if g <= 15:
        return [[a2, 0, F(1, 2)], [0, b2, 0], [F(1, 2), 0, c2]]
    if g <= 74:
        return [[a2, 0, 0], [0, b2, 0], [0, 0, c2]]
    if g <= 142:
        return [[a2, 0, 0], [0, a2, 0], [0, 0, c2]]
    if g <= 194:
        return [[a2, -a2 / 2, 0], [-a2 / 2, a2, 0], [0, 0, c2]]
    return [[a2, 0, 0], [0, a2, 0], [0, 0, a2]]


def _mm(A, B):
    return [[sum(A[i][k] * B[k][j] for k in range(3)) for j in range(3)] for i in range(3)]


def norm_metric(rep, T, rid):
    for g, i, n, P, p in _good_norms(T):
        key = f"NORMALIZERS[{g}][{i}].metric"
        G = _metric(g)
        Pf = [[F(int(x)) for x in row] for row in P]
        Pt = [list(r) for r in zip(*Pf)]
        if _mm(_mm(Pt, G), Pf) != G:
            rep.violation(rid, key, "does not preserve a generic metric tensor of the crystal system: not an isometry")
        else:
            rep.ok(rid, key)


def norm_sohncke(rep, T, rid):
    soh = spgref.sohncke()
    rep.count("sohncke_groups", len(soh))
    for g, i, n, P, p in _good_norms(T):
        if g not in soh:
            continue
        key = f"NORMALIZERS[{g}][{i}].handedness"
        if idet(P) != 1:
            rep.violation(rid, key, f"improper normalizer (det -1) tabulated for Sohncke group {g}")
        else:
            rep.ok(rid, key)


# -- induced letter permutation by affine-subspace matching
_grid = np.array(list(itertools.product(range(-2, 3), repeat=3))) * D
_Kc = {}


def _left_null(A):
    k = tuple(A.flatten())
    if k in _Kc:
        return _Kc[k]
    cols = [A[:, j] for j in range(3) if A[:, j].any()]
    r = _rank(A)
    if r == 0:
        K = np.eye(3, dtype=int)
    elif r == 3:
        K = np.zeros((0, 3), int)
    elif r == 2:
        K = None
        for a, b in itertools.combinations(cols, 2):
            c = np.cross(a, b)
            if c.any():
                K = c.reshape(1, 3)
                break
    else:
        a = cols[0]
        out = []
        for e in np.eye(3, dtype=int):
            c = np.cross(a, e)
            if c.any() and (not out or np.linalg.matrix_rank(np.array(out + [c])) > len(out)):
                out.append(c)
            if len(out) == 2:
                break
        K = np.array(out)
    _Kc[k] = K
    return K


_Rc = {}


def _rank(A):
    k = tuple(A.flatten())
    if k not in _Rc:
        _Rc[k] = int(np.linalg.matrix_rank(A))
    return _Rc[k]


def _same_subspace(A1, c1, A2, c2):
    if _rank(A1) != _rank(A2):
        return False
    K2 = _left_null(A2)
    if K2.size and (K2 @ A1).any():
        return False
    if K2.size == 0:
        return True
    d = c1 - c2
    v = (K2 @ d)[:, None] + K2 @ _grid.T
    return bool((v == 0).all(axis=0).any())


def norm_perm(rep, T, rid):
    W = T["WYCKOFF_SETS"]
    for g in sorted(T["CHIRALITY_PRESERVING_EUCLIDEAN_NORMALIZERS"]):
        if g not in W:
            continue
        wg = W[g]
        letters = letters_of(wg)
        try:
            maps = {L: [(np.array(a).reshape(3, 3), np.array(c)) for a, c in _pos_maps(wg, L)] for L in letters}
        except (ValueError, KeyError, TypeError):
            continue       # reported by the orbit obligation
        rank = {L: _rank(maps[L][0][0]) for L in letters}
        for gg, i, n, P, p in [x for x in _good_norms({"CHIRALITY_PRESERVING_EUCLIDEAN_NORMALIZERS": {g: T["CHIRALITY_PRESERVING_EUCLIDEAN_NORMALIZERS"][g]}})]:
            perm = n.get("permutations", {})
            for L in letters:
                key = f"NORMALIZERS[{g}][{i}].permutations[{L!r}]"
                A0, c0 = maps[L][0]
                Ai = P @ A0
                ci = (P @ c0 + p) % D
                found = [L2 for L2 in letters if len(maps[L2]) == len(maps[L]) and rank[L2] == rank[L]
                         and any(_same_subspace(Ai, ci, A2, c2) for A2, c2 in maps[L2])]
                if found == [perm.get(L)]:
                    rep.ok(rid, key)
                else:
                    rep.violation(rid, key, f"tabulated image {perm.get(L)!r}, the transformation maps position "
                                            f"{L!r} onto {found}")


def _polar(g):
    R, _ = spgref.ops(g)
    S = np.vstack([r - np.eye(3, dtype=int) for r in R])
    u, s, vt = np.linalg.svd(S.astype(float))
    rank = int((s > 1e-9).sum())
    return vt[rank:]


def norm_closure(rep, T, rid):
    """identity + tabulated normalizers closed under composition modulo the group and modulo
    continuous translations along invariant (polar) directions"""
    N = T["CHIRALITY_PRESERVING_EUCLIDEAN_NORMALIZERS"]
    for g in range(1, 231):
        key = f"NORMALIZERS[{g}].closure"
        R, t = spgref.ops(g)
        polar = _polar(g)
        byrot = {}
        for r, tt in zip(R, t):
            byrot.setdefault(tuple(r.flatten()), []).append(tt)

        def in_group_mod_polar(Rm, tm):
            for tt in byrot.get(tuple(Rm.flatten()), ()):
                d = (tm - tt) % D
                for nn in itertools.product((0, -D), repeat=3):
                    v = (d + np.array(nn)).astype(float)
                    if len(polar) == 0:
                        if not v.any():
                            return True
                    else:
                        res = v - polar.T @ (polar @ v)
                        if np.abs(res).max() < 1e-9:
                            return True
            return False
        lst = [(np.eye(3, dtype=int), np.zeros(3, int))]
        for gg, i, n, P, p in [x for x in _good_norms({"CHIRALITY_PRESERVING_EUCLIDEAN_NORMALIZERS": {g: N.get(g, [])}})]:
            lst.append((P, p))
        invs = [iinv(P3) for P3, _ in lst]
        bad = None
        for (P1, p1), (P2, p2) in itertools.product(lst, repeat=2):
            P = P1 @ P2
            p = P1 @ p2 + p1
            ok = False
            for (P3, p3), P3i in zip(lst, invs):
                Rm = P3i @ P
                tm = P3i @ (p - p3)
                if in_group_mod_polar(Rm, tm % D):
                    ok = True
                    break
            if not ok:
                bad = (P.tolist(), (p % D).tolist())
                break
        if bad:
            rep.violation(rid, key, f"composition with rotation {bad[0]} translation*24 {bad[1]} is not in "
                                    f"(identity + tabulated normalizers) x group: a coset is missing, so two "
                                    f"presentations of one crystal get different normal forms")
        else:
            rep.ok(rid, key)


# ----------------------------------------------------------------------------- letters against the reference assignment
def _lattice(g):
    """a generic lattice (rows = basis vectors) of the crystal system in the standard setting: Cholesky factor of _metric"""
    G = np.array([[float(x) for x in row] for row in _metric(g)])
    return np.linalg.cholesky(G).T.T          # rows a, b, c with a_i . a_j = G_ij


def _points(maps, v):
    return np.array([(np.array(a).reshape(3, 3) @ v + np.array(c) / D) % 1.0 for a, c in maps])


def _on_position(maps, p):
    """does the fractional point p lie on one of the affine images (A v + c, v free) modulo lattice translations?"""
    for a, c in maps:
        A = np.array(a, float).reshape(3, 3)
        pinv = np.linalg.pinv(A)
        tg = p - np.array(c) / D + _grid / D
        res = (tg @ pinv.T) @ A.T - tg
        if np.abs(res).max(axis=1).min() < 1e-5:
            return True
    return False


def letter_reference(rep, T, rid):
    """every tabulated position carries the letter that spglib's Wyckoff database gives to a probe orbit placed on it.

    The probes are built from the literal table alone (two general orbits pin group and origin, one orbit on the probed
    position, all with generic parameters on a generic lattice); only spglib's symmetry finder is evaluated on them -
    no matid code runs."""
    import spglib
    W = T["WYCKOFF_SETS"]
    vg = [np.array([0.1234, 0.2717, 0.3391]), np.array([0.4183, 0.0629, 0.1957])]
    vp = np.array([0.0871, 0.1913, 0.2789])

    def field(d, k):
        return d[k] if isinstance(d, dict) else getattr(d, k)
    moved = 0
    for g in range(1, 231):
        wg = W.get(g, {})
        if "translations" not in wg:
            continue
        try:
            maps = {L: _pos_maps(wg, L) for L in letters_of(wg)}
        except (ValueError, KeyError, TypeError):
            continue        # reported by the orbit obligation
        gen = max(maps, key=lambda L: (len(maps[L]), L))
        cell = _lattice(g)
        base = np.concatenate([_points(maps[gen], v) for v in vg])
        bnum = [1] * len(maps[gen]) + [2] * len(maps[gen])
        for L in maps:
            key = f"WYCKOFF_SETS[{g}][{L!r}].letter"
            probe = _points(maps[L], vp)
            pos = np.concatenate([base, probe])
            num = np.array(bnum + [3] * len(probe))
            ds = spglib.get_symmetry_dataset((cell, pos, num), symprec=1e-5)
            number = field(ds, "number") if ds is not None else None
            if number != g:
                rep.violation(rid, key, f"a probe orbit on this position (plus two general orbits) is a crystal of group {number}, not {g}")
                continue
            got = {str(w) for w in np.array(field(ds, "wyckoffs"))[num == 3]}
            P, sh = np.array(field(ds, "transformation_matrix")), np.array(field(ds, "origin_shift"))
            if np.allclose(P, np.eye(3), atol=1e-5) and np.allclose(sh, np.round(sh), atol=1e-5):
                ok = got == {L}
            else:
                # spglib describes the probe with another origin / axes: compare in its coordinates
                moved += 1
                ok = len(got) == 1 and next(iter(got)) in maps and _on_position(maps[next(iter(got))], P @ probe[0] + sh)
            if ok:
                rep.ok(rid, key)
            else:
                rep.violation(rid, key, f"atoms placed on the position tabulated as {L!r} ({wg[L]['expressions'][0] if 'expressions' in wg[L] else ''}) "
                                        f"are on position {sorted(got)} of the reference Wyckoff database: the letter is wrong, so the "
                                        "analyzer (which takes the letter from spglib and the coordinates from this table) pairs atoms with "
                                        "the expressions of another position")
    rep.count("probes_described_in_a_moved_setting", moved)
