"""Call / return-shape conformance of every resolved intra-repo call (rule F4 of DESIGN.md)."""
import ast

from .model import norm


def check_call(M, fq, call, callee):
    """list of error strings for calling `callee` the way `call` does"""
    fn = M.defs[callee]
    a = fn.args
    params = [x.arg for x in a.posonlyargs + a.args]
    is_method = (M.enclosing_class(callee) == M.parent.get(callee) and params and params[0] in ("self", "cls")
                 and "staticmethod" not in [ast.unparse(d) for d in fn.decorator_list])
    bound_self = False
    if is_method:
        # Class.method(obj, ...) passes self explicitly; obj.method(...) / Class(...) bind it
        r = M.resolve(fq, call.func.value) if isinstance(call.func, ast.Attribute) else None
        explicit = isinstance(r, str) and isinstance(M.defs.get(r), ast.ClassDef) and not callee.endswith("__init__")
        if not explicit:
            params = params[1:]
            bound_self = True
    ndefault = len(a.defaults)
    nreq = len(a.posonlyargs + a.args) - ndefault - (1 if bound_self else 0)
    if any(isinstance(x, ast.Starred) for x in call.args) or any(k.arg is None for k in call.keywords):
        star = True
    else:
        star = False
    npos = len([x for x in call.args if not isinstance(x, ast.Starred)])
    kws = [k.arg for k in call.keywords if k.arg is not None]
    kwonly = [x.arg for x in a.kwonlyargs]
    errs = []
    if npos > len(params) and not a.vararg:
        errs.append(f"{npos} positional argument(s) given, {fn.name}() takes {len(params)}")
    for k in kws:
        if k not in params and k not in kwonly and not a.kwarg:
            errs.append(f"unexpected keyword argument {k!r}")
        if k in params[:npos]:
            errs.append(f"multiple values for argument {k!r}")
    if not star:
        for i, p in enumerate(params[:max(nreq, 0)]):
            if i >= npos and p not in kws:
                errs.append(f"missing required argument {p!r}")
        for x, dflt in zip(a.kwonlyargs, a.kw_defaults):
            if dflt is None and x.arg not in kws:
                errs.append(f"missing required keyword-only argument {x.arg!r}")
    # cross-binding: a variable named like one parameter of the callee is bound to a different parameter
    if not errs:
        ps = M.params(callee)
        for p, a in M.bind_args(callee, call).items():
            if isinstance(a, ast.Name) and a.id != p and a.id in ps:
                other = M.bind_args(callee, call).get(a.id)
                errs.append(f"argument `{a.id}` is bound to parameter `{p}` although the callee has a parameter `{a.id}`"
                            + (f" (which receives `{norm(other)}`)" if other is not None else "") + ": swapped arguments")
    return errs


def run(rep, M, rid, scope=None):
    """scope: optional set of caller function quals; default = every function of the repo"""
    M.callgraph()
    n = res = 0
    for fq, sites in M.call_sites.items():
        if scope is not None and fq not in scope:
            continue
        for call, callees in sites:
            n += 1
            for callee in callees:
                res += 1
                errs = check_call(M, fq, call, callee)
                construct = f"{fq.replace('matid.', '')} -> {callee.replace('matid.', '')}: {norm(call)[:70]}"
                if errs:
                    kind = "swapped arguments: " if any("swapped" in e for e in errs) else "TypeError on every execution of this call: "
                    rep.violation(rid, construct, kind + "; ".join(errs),
                                  M.where(fq, call))
                else:
                    rep.ok(rid, construct)
    # return-shape conformance: `a, b, c = f(...)` needs every return of f to yield that many values
    nu = 0
    for fq, sites in M.call_sites.items():
        if scope is not None and fq not in scope:
            continue
        fn = M.defs.get(fq)
        if fn is None:
            continue
        site_of = {id(call): callees for call, callees in sites}
        for st in ast.walk(fn):
            if not (isinstance(st, ast.Assign) and len(st.targets) == 1 and isinstance(st.targets[0], (ast.Tuple, ast.List))
                    and isinstance(st.value, ast.Call) and id(st.value) in site_of):
                continue
            tgt = st.targets[0]
            if any(isinstance(e, ast.Starred) for e in tgt.elts):
                continue
            want = len(tgt.elts)
            for callee in site_of[id(st.value)]:
                cd = M.defs.get(callee)
                if not isinstance(cd, ast.FunctionDef):
                    continue
                own = [r for r in M.own_nodes(callee) if isinstance(r, ast.Return) and r.value is not None]
                tups = [r for r in own if isinstance(r.value, ast.Tuple) and not any(isinstance(e, ast.Starred) for e in r.value.elts)]
                if not tups or len(tups) != len(own):
                    continue        # a non-literal return: the shape is a run-time matter (the flag-dependent wrappers have their own rule)
                nu += 1
                bad = [r for r in tups if len(r.value.elts) != want]
                construct = f"{fq.replace('matid.', '')}: `{norm(tgt)[:50]} = {callee.split('.')[-1]}(...)`"
                if bad:
                    rep.violation(rid, construct, f"unpacks {want} values but `{norm(bad[0])[:60]}` (line {bad[0].lineno}) returns {len(bad[0].value.elts)}: "
                                  "ValueError (not enough / too many values to unpack) whenever that return is taken", M.where(callee, bad[0]))
                else:
                    rep.ok(rid, construct + f" [{len(tups)} return(s) of {want} values]")
    rep.count("tuple_unpacking_call_sites", nu)
    rep.count("call_expressions", n)
    rep.count("calls_resolved_to_repo_definitions", res)
    return res
