"""Call / return-shape conformance of every resolved intra-repo call (rule F4 of DESIGN.md)."""
import ast

from .model import norm


def check_call(M, fq, call, callee):
    """list of error strings for calling `callee` the way `call` does"""
    fn = M.defs[callee]
    a = fn.args
    params = [x.arg for x in a.posonlyargs + a.args]
    is_method = (M.enclosing_class(callee) == M.parent.get(callee) and params and params[0] in ("self", "cls")
                 and "staticmethod" not in [ast.unparse(d) for d in fn.decorator_list])
    bound_self = False
    if is_method:
        # Class.method(obj, ...) passes self explicitly; obj.method(...) / Class(...) bind it
        r = M.resolve(fq, call.func.value) if isinstance(call.func, ast.Attribute) else None
        explicit = isinstance(r, str) and isinstance(M.defs.get(r), ast.ClassDef) and not callee.endswith("__init__")
        if not explicit:
            params = params[1:]
            bound_self = True
    ndefault = len(a.defaults)
    nreq = len(a.posonlyargs + a.args) - ndefault - (1 if bound_self else 0)
    if any(isinstance(x, ast.Starred) for x in call.args) or any(k.arg is None for k in call.keywords):
        star = True
    else:
        star = False
    npos = len([x for x in call.args if not isinstance(x, ast.Starred)])
    kws = [k.arg for k in call.keywords if k.arg is not None]
    kwonly = [x.arg for x in a.kwonlyargs]
    errs = []
    if npos > len(params) and not a.vararg:
        errs.append(f"{npos} positional argument(s) given, {fn.name}() takes {len(params)}")
    for k in kws:
        if k not in params and k not in kwonly and not a.kwarg:
            errs.append(f"unexpected keyword argument {k!r}")
        if k in params[:npos]:
            errs.append(f"multiple values for argument {k!r}")
    if not star:
        for i, p in enumerate(params[:max(nreq, 0)]):
            if i >= npos and p not in kws:
                errs.append(f"missing required argument {p!r}")
        for x, dflt in zip(a.kwonlyargs, a.kw_defaults):
            if dflt is None and x.arg not in kws:
                errs.append(f"missing required keyword-only argument {x.arg!r}")
    # cross-binding: a variable named like one parameter of the callee is bound to a different parameter
    if not errs:
        ps = M.params(callee)
        for p, a in M.bind_args(callee, call).items():
            if isinstance(a, ast.Name) and a.id != p and a.id in ps:
                other = M.bind_args(callee, call).get(a.id)
                errs.append(f"argument `{a.id}` is bound to parameter `{p}` although the callee has a parameter `{a.id}`"
                            + (f" (which receives `{norm(other)}`)" if other is not None else "") + ": swapped arguments")
    # kind conformance: a structure (an object the callee calls .get_*() / .wrap() / .copy() on) and a number or index are not interchangeable,
    # nor are a cell matrix and a position array
    if not errs:
        pk = _param_kinds(M, callee)
        for p, a in M.bind_args(callee, call).items():
            ak = _arg_kind(M, fq, a)
            if pk.get(p) and ak and pk[p] != ak and {pk[p], ak} in ({"ATOMS", "NUMBER"}, {"CELL", "POSITIONS"}, {"ATOMS", "CELL"}, {"ATOMS", "POSITIONS"}):
                errs.append(f"parameter `{p}` is used as {_KIND_TEXT[pk[p]]} by {fn.name}() but receives `{norm(a)[:40]}`, {_KIND_TEXT[ak]}: swapped arguments")
    return errs


_KIND_TEXT = {"ATOMS": "a structure (methods get_* / wrap / copy are called on it)", "NUMBER": "a number or index", "CELL": "a cell matrix", "POSITIONS": "an array of positions"}
_ATOMS_METHODS = ("get_positions", "get_cell", "get_pbc", "get_atomic_numbers", "get_scaled_positions", "wrap", "get_chemical_symbols", "set_cell", "set_pbc", "repeat")


def _param_kinds(M, callee):
    fn = M.defs[callee]
    out = {}
    for p in M.params(callee):
        uses = [x for x in ast.walk(fn) if isinstance(x, ast.Attribute) and isinstance(x.value, ast.Name) and x.value.id == p]
        if any(u.attr in _ATOMS_METHODS for u in uses):
            out[p] = "ATOMS"
        elif p in ("cell",) or p.endswith("_cell") and not uses:
            out[p] = "CELL"
        elif p in ("positions", "scaled_positions", "pos", "cartesian_pos", "relative_pos", "rel_pos", "scaled_pos"):
            out[p] = "POSITIONS"
        elif p in ("axis", "threshold", "cluster_threshold", "bond_threshold", "cutoff", "min_size", "length", "tolerance", "pos_tol", "max_cell_size"):
            out[p] = "NUMBER"
    return out


def _arg_kind(M, fq, a):
    fn = M.defs.get(fq)
    if fn is None:
        return None
    if isinstance(a, ast.Constant) and isinstance(a.value, (int, float)) and not isinstance(a.value, bool):
        return "NUMBER"
    if isinstance(a, ast.Attribute) and isinstance(a.value, ast.Name) and a.value.id == "self" and any(t in a.attr for t in ("threshold", "_tol", "tol_", "size", "cutoff", "coverage")):
        return "NUMBER"
    if isinstance(a, ast.Name):
        nm = a.id
        if any(isinstance(x, ast.Attribute) and isinstance(x.value, ast.Name) and x.value.id == nm and x.attr in _ATOMS_METHODS for x in ast.walk(fn)):
            return "ATOMS"
        for lp in ast.walk(fn):
            if isinstance(lp, ast.For) and isinstance(lp.iter, ast.Call) and isinstance(lp.iter.func, ast.Name) and lp.iter.func.id == "range" \
                    and any(isinstance(x, ast.Name) and x.id == nm for x in ast.walk(lp.target)):
                return "NUMBER"
            if isinstance(lp, (ast.ListComp, ast.GeneratorExp)):
                for g in lp.generators:
                    if isinstance(g.iter, ast.Call) and isinstance(g.iter.func, ast.Name) and g.iter.func.id == "range" and any(isinstance(x, ast.Name) and x.id == nm for x in ast.walk(g.target)):
                        return "NUMBER"
        defs = [s.value for s in ast.walk(fn) if isinstance(s, ast.Assign) and len(s.targets) == 1 and isinstance(s.targets[0], ast.Name) and s.targets[0].id == nm]
        if defs and all(isinstance(v, ast.Call) and isinstance(v.func, ast.Attribute) and v.func.attr == "get_cell" for v in defs):
            return "CELL"
        if defs and all(isinstance(v, ast.Call) and isinstance(v.func, ast.Attribute) and v.func.attr in ("get_positions", "get_scaled_positions") for v in defs):
            return "POSITIONS"
        if defs and all(isinstance(v, ast.Constant) and isinstance(v.value, (int, float)) and not isinstance(v.value, bool) for v in defs):
            return "NUMBER"
    return None


def run(rep, M, rid, scope=None):
    """scope: optional set of caller function quals; default = every function of the repo"""
    M.callgraph()
    n = res = 0
    for fq, sites in M.call_sites.items():
        if scope is not None and fq not in scope:
            continue
        for call, callees in sites:
            n += 1
            for callee in callees:
                res += 1
                errs = check_call(M, fq, call, callee)
                construct = f"{fq.replace('matid.', '')} -> {callee.replace('matid.', '')}: {norm(call)[:70]}"
                if errs:
                    kind = "swapped arguments: " if any("swapped" in e for e in errs) else "TypeError on every execution of this call: "
                    rep.violation(rid, construct, kind + "; ".join(errs),
                                  M.where(fq, call))
                else:
                    rep.ok(rid, construct)
    # return-shape conformance: `a, b, c = f(...)` needs every return of f to yield that many values
    nu = 0
    for fq, sites in M.call_sites.items():
        if scope is not None and fq not in scope:
            continue
        fn = M.defs.get(fq)
        if fn is None:
            continue
        site_of = {id(call): callees for call, callees in sites}
        for st in ast.walk(fn):
            if not (isinstance(st, ast.Assign) and len(st.targets) == 1 and isinstance(st.targets[0], (ast.Tuple, ast.List))
                    and isinstance(st.value, ast.Call) and id(st.value) in site_of):
                continue
            tgt = st.targets[0]
            if any(isinstance(e, ast.Starred) for e in tgt.elts):
                continue
            want = len(tgt.elts)
            for callee in site_of[id(st.value)]:
                cd = M.defs.get(callee)
                if not isinstance(cd, ast.FunctionDef):
                    continue
                own = [r for r in M.own_nodes(callee) if isinstance(r, ast.Return) and r.value is not None]
                tups = [r for r in own if isinstance(r.value, ast.Tuple) and not any(isinstance(e, ast.Starred) for e in r.value.elts)]
                if not tups or len(tups) != len(own):
                    continue        # a non-literal return: the shape is a run-time matter (the flag-dependent wrappers have their own rule)
                nu += 1
                bad = [r for r in tups if len(r.value.elts) != want]
                construct = f"{fq.replace('matid.', '')}: `{norm(tgt)[:50]} = {callee.split('.')[-1]}(...)`"
                if bad:
                    rep.violation(rid, construct, f"unpacks {want} values but `{norm(bad[0])[:60]}` (line {bad[0].lineno}) returns {len(bad[0].value.elts)}: "
                                  "ValueError (not enough / too many values to unpack) whenever that return is taken", M.where(callee, bad[0]))
                else:
                    rep.ok(rid, construct + f" [{len(tups)} return(s) of {want} values]")
    rep.count("tuple_unpacking_call_sites", nu)
    rep.count("call_expressions", n)
    rep.count("calls_resolved_to_repo_definitions", res)
    return res
