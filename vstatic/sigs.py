"""Call / return-shape conformance of every resolved intra-repo call (rule F4 of DESIGN.md)."""
import ast

from .model import norm


def check_call(M, fq, call, callee):
    """list of error strings for calling `callee` the way `call` does"""
    fn = M.defs[callee]
    a = fn.args
    params = [x.arg for x in a.posonlyargs + a.args]
    is_method = (M.enclosing_class(callee) == M.parent.get(callee) and params and params[0] in ("self", "cls")
                 and "staticmethod" not in [ast.unparse(d) for d in fn.decorator_list])
    bound_self = False
    if is_method:
        # Class.method(obj, ...) passes self explicitly; obj.method(...) / Class(...) bind it
        r = M.resolve(fq, call.func.value) if isinstance(call.func, ast.Attribute) else None
        explicit = isinstance(r, str) and isinstance(M.defs.get(r), ast.ClassDef) and not callee.endswith("__init__")
        if not explicit:
            params = params[1:]
            bound_self = True
    ndefault = len(a.defaults)
    nreq = len(a.posonlyargs + a.args) - ndefault - (1 if bound_self else 0)
    if any(isinstance(x, ast.Starred) for x in call.args) or any(k.arg is None for k in call.keywords):
        star = True
    else:
        star = False
    npos = len([x for x in call.args if not isinstance(x, ast.Starred)])
    kws = [k.arg for k in call.keywords if k.arg is not None]
    kwonly = [x.arg for x in a.kwonlyargs]
    errs = []
    if npos > len(params) and not a.vararg:
        errs.append(f"{npos} positional argument(s) given, {fn.name}() takes {len(params)}")
    for k in kws:
        if k not in params and k not in kwonly and not a.kwarg:
            errs.append(f"unexpected keyword argument {k!r}")
        if k in params[:npos]:
            errs.append(f"multiple values for argument {k!r}")
    if not star:
        for i, p in enumerate(params[:max(nreq, 0)]):
            if i >= npos and p not in kws:
                errs.append(f"missing required argument {p!r}")
        for x, dflt in zip(a.kwonlyargs, a.kw_defaults):
            if dflt is None and x.arg not in kws:
                errs.append(f"missing required keyword-only argument {x.arg!r}")
    # cross-binding: a variable named like one parameter of the callee is bound to a different parameter
    if not errs:
        ps = M.params(callee)
        for p, a in M.bind_args(callee, call).items():
            if isinstance(a, ast.Name) and a.id != p and a.id in ps:
                other = M.bind_args(callee, call).get(a.id)
                errs.append(f"argument `{a.id}` is bound to parameter `{p}` although the callee has a parameter `{a.id}`"
                            + (f" (which receives `{norm(other)}`)" if other is not None else "") + ": swapped arguments")
    return errs


def run(rep, M, rid, scope=None):
    """scope: optional set of caller function quals; default = every function of the repo"""
    M.callgraph()
    n = res = 0
    for fq, sites in M.call_sites.items():
        if scope is not None and fq not in scope:
            continue
        for call, callees in sites:
            n += 1
            for callee in callees:
                res += 1
                errs = check_call(M, fq, call, callee)
                construct = f"{fq.replace('matid.', '')} -> {callee.replace('matid.', '')}: {norm(call)[:70]}"
                if errs:
                    kind = "swapped arguments: " if any("swapped" in e for e in errs) else "TypeError on every execution of this call: "
                    rep.violation(rid, construct, kind + "; ".join(errs),
                                  M.where(fq, call))
                else:
                    rep.ok(rid, construct)
    rep.count("call_expressions", n)
    rep.count("calls_resolved_to_repo_definitions", res)
    return res
