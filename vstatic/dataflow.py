"""Intraprocedural def-use on the CFG: backward slices ("where can this value come from")."""
import ast

from .cfg import CFG, defs_of_stmt, own_exprs, target_names, walk_own
from .report import AnalysisError

CONTAINER_MUTATORS = {"append", "extend", "update", "add", "insert", "remove", "discard", "pop", "sort",
                      "setdefault", "clear", "fill"}


class Flow:
    def __init__(self, fn):
        self.fn = fn
        self.cfg = CFG(fn)
        self.rd = self.cfg.reaching_defs()
        self.params = [a.arg for a in fn.args.posonlyargs + fn.args.args + fn.args.kwonlyargs]
        # container mutations: var -> [node]
        self.mut_sites = {}
        for n, d in self.cfg.g.nodes(data=True):
            s = d["ast"]
            if s is None:
                continue
            for sub in walk_own(s):
                if (isinstance(sub, ast.Call) and isinstance(sub.func, ast.Attribute)
                        and sub.func.attr in CONTAINER_MUTATORS and isinstance(sub.func.value, ast.Name)):
                    self.mut_sites.setdefault(sub.func.value.id, []).append((n, sub))
            # subscript / attribute stores: x[i] = e, x.a = e  contribute to x
            tgts = []
            if isinstance(s, ast.Assign):
                tgts = s.targets
            elif isinstance(s, ast.AugAssign):
                tgts = [s.target]
            for t in tgts:
                base = t
                while isinstance(base, (ast.Subscript, ast.Attribute)):
                    base = base.value
                if base is not t and isinstance(base, ast.Name):
                    self.mut_sites.setdefault(base.id, []).append((n, s))

    def node_of(self, stmt_or_expr):
        """CFG node whose statement contains the given AST node"""
        i = self.cfg.node_of.get(id(stmt_or_expr))
        if i is not None:
            return i
        for n, d in self.cfg.g.nodes(data=True):
            s = d["ast"]
            if s is None:
                continue
            for sub in walk_own(s):
                if sub is stmt_or_expr:
                    return n
        raise AnalysisError("expression not found in CFG")

    def def_value(self, defnode, var):
        """expressions whose value flows into `var` at definition node `defnode`"""
        if defnode == self.cfg.entry:
            return [("param", var)]
        s = self.cfg.stmt(defnode)
        out = []
        if isinstance(s, ast.Assign):
            for t in s.targets:
                if isinstance(t, ast.Name) and t.id == var:
                    out.append(("expr", s.value))
                elif isinstance(t, (ast.Tuple, ast.List)) and var in target_names(t):
                    if isinstance(s.value, (ast.Tuple, ast.List)) and len(s.value.elts) == len(t.elts):
                        for te, ve in zip(t.elts, s.value.elts):
                            if var in target_names(te):
                                out.append(("expr", ve))
                    else:
                        idx = [i for i, te in enumerate(t.elts) if var in target_names(te)]
                        out.append(("unpack", s.value, idx[0] if idx else None))
        elif isinstance(s, ast.AugAssign):
            out.append(("expr", s.value))
            out.append(("prev", var))
        elif isinstance(s, ast.AnnAssign) and s.value is not None:
            out.append(("expr", s.value))
        elif isinstance(s, ast.For):
            out.append(("iter", s.iter))
        elif isinstance(s, ast.With):
            for i in s.items:
                out.append(("expr", i.context_expr))
        else:
            for sub in walk_own(s):
                if isinstance(sub, ast.NamedExpr) and var in target_names(sub.target):
                    out.append(("expr", sub.value))
        return out

    def slice(self, expr, at, follow_mutations=True, max_steps=400):
        """backward slice of `expr` evaluated at CFG node `at`.
        Returns dict with: params (set of names), exprs (list of contributing expression nodes,
        expr itself first), names (free names not defined in the function: globals/closures)"""
        res = {"params": set(), "exprs": [], "names": set(), "defs": set()}
        seen = set()
        work = [(expr, at)]
        steps = 0
        while work:
            e, n = work.pop()
            steps += 1
            if steps > max_steps:
                break
            res["exprs"].append(e)
            bound = set()
            for sub in ast.walk(e):
                if isinstance(sub, (ast.ListComp, ast.SetComp, ast.GeneratorExp, ast.DictComp)):
                    for g in sub.generators:
                        bound |= set(target_names(g.target))
                if isinstance(sub, ast.Lambda):
                    bound |= {a.arg for a in sub.args.args}
            for sub in ast.walk(e):
                if isinstance(sub, ast.Name) and isinstance(sub.ctx, ast.Load) and sub.id not in bound:
                    self._follow(sub.id, n, res, seen, work, follow_mutations)
        return res

    def _follow(self, var, n, res, seen, work, follow_mutations):
        defs = self.rd[n].get(var)
        if not defs:
            res["names"].add(var)
            return
        for d in defs:
            if (var, d) in seen:
                continue
            seen.add((var, d))
            res["defs"].add((var, d))
            for kind, *rest in self.def_value(d, var):
                if kind == "param":
                    res["params"].add(var)
                elif kind in ("expr", "iter", "unpack"):
                    work.append((rest[0], d))
                elif kind == "prev":
                    self._follow(var, d, res, seen, work, follow_mutations)
        if follow_mutations:
            for m, site in self.mut_sites.get(var, []):
                if ("mut", var, m) in seen:
                    continue
                if m == n or self.cfg.reaches(m, n):
                    seen.add(("mut", var, m))
                    if isinstance(site, ast.Call):
                        for a in site.args:
                            work.append((a, m))
                        for k in site.keywords:
                            work.append((k.value, m))
                    else:
                        work.append((site.value, m))
                        tgts = site.targets if isinstance(site, ast.Assign) else [site.target]
                        for t in tgts:
                            while isinstance(t, (ast.Subscript, ast.Attribute)):
                                if isinstance(t, ast.Subscript):
                                    work.append((t.slice, m))
                                t = t.value

    # convenience ------------------------------------------------------------
    def depends_on_param(self, expr, at, param):
        return param in self.slice(expr, at)["params"]

    def calls_in_slice(self, expr, at):
        out = []
        for e in self.slice(expr, at)["exprs"]:
            for sub in ast.walk(e):
                if isinstance(sub, ast.Call):
                    out.append(sub)
        return out

    def attrs_in_slice(self, expr, at):
        out = []
        for e in self.slice(expr, at)["exprs"]:
            for sub in ast.walk(e):
                if isinstance(sub, ast.Attribute):
                    out.append(sub)
        return out


def arg_of(call, fn_params, name, pos=None):
    """expression bound to parameter `name` of callee with positional params `fn_params` at `call`"""
    for k in call.keywords:
        if k.arg == name:
            return k.value
    if name in fn_params:
        i = fn_params.index(name)
        if i < len(call.args) and not any(isinstance(a, ast.Starred) for a in call.args[: i + 1]):
            return call.args[i]
    elif pos is not None and pos < len(call.args):
        return call.args[pos]
    return None


def entry_roots(M, fq, expr, at=None, depth=0, seen=None):
    """where can the value of `expr` (in function fq) come from, followed up the call graph:
    -> set of (function qual, parameter name) for parameters of functions without repo callers (entry points),
       plus ("<const>", repr) for literals and ("<expr>", text) for anything else that is not a parameter"""
    seen = seen if seen is not None else set()
    key = (fq, ast.dump(expr))
    if key in seen or depth > 6:
        return set()
    seen.add(key)
    fn = M.defs[fq]
    fl = Flow(fn)
    if at is None:
        at = fl.node_of(expr)
    sl = fl.slice(expr, at, follow_mutations=False)
    out = set()
    if isinstance(expr, ast.Constant):
        out.add(("<const>", repr(expr.value)))
    params = set(sl["params"])
    # closure variables of a nested function
    parent = M.parent.get(fq)
    for nm in sl["names"]:
        if parent in M.defs and isinstance(M.defs[parent], (ast.FunctionDef, ast.AsyncFunctionDef)):
            pps = [a.arg for a in M.defs[parent].args.posonlyargs + M.defs[parent].args.args + M.defs[parent].args.kwonlyargs]
            if nm in pps:
                out |= _param_roots(M, parent, nm, depth, seen)
    for p in params:
        if p == "self":
            continue
        out |= _param_roots(M, fq, p, depth, seen)
    for e in sl["exprs"]:
        for x in ast.walk(e):
            if isinstance(x, ast.Constant) and e is expr and isinstance(expr, ast.Constant):
                pass
            if isinstance(x, ast.Attribute):
                out.add(("<attr>", ast.unparse(x)))
    return out


def _param_roots(M, fq, p, depth, seen):
    M.callgraph()
    sites = [(cfq, call) for cfq, lst in M.call_sites.items() for call, cs in lst if fq in cs]
    if not sites:
        return {(fq, p)}
    out = set()
    for cfq, call in sites:
        b = M.bind_args(fq, call)
        if p in b:
            out |= entry_roots(M, cfq, b[p], None, depth + 1, seen)
        else:
            out.add(("<default>", f"{fq}:{p}"))
    return out
