import argparse
import ast
import importlib
import json
import os
import sys
import traceback

from .report import AnalysisError, Report

CLAIMED = ["C01", "C02", "C03", "C04", "C05", "C06", "C07", "C08", "C09", "C10", "C11", "C12", "C13", "C14", "C15", "C16", "C17", "C18",
           "C19", "C20"]


class Ctx:
    """lazily built shared engines"""

    def __init__(self, tier):
        self.tier = tier
        self._model = None
        self._tables = None

    @property
    def model(self):
        if self._model is None:
            from .model import Model
            self._model = Model()
        return self._model

    @property
    def tables(self):
        if self._tables is None:
            from . import tables
            self._tables = tables.load()
        return self._tables

    @property
    def thorough(self):
        return self.tier == "thorough"


def selfvalidate(rep, pid):
    """thorough tier: every rule of this property must fire on its broken variants and stay silent on its twins"""
    import concurrent.futures as cf
    from . import selftest
    vs = [v for v in selftest.load_variants() if v["pid"] == pid]
    # whole-package twins: every check must stay silent when all locals are respelled
    vs.append(dict(pid=pid, name="twin: every local variable renamed (suffix _r)", expect="silent", edits=[], tier="quick", mentions=None, transform="rename_locals"))
    vs.append(dict(pid=pid, name="twin: every local variable renamed (prefix tmp_)", expect="silent", edits=[], tier="quick", mentions=None, transform="rename_locals",
                   suffix="", prefix="tmp_"))
    for kind, what in (("flip_comparisons", "every comparison written the other way round (a < b as b > a)"), ("matmul_operator", "np.dot(a, b) written a @ b"),
                       ("swap_branches", "every if/else written with the negated test and swapped branches"),
                       ("numpy_alias", "numpy imported under another alias"),
                       ("return_temp", "every `return <expr>` written `ret_value = <expr>; return ret_value`"),
                       ("len_tests", "emptiness tests respelled (len(x) != 0 as len(x) > 0, == 0 as < 1, > 0 as >= 1)"),
                       ("nest_and", "every `if a and b:` without else written as nested ifs"),
                       ("else_after_return", "code after `if c: ...return/raise/continue/break` moved into an else branch"),
                       ("module_alias", "package modules bound under other names (import matid.geometry as mgeom; constants as consts)"),
                       ("keyword_arguments", "every positional argument of a package function / method / constructor call passed by keyword"),
                       ("swap_independent", "adjacent independent simple assignments exchanged"),
                       ("annotated_assignments", "every assignment of a local name written with an annotation (x: object = E)"),
                       ("inserted_pass", "a `pass` inserted after every statement of every function"),
                       ("hoisted_calls", "call arguments that are calls computed into temporaries first (h = g(x); y = f(h))"),
                       ("inlined_temporaries", "call-free single-use temporaries written into the statement that follows them"),
                       ("split_chains", "chained comparisons written as conjunctions (a <= x <= b as a <= x and x <= b)"),
                       ("ternaries", "if/else assigning one name on both sides written as a conditional expression, and conditional expressions as if/else"),
                       ("reordered_definitions", "consecutive function definitions of every class and module written in reverse order"),
                       ("unpacked_calls", "tuple results unpacked through a temporary (u = f(); a = u[0]; b = u[1])"),
                       ("guard_clauses", "loop / function bodies ending in `if c: BODY` written with a guard clause (if not c: continue / return; BODY)"),
                       ("explicit_defaults", "calls of package functions pass the constant defaults they relied on explicitly"),
                       ("not_compare", "a != b written not a == b (likewise not in / is not)")):
        vs.append(dict(pid=pid, name=f"twin: {what}", expect="silent", edits=[], tier="quick", mentions=None, transform=kind))
    with cf.ThreadPoolExecutor(min(16, os.cpu_count() or 4)) as ex:
        res = list(ex.map(selftest.run_variant, vs))
    bad = [r for r in res if not r["ok"]]
    rep.analysed["selfvalidation_variants"] = len(res)
    rep.analysed["selfvalidation_broken_variants_detected"] = sum(1 for r in res if r["ok"] and r["expect"] != "silent")
    rep.analysed["selfvalidation_twins_silent"] = sum(1 for r in res if r["ok"] and r["expect"] == "silent")
    for r in bad:
        rep.error(f"rule self-validation: variant '{r['name']}' expected {r['expect']}, got {r['got']}")
    print(f"[{pid}] self-validation: {len(res)} variants, {len(bad)} wrong")
    # independently seeded breaking changes kept under /verif/seeded (produced by sub-agents that saw only the property text)
    import glob
    from .report import VERIF
    seeds = sorted(glob.glob(os.path.join(VERIF, "seeded", f"{pid}-*", "")))
    if seeds:
        with cf.ThreadPoolExecutor(min(16, os.cpu_count() or 4)) as ex:
            sres = list(ex.map(selftest.run_seed, seeds))
        rep.analysed["seeded_changes"] = len(sres)
        rep.analysed["seeded_changes_detected"] = sum(1 for r in sres if r["ok"] is True)
        rep.analysed["seeded_changes_stale"] = sum(1 for r in sres if r["ok"] is None)
        rep.analysed["seeded_changes_declined_numeric"] = sum(1 for r in sres if r["ok"] == "declined")
        for r in sres:
            if r["ok"] is False:
                rep.error(f"seeded change {r['name']} is not detected by the check of its property ({r['got']})")
            elif r["ok"] is None or r["ok"] == "declined":
                rep.note(f"seeded change {r['name']}: {r['got']}")
        print(f"[{pid}] seeded changes: {len(sres)}, detected {rep.analysed['seeded_changes_detected']}, stale {rep.analysed['seeded_changes_stale']}")


def live_functions(M):
    """functions some public entry of the package can reach. Roots: every function or method whose own name is public (or a dunder), and
    everything module-level code mentions. An edge goes from a function to *every* package function whose name it mentions, as a call or as
    a value (callbacks, keys, properties) - resolution by name only, so the set over-approximates what can run."""
    fns = M.functions()
    by_name = {}
    for q in fns:
        by_name.setdefault(q.rsplit(".", 1)[1], set()).add(q)

    def mentions(node):
        out = set()
        for x in ast.walk(node):
            n = x.id if isinstance(x, ast.Name) else x.attr if isinstance(x, ast.Attribute) else None
            if n in by_name:
                out |= by_name[n]
        return out
    live, work = set(), []
    for q, d in fns.items():
        n = q.rsplit(".", 1)[1]
        if not n.startswith("_") or (n.startswith("__") and n.endswith("__")):
            work.append(q)
    for m, tree in M.mods.items():
        for st in tree.body:
            if not isinstance(st, (ast.FunctionDef, ast.AsyncFunctionDef, ast.ClassDef)):
                work.extend(mentions(st))
    while work:
        q = work.pop()
        if q in live:
            continue
        live.add(q)
        work.extend(mentions(fns[q]))
    return live


def out_of_reach(rep, M, pid):
    """a reported construct inside a function nothing public can reach (dead code) cannot break any property: it is listed as a note, not as a
    violation. Which *property* a live construct matters to is the business of each rule's own scoping (symrules.observed_scope and friends)."""
    if os.environ.get("VERIF_NO_REACH") or not rep.bad:
        return
    live = live_functions(M)
    fns = M.functions()
    if len(live) < 0.5 * len(fns):
        raise AnalysisError(f"liveness: only {len(live)} of {len(fns)} functions reachable from the public surface - the model of the package is broken")
    keep = []
    for b in rep.bad:
        w = b.get("where") or ""
        q = "matid." + w.rsplit("(", 1)[1].rstrip(")") if w.endswith(")") and "(" in w else None
        top = q
        while top in fns and M.parent.get(top) in fns:
            top = M.parent[top]
        if top in fns and top not in live:
            rep.note(f"{b['rule']}: {b['construct']}: in dead code ({w}: nothing reachable from the public surface of the package mentions it): {b['msg'][:160]}")
        else:
            keep.append(b)
    rep.bad[:] = keep


def main(argv=None):
    ap = argparse.ArgumentParser()
    ap.add_argument("pid")
    ap.add_argument("--tier", default=os.environ.get("VERIF_TIER") or "quick", choices=["quick", "thorough"])
    ap.add_argument("--replay")
    a = ap.parse_args(argv)
    pid = a.pid.upper()
    if pid not in CLAIMED:
        print(f"ANALYSIS-ERROR property={pid}: not a claimed property (see MANIFEST.json not_applicable)")
        return 2
    rep = Report(pid, a.tier)
    if a.replay:
        try:
            rp = json.load(open(a.replay))
            print(f"replaying {rp.get('key')}: {rp.get('msg')}")
            rep.replay_filter = rp.get("key")
        except Exception as e:
            print(f"ANALYSIS-ERROR property={pid}: cannot read replay file: {e}")
            return 2
    ctx = Ctx(a.tier)
    try:
        mod = importlib.import_module(f"vstatic.rules.{pid.lower()}")
        mod.run(rep, ctx)
        if ctx._tables is not None and pid != "C14":
            # every obligation of this property that was decided on the table literals presupposes that the library uses those literals
            from . import symrules
            rid = f"R{pid[1:]}.T"
            rep.rule(rid, "the built-in symmetry tables the library uses at run time are the literals of the table file (no import-time code of "
                          "the table module rewrites their values; shared with C14.readonly)")
            symrules.tables_read_only(rep, ctx.model, rid, only_import=True)
        out_of_reach(rep, ctx.model, pid)
    except AnalysisError as e:
        rep.error(str(e))
    except Exception as e:  # a traceback must never look like a verdict
        traceback.print_exc()
        rep.error(f"internal error: {type(e).__name__}: {e}")
    if a.tier == "thorough" and not a.replay and not os.environ.get("VERIF_NO_SELFTEST"):
        try:
            selfvalidate(rep, pid)
        except Exception as e:
            traceback.print_exc()
            rep.error(f"rule self-validation crashed: {type(e).__name__}: {e}")
    try:
        return rep.finish()
    except Exception as e:
        traceback.print_exc()
        print(f"ANALYSIS-ERROR property={pid}: cannot write evidence: {e}")
        return 2


if __name__ == "__main__":
    sys.exit(main())
