"""Static verification of nomad-coe/matid: repository-specific rules over the parsed sources."""
