"""Flow-sensitive alias sets and bottom-up mutation summaries.

For every function: which parameters may be mutated (in place) by calling it, which parameters
the return value may alias, and which parameters escape into object state. Alias sets are computed
by forward dataflow on the statement CFG with strong updates, so `x = x.copy(); x.wrap()` is not a
mutation of the argument while `y = x; y.wrap()` is.
"""
import ast

from .cfg import CFG, own_exprs, target_names, walk_own
from .report import AnalysisError

# methods that mutate their receiver (ASE Atoms, numpy arrays, builtin containers, matid System)
MUTATORS = {
    "set_cell", "set_pbc", "set_positions", "set_scaled_positions", "set_atomic_numbers", "set_chemical_symbols",
    "set_masses", "set_tags", "set_initial_charges", "set_array", "set_celldisp", "set_constraint",
    "set_calculator", "set_momenta", "set_velocities", "set_initial_magnetic_moments", "wrap", "center",
    "translate", "rotate", "euler_rotate", "rattle", "append", "extend", "pop", "sort", "fill", "clear", "remove",
    "update", "add", "insert", "reverse", "setdefault", "popitem", "discard", "rotate_dihedral", "set_distance",
    "set_angle", "set_dihedral", "new_array", "set_wyckoff_letters", "set_equivalent_atoms", "edit", "resize",
    "itemset", "put", "partition", "setflags", "__setitem__", "__delitem__", "__iadd__", "__imul__", "write",
    # networkx graphs
    "add_node", "add_edge", "add_nodes_from", "add_edges_from", "add_weighted_edges_from", "remove_node", "remove_edge", "remove_nodes_from",
    "remove_edges_from",
}
# attributes that are views into their owner
VIEW_ATTRS = {"positions", "cell", "arrays", "numbers", "pbc", "T", "flat", "real", "imag", "array", "info", "base"}
# callables returning (possibly) their first argument itself
# (copy.copy is shallow: the copy of an ase.Atoms shares the position / cell arrays of the original, so in-place edits reach it)
PASS_THROUGH_EXT = {"numpy.asarray", "numpy.asanyarray", "numpy.ascontiguousarray", "numpy.ravel", "numpy.reshape",
                    "numpy.squeeze", "numpy.atleast_2d", "numpy.atleast_1d", "numpy.transpose", "copy.copy"}
VIEW_METHODS = {"reshape", "ravel", "view", "squeeze", "transpose", "swapaxes", "flat"}
NP_INPLACE_FIRST = {"numpy.fill_diagonal", "numpy.put", "numpy.place", "numpy.copyto", "numpy.random.shuffle",
                    "numpy.putmask"}


class Effects:
    def __init__(self, M):
        self.M = M
        self.funcs = M.functions()
        self.cfgs = {}
        self.unknown = set()
        for fq, fn in self.funcs.items():
            try:
                self.cfgs[fq] = CFG(fn)
            except AnalysisError:
                self.unknown.add(fq)
        self.mut = {fq: set() for fq in self.funcs}
        self.ret = {fq: set() for fq in self.funcs}
        self.esc = {fq: set() for fq in self.funcs}
        self.events = {fq: [] for fq in self.funcs}
        for fq in self.unknown:
            self.mut[fq] = set(self._params(fq))
        changed = True
        rounds = 0
        while changed and rounds < 10:
            changed = False
            rounds += 1
            for fq in self.funcs:
                if fq in self.unknown:
                    continue
                mut, ret, esc, events = self.analyze(fq)
                if mut != self.mut[fq] or ret != self.ret[fq] or esc != self.esc[fq]:
                    changed = True
                self.mut[fq], self.ret[fq], self.esc[fq], self.events[fq] = mut, ret, esc, events

    def _params(self, fq):
        a = self.funcs[fq].args
        ps = [x.arg for x in a.posonlyargs + a.args + a.kwonlyargs]
        if a.vararg:
            ps.append(a.vararg.arg)
        if a.kwarg:
            ps.append(a.kwarg.arg)
        return ps

    # ------------------------------------------------------------------ alias of an expression
    def alias_of(self, fq, e, st):
        if isinstance(e, ast.Name):
            return set(st.get(e.id, ()))
        if isinstance(e, ast.Attribute):
            if e.attr in VIEW_ATTRS:
                return self.alias_of(fq, e.value, st)
            return set()
        if isinstance(e, ast.Subscript):
            return self.alias_of(fq, e.value, st)
        if isinstance(e, ast.IfExp):
            return self.alias_of(fq, e.body, st) | self.alias_of(fq, e.orelse, st)
        if isinstance(e, ast.BoolOp):
            out = set()
            for v in e.values:
                out |= self.alias_of(fq, v, st)
            return out
        if isinstance(e, ast.NamedExpr):
            return self.alias_of(fq, e.value, st)
        if isinstance(e, ast.Starred):
            return self.alias_of(fq, e.value, st)
        if isinstance(e, ast.Call):
            r = self.M.resolve(fq, e.func)
            if isinstance(r, tuple) and r[0] == "ext" and r[1] in PASS_THROUGH_EXT and e.args:
                return self.alias_of(fq, e.args[0], st)
            if isinstance(e.func, ast.Attribute) and e.func.attr in VIEW_METHODS:
                return self.alias_of(fq, e.func.value, st)
            out = set()
            for callee in self.M.callees_of_call(fq, e):
                if callee.endswith(".__init__"):
                    continue
                for p, a in self.bind_args(callee, e):
                    if p in self.ret.get(callee, ()):
                        out |= self.alias_of(fq, a, st)
            return out
        return set()

    def bind_args(self, callee, call):
        """[(param name, argument expr)] ; receiver of a method call is bound to `self`"""
        a = self.funcs[callee].args
        ps = [x.arg for x in a.posonlyargs + a.args]
        out = []
        is_method = self.M.enclosing_class(callee) == self.M.parent.get(callee) and ps and ps[0] in ("self", "cls") \
            and "staticmethod" not in [ast.unparse(d) for d in self.funcs[callee].decorator_list]
        if is_method:
            if isinstance(call.func, ast.Attribute) and not callee.endswith(".__init__"):
                out.append((ps[0], call.func.value))
            ps = ps[1:]
        for p, arg in zip(ps, call.args):
            if isinstance(arg, ast.Starred):
                break
            out.append((p, arg))
        names = set(ps) | {x.arg for x in a.kwonlyargs}
        for k in call.keywords:
            if k.arg in names:
                out.append((k.arg, k.value))
            elif k.arg is not None and a.kwarg:
                out.append((a.kwarg.arg, k.value))
        return out

    # ------------------------------------------------------------------ transfer
    def transfer(self, fq, stmt, st):
        st = {k: set(v) for k, v in st.items()}
        if isinstance(stmt, ast.Assign):
            src = self.alias_of(fq, stmt.value, st)
            for t in stmt.targets:
                if isinstance(t, ast.Name):
                    st[t.id] = set(src)
                elif isinstance(t, (ast.Tuple, ast.List)):
                    if isinstance(stmt.value, (ast.Tuple, ast.List)) and len(stmt.value.elts) == len(t.elts):
                        for te, ve in zip(t.elts, stmt.value.elts):
                            for nm in target_names(te):
                                st[nm] = self.alias_of(fq, ve, st)
                    else:
                        for nm in target_names(t):
                            st[nm] = set(src)
        elif isinstance(stmt, ast.AnnAssign) and stmt.value is not None and isinstance(stmt.target, ast.Name):
            st[stmt.target.id] = self.alias_of(fq, stmt.value, st)
        elif isinstance(stmt, ast.For):
            src = self.alias_of(fq, stmt.iter, st)
            for nm in target_names(stmt.target):
                st[nm] = set(src)
        elif isinstance(stmt, ast.With):
            for i in stmt.items:
                if i.optional_vars is not None:
                    for nm in target_names(i.optional_vars):
                        st[nm] = self.alias_of(fq, i.context_expr, st)
        for e in own_exprs(stmt) if stmt is not None else []:
            for sub in ast.walk(e):
                if isinstance(sub, ast.NamedExpr) and isinstance(sub.target, ast.Name):
                    st[sub.target.id] = self.alias_of(fq, sub.value, st)
        return st

    def states(self, fq):
        """IN state per CFG node: var -> set of params it may alias"""
        c = self.cfgs[fq]
        init = {p: {p} for p in self._params(fq)}
        IN = {n: None for n in c.g.nodes}
        IN[c.entry] = init
        work = [c.entry]
        OUT = {}
        while work:
            n = work.pop()
            node = c.g.nodes[n]["ast"]
            cur = IN[n] or {}
            out = self.transfer(fq, node, cur) if node is not None else cur
            if n in OUT and OUT[n] == out:
                continue
            OUT[n] = out
            for s in c.g.successors(n):
                if IN[s] is None:
                    IN[s] = {k: set(v) for k, v in out.items()}
                    work.append(s)
                else:
                    ch = False
                    for k, v in out.items():
                        cur_s = IN[s].setdefault(k, set())
                        if not v <= cur_s:
                            cur_s |= v
                            ch = True
                    if ch:
                        work.append(s)
        return IN

    # ------------------------------------------------------------------ per function
    def analyze(self, fq):
        c = self.cfgs[fq]
        IN = self.states(fq)
        mut, ret, esc, events = set(), set(), set(), []

        def hit(params, node, what):
            if params:
                mut.update(params)
                events.append((tuple(sorted(params)), getattr(node, "lineno", 0), what))
        for n, d in c.g.nodes(data=True):
            s = d["ast"]
            if s is None or IN[n] is None:
                continue
            st = IN[n]
            if isinstance(s, (ast.Assign, ast.AugAssign, ast.AnnAssign)):
                tg = s.targets if isinstance(s, ast.Assign) else [s.target]
                flat = []
                for t in tg:
                    flat += t.elts if isinstance(t, (ast.Tuple, ast.List)) else [t]
                for t in flat:
                    if isinstance(t, ast.Subscript):
                        hit(self.alias_of(fq, t.value, st), s, "store " + ast.unparse(t))
                    elif isinstance(t, ast.Attribute):
                        hit(self.alias_of(fq, t.value, st) if t.attr in VIEW_ATTRS or True else set(), s,
                            "attribute store " + ast.unparse(t))
                        # escape: value stored into object state
                        if isinstance(s, ast.Assign):
                            esc.update(self.alias_of(fq, s.value, st))
                    elif isinstance(t, ast.Name) and isinstance(s, ast.AugAssign):
                        hit(set(st.get(t.id, ())), s, "in-place " + ast.unparse(s))
            if isinstance(s, ast.Delete):
                for t in s.targets:
                    if isinstance(t, ast.Subscript):
                        hit(self.alias_of(fq, t.value, st), s, "del " + ast.unparse(t))
            if isinstance(s, ast.Return) and s.value is not None:
                vals = s.value.elts if isinstance(s.value, ast.Tuple) else [s.value]
                for v in vals:
                    ret.update(self.alias_of(fq, v, st))
            for sub in walk_own(s):
                if not isinstance(sub, ast.Call):
                    continue
                f = sub.func
                callees = self.M.callees_of_call(fq, sub)
                if isinstance(f, ast.Attribute) and f.attr in MUTATORS and not callees:
                    hit(self.alias_of(fq, f.value, st), sub, "mutator " + ast.unparse(f))
                for kw in sub.keywords:
                    if kw.arg == "out":
                        hit(self.alias_of(fq, kw.value, st), sub, "out=" + ast.unparse(kw.value))
                r = self.M.resolve(fq, f)
                if isinstance(r, tuple) and r[0] == "ext" and r[1] in NP_INPLACE_FIRST and sub.args:
                    hit(self.alias_of(fq, sub.args[0], st), sub, r[1])
                for callee in callees:
                    for p, a in self.bind_args(callee, sub):
                        al = self.alias_of(fq, a, st)
                        if not al:
                            continue
                        if p in self.mut.get(callee, ()):
                            hit(al, sub, f"passed as `{p}` to {callee.split('.')[-1]} which mutates it")
                        if p in self.esc.get(callee, ()):
                            esc.update(al)
        return mut, ret, esc, events

    def why(self, fq, param):
        return [e for e in self.events.get(fq, []) if param in e[0]]
