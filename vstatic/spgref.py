"""Reference crystallographic data, independent of matid: spglib's Hall-symbol database.

The standard setting of each space-group number = the lowest Hall number spglib lists for it
(the setting spglib standardises to, and the setting matid's tables were scraped for).
"""
import functools

import numpy as np
import spglib

from .tables import D, idet


@functools.lru_cache(None)
def hall_of():
    out = {}
    for h in range(1, 531):
        out.setdefault(spglib.get_spacegroup_type(h).number, h)
    return out


@functools.lru_cache(None)
def sgtype(g):
    return spglib.get_spacegroup_type(hall_of()[g])


@functools.lru_cache(None)
def ops(g):
    """(rotations int (n,3,3), translations int*24 (n,3) mod 24) incl. centring cosets"""
    d = spglib.get_symmetry_from_database(hall_of()[g])
    R = np.array(d["rotations"], dtype=int)
    tf = np.array(d["translations"], dtype=float) * D
    t = np.rint(tf).astype(int)
    assert np.abs(tf - t).max() < 1e-6
    return R, t % D


@functools.lru_cache(None)
def opset(g):
    R, t = ops(g)
    return frozenset((tuple(r.flatten()), tuple(tt)) for r, tt in zip(R, t))


def crystal_system(g):
    return ("triclinic" if g <= 2 else "monoclinic" if g <= 15 else "orthorhombic" if g <= 74 else
            "tetragonal" if g <= 142 else "trigonal" if g <= 167 else "hexagonal" if g <= 194 else "cubic")


PEARSON = {"triclinic": "a", "monoclinic": "m", "orthorhombic": "o", "tetragonal": "t", "trigonal": "h",
           "hexagonal": "h", "cubic": "c"}


def centring(g):
    return sgtype(g).international_short[0]


@functools.lru_cache(None)
def sohncke():
    return frozenset(g for g in range(1, 231) if all(idet(r) == 1 for r in ops(g)[0]))


def group_order(g):
    return len(ops(g)[0])
