"""Statement-level control-flow graph for the Python subset matid uses, with
path queries (must-pass-through, dominance) and reaching definitions.

Nodes are ints; node attrs: kind in {entry, exit, raise_exit, stmt, test}, ast = the statement.
A `test` node stands for the evaluation of an if/while test or a for-iterator; its out-edges
are labelled True/False. Edges into exception handlers are labelled 'exc'.
"""
import ast

import networkx as nx

from .report import AnalysisError

SIMPLE = (ast.Assign, ast.AugAssign, ast.AnnAssign, ast.Expr, ast.Return, ast.Raise, ast.Pass, ast.Break,
          ast.Continue, ast.Delete, ast.Import, ast.ImportFrom, ast.Assert, ast.Global, ast.Nonlocal,
          ast.FunctionDef, ast.ClassDef)


class CFG:
    def __init__(self, func):
        self.func = func
        self.g = nx.DiGraph()
        self._n = 0
        self.entry = self._new("entry", None)
        self.exit = self._new("exit", None)
        self.raise_exit = self._new("raise_exit", None)
        self._loop = []
        self._try = []
        self.node_of = {}      # id(stmt) -> node
        last = self._block(func.body, [self.entry])
        self._link(last, self.exit)
        self.returns = [n for n, d in self.g.nodes(data=True) if isinstance(d["ast"], ast.Return)]

    def _new(self, kind, node):
        i = self._n
        self._n += 1
        self.g.add_node(i, kind=kind, ast=node)
        if node is not None:
            self.node_of[id(node)] = i
        return i

    def _link(self, preds, n, label=None):
        for p in preds:
            if isinstance(p, tuple):
                self.g.add_edge(p[0], n, label=p[1])
            else:
                self.g.add_edge(p, n, label=label)

    def _block(self, stmts, preds):
        for s in stmts:
            preds = self._stmt(s, preds)
        return preds

    def _stmt(self, s, preds):
        if isinstance(s, ast.If):
            t = self._new("test", s)
            self._link(preds, t)
            a = self._block(s.body, [(t, True)])
            b = self._block(s.orelse, [(t, False)]) if s.orelse else [(t, False)]
            return a + b
        if isinstance(s, (ast.For, ast.While)):
            h = self._new("test", s)
            self._link(preds, h)
            brk = []
            self._loop.append((h, brk))
            body_end = self._block(s.body, [(h, True)])
            self._loop.pop()
            self._link(body_end, h, "loop")
            out = [(h, False)]
            if isinstance(s, ast.While) and isinstance(s.test, ast.Constant) and s.test.value is True:
                out = []
            if s.orelse:
                out = self._block(s.orelse, out)
            return out + brk
        if isinstance(s, ast.Try):
            n = self._new("stmt", s)
            self._link(preds, n)
            hentries = [self._new("stmt", h) for h in s.handlers]
            self._try.append(hentries)
            before = self._n
            body_end = self._block(s.body, [n])
            after = self._n
            self._try.pop()
            for i in range(before, after):
                for hn in hentries:
                    self.g.add_edge(i, hn, label="exc")
            for hn in hentries:
                self.g.add_edge(n, hn, label="exc")
            if s.orelse:
                body_end = self._block(s.orelse, body_end)
            out = list(body_end)
            for h, hn in zip(s.handlers, hentries):
                out += self._block(h.body, [hn])
            if s.finalbody:
                out = self._block(s.finalbody, out)
            return out
        if isinstance(s, ast.With):
            n = self._new("stmt", s)
            self._link(preds, n)
            return self._block(s.body, [n])
        if not isinstance(s, SIMPLE):
            raise AnalysisError(f"CFG: statement kind {type(s).__name__} at line {s.lineno} not modelled")
        n = self._new("stmt", s)
        self._link(preds, n)
        if isinstance(s, ast.Return):
            self.g.add_edge(n, self.exit)
            return []
        if isinstance(s, ast.Raise):
            if self._try:
                for hn in self._try[-1]:
                    self.g.add_edge(n, hn, label="exc")
            self.g.add_edge(n, self.raise_exit)
            return []
        if isinstance(s, ast.Break):
            self._loop[-1][1].append(n)
            return []
        if isinstance(s, ast.Continue):
            self.g.add_edge(n, self._loop[-1][0], label="loop")
            return []
        return [n]

    # ---------------------------------------------------------------- queries
    def stmt(self, n):
        return self.g.nodes[n]["ast"]

    def nodes_where(self, pred):
        return [n for n, d in self.g.nodes(data=True) if d["ast"] is not None and pred(d["ast"])]

    def nodes_with(self, pred_expr):
        """nodes whose own expressions contain a sub-expression satisfying pred_expr"""
        out = []
        for n, d in self.g.nodes(data=True):
            if d["ast"] is None:
                continue
            if any(pred_expr(sub) for e in own_exprs(d["ast"]) for sub in ast.walk(e)):
                out.append(n)
        return out

    def all_paths_pass(self, src, dst, through):
        """True iff every path src -> dst passes a node of `through` (src/dst themselves excluded)."""
        g = self.g.copy()
        g.remove_nodes_from([t for t in through if t not in (src, dst)])
        return not (src in g and dst in g and nx.has_path(g, src, dst))

    def reaches(self, a, b):
        return nx.has_path(self.g, a, b)

    def dominates(self, a, b):
        if a == b:
            return True
        return self.all_paths_pass(self.entry, b, [a])

    def reachable_from_entry(self, n):
        return nx.has_path(self.g, self.entry, n)

    def branch_conditions(self, n):
        """list of (test stmt, polarity) that dominate n through a labelled branch edge: the
        conjunction of conditions under which n executes (loops give polarity True for the body)"""
        out = []
        for t, d in self.g.nodes(data=True):
            if d["kind"] != "test" or t == n:
                continue
            for pol in (True, False):
                succ = [s for s in self.g.successors(t) if self.g.edges[t, s].get("label") is pol]
                if not succ:
                    continue
                # n is only reachable from t via this branch edge, and t dominates n
                g = self.g.copy()
                for s in list(g.successors(t)):
                    if g.edges[t, s].get("label") is pol:
                        g.remove_edge(t, s)
                if self.dominates(t, n) and not nx.has_path(g, t, n) and nx.has_path(self.g, t, n):
                    out.append((d["ast"], pol))
        return out

    # ---------------------------------------------------------------- reaching definitions
    def reaching_defs(self):
        """IN[n] : dict var -> frozenset of def nodes (ints; self.entry stands for parameter/unknown)"""
        if hasattr(self, "_rd"):
            return self._rd
        params = [a.arg for a in self.func.args.posonlyargs + self.func.args.args + self.func.args.kwonlyargs]
        if self.func.args.vararg:
            params.append(self.func.args.vararg.arg)
        if self.func.args.kwarg:
            params.append(self.func.args.kwarg.arg)
        IN = {n: {} for n in self.g.nodes}
        IN[self.entry] = {}
        OUT = {}
        work = [self.entry]
        first = {p: frozenset([self.entry]) for p in params}
        while work:
            n = work.pop()
            st = IN[n]
            if n == self.entry:
                out = dict(first)
            else:
                out = dict(st)
                for v in defs_of_stmt(self.stmt(n)):
                    out[v] = frozenset([n])
            if OUT.get(n) == out:
                continue
            OUT[n] = out
            for s in self.g.successors(n):
                merged = dict(IN[s])
                ch = False
                for k, v in out.items():
                    nv = merged.get(k, frozenset()) | v
                    if nv != merged.get(k):
                        merged[k] = nv
                        ch = True
                if ch or s not in OUT:
                    IN[s] = merged
                    work.append(s)
        self._rd = IN
        self._rd_out = OUT
        return IN


def target_names(t):
    out = []
    if isinstance(t, ast.Name):
        out.append(t.id)
    elif isinstance(t, (ast.Tuple, ast.List)):
        for e in t.elts:
            out += target_names(e)
    elif isinstance(t, ast.Starred):
        out += target_names(t.value)
    return out


def defs_of_stmt(s):
    """names (re)bound by the statement node itself"""
    out = []
    if s is None:
        return out
    if isinstance(s, ast.Assign):
        for t in s.targets:
            out += target_names(t)
    elif isinstance(s, (ast.AugAssign, ast.AnnAssign)):
        out += target_names(s.target)
    elif isinstance(s, ast.For):
        out += target_names(s.target)
    elif isinstance(s, ast.With):
        for i in s.items:
            if i.optional_vars is not None:
                out += target_names(i.optional_vars)
    elif isinstance(s, ast.ExceptHandler):
        if s.name:
            out.append(s.name)
    elif isinstance(s, (ast.FunctionDef, ast.ClassDef)):
        out.append(s.name)
    elif isinstance(s, (ast.Import, ast.ImportFrom)):
        for a in s.names:
            out.append((a.asname or a.name).split(".")[0])
    # walrus
    for e in own_exprs(s):
        for sub in ast.walk(e):
            if isinstance(sub, ast.NamedExpr):
                out += target_names(sub.target)
    return out


def own_exprs(stmt):
    """expressions evaluated by the statement node itself (not by nested blocks)"""
    if isinstance(stmt, ast.If):
        return [stmt.test]
    if isinstance(stmt, ast.While):
        return [stmt.test]
    if isinstance(stmt, ast.For):
        return [stmt.iter]
    if isinstance(stmt, ast.Try):
        return []
    if isinstance(stmt, ast.ExceptHandler):
        return [stmt.type] if stmt.type is not None else []
    if isinstance(stmt, ast.With):
        return [i.context_expr for i in stmt.items]
    if isinstance(stmt, (ast.FunctionDef, ast.ClassDef)):
        return []
    return [stmt]


def walk_own(stmt):
    """all sub-nodes evaluated by the statement itself, lambdas/comprehensions included,
    nested function definitions excluded"""
    for e in own_exprs(stmt):
        yield from ast.walk(e)


def calls_in(stmt):
    return [n for n in walk_own(stmt) if isinstance(n, ast.Call)]


def callee_name(call):
    f = call.func
    parts = []
    while isinstance(f, ast.Attribute):
        parts.append(f.attr)
        f = f.value
    if isinstance(f, ast.Name):
        parts.append(f.id)
    else:
        parts.append("?")
    return ".".join(reversed(parts))
