"""C11 - 2D materials get a vacuum-, orientation- and labelling-independent normal form (path rules)."""
import ast

from ..cfg import walk_own
from ..dataflow import Flow
from ..effects import Effects
from ..model import norm
from ..report import AnalysisError
from . import c06

SA = "matid.symmetry.symmetryanalyzer.SymmetryAnalyzer"
FQ = SA + ".get_conventional_system"
GEO = "matid.geometry.geometry"


def branch_2d(fn):
    """the If node whose test is `n_pbc == 2` and its body"""
    for n in ast.walk(fn):
        if isinstance(n, ast.If) and isinstance(n.test, ast.Compare) and isinstance(n.test.ops[0], ast.Eq) \
                and isinstance(n.test.comparators[0], ast.Constant) and n.test.comparators[0].value == 2 and "n_pbc" in norm(n.test.left):
            return n
    raise AnalysisError("get_conventional_system: branch `n_pbc == 2` not found")


def r11_1(rep, M, rid):
    fn = M.func(FQ)
    fl = Flow(fn)
    cfg = fl.cfg
    br = branch_2d(fn)
    inside = set()
    for s in br.body:
        for x in ast.walk(s):
            if id(x) in cfg.node_of:
                inside.add(cfg.node_of[id(x)])
    first = cfg.node_of[id(br.body[0])]
    rets = [n for n in cfg.returns if n in inside]
    if not rets:
        raise AnalysisError("2D branch has no return")

    def sites(pred):
        out = []
        for n in sorted(inside):
            s = cfg.stmt(n)
            for c in walk_own(s):
                if isinstance(c, ast.Call) and pred(c):
                    out.append((n, c))
        return out
    # the object being normalised: result of _find_wyckoff_ground_state
    gs = sites(lambda c: (SA + "._find_wyckoff_ground_state") in M.callees_of_call(FQ, c))
    if not gs:
        raise AnalysisError("2D branch: _find_wyckoff_ground_state not called")
    gstmt = cfg.stmt(gs[0][0])
    obj = None
    if isinstance(gstmt, ast.Assign) and isinstance(gstmt.targets[0], ast.Tuple):
        obj = norm(gstmt.targets[0].elts[0])
    if obj is None:
        raise AnalysisError("2D branch: result of _find_wyckoff_ground_state not bound to a name")
    T = sites(lambda c: isinstance(c.func, ast.Attribute) and c.func.attr == "translate" and norm(c.func.value) == obj)
    Wr = sites(lambda c: isinstance(c.func, ast.Attribute) and c.func.attr == "wrap" and norm(c.func.value) == obj)
    P = sites(lambda c: isinstance(c.func, ast.Attribute) and c.func.attr == "set_pbc" and norm(c.func.value) == obj
              and c.args and not isinstance(c.args[0], ast.Constant))
    S = sites(lambda c: (GEO + ".swap_basis") in M.callees_of_call(FQ, c))
    Mn = sites(lambda c: (GEO + ".get_minimized_cell") in M.callees_of_call(FQ, c))
    stages = [("translate (centre along the non-periodic direction)", T), ("wrap (all atoms inside the cell)", Wr),
              ("set_pbc(conv_pbc) (periodic in two directions only)", P), ("get_minimized_cell (thickness = max(extent, min_2d_thickness))", Mn)]
    prev_nodes = [first]
    prev_name = "entry of the 2D branch"
    for name, st in stages:
        nodes = [n for n, _ in st]
        if not nodes:
            rep.violation(rid, f"2D branch: {name.split(' ')[0]}", f"the step `{name}` is missing on the 2D path", M.where(FQ, br))
            continue
        ok = all(cfg.all_paths_pass(a, r, nodes) for a in prev_nodes for r in rets if cfg.reaches(a, r))
        if ok:
            rep.ok(rid, f"every 2D path after {prev_name} passes {name.split(' ')[0]}")
        else:
            rep.violation(rid, f"2D branch: {name.split(' ')[0]}", f"a path to the return skips `{name}`", M.where(FQ, st[0][1]))
        for a in prev_nodes:
            for n in nodes:
                if a != first and cfg.reaches(n, a) and not cfg.reaches(a, n):
                    rep.violation(rid, f"2D branch: order of {name.split(' ')[0]}", f"`{name}` runs before `{prev_name}`", M.where(FQ, st[0][1]))
        prev_nodes, prev_name = nodes, name.split(" ")[0]
    # swap: between set_pbc and minimize, guarded by `index != target`
    if not S:
        rep.violation(rid, "2D branch: swap_basis", "the non-periodic axis is never moved to the last position", M.where(FQ, br))
    else:
        n, c = S[0]
        okpos = all(cfg.reaches(p, n) for p, _ in P) and all(cfg.reaches(n, m) for m, _ in Mn)
        b = M.bind_args(GEO + ".swap_basis", c)
        conds = cfg.branch_conditions(n)
        guard = [t for t, pol in conds if isinstance(t, ast.If) and pol is True and isinstance(t.test, ast.Compare)
                 and isinstance(t.test.ops[0], ast.NotEq) and {norm(t.test.left), norm(t.test.comparators[0])} == {norm(b.get("a")), norm(b.get("b"))}]
        other = [t for t, pol in conds if pol is True and isinstance(t, ast.If) and id(t) in {id(x) for x in ast.walk(br)} and t not in guard and t is not br]
        tgt = b.get("b")
        tgt_val = None
        if isinstance(tgt, ast.Name):
            defs = [s for s in ast.walk(br) if isinstance(s, ast.Assign) and norm(s.targets[0]) == tgt.id]
            if len(defs) == 1 and isinstance(defs[0].value, ast.Constant):
                tgt_val = defs[0].value.value
        elif isinstance(tgt, ast.Constant):
            tgt_val = tgt.value
        same_obj = norm(b.get("atoms")) == obj
        # the swapped index is the non-periodic one: found by scanning get_pbc() for a False
        src = b.get("a")
        from_pbc = False
        if isinstance(src, ast.Name):
            for lp in ast.walk(br):
                if isinstance(lp, ast.For) and any(isinstance(s, ast.Assign) and norm(s.targets[0]) == src.id for s in ast.walk(lp)):
                    from_pbc = "get_pbc" in norm(lp.iter) and any(isinstance(t, ast.If) and isinstance(t.test, ast.UnaryOp) for t in ast.walk(lp))
        if okpos and guard and not other and tgt_val == 2 and same_obj and from_pbc:
            rep.ok(rid, "swap_basis(obj, non-periodic index, 2) between set_pbc and minimisation, skipped only when already last")
        else:
            rep.violation(rid, "2D branch: swap_basis", f"position ok: {okpos}; guarded by index != target: {bool(guard)}; extra conditions: {len(other)}; "
                          f"target axis: {tgt_val}; same object: {same_obj}; index from pbc scan: {from_pbc}", M.where(FQ, c))
    # minimisation along axis 2 with self.min_2d_thickness; returned object is its result
    for n, c in Mn:
        b = M.bind_args(GEO + ".get_minimized_cell", c)
        ax = b.get("axis")
        axv = None
        if isinstance(ax, ast.Constant):
            axv = ax.value
        elif isinstance(ax, ast.Name):
            defs = [s for s in ast.walk(br) if isinstance(s, ast.Assign) and norm(s.targets[0]) == ax.id]
            if len(defs) == 1 and isinstance(defs[0].value, ast.Constant):
                axv = defs[0].value.value
        ms = b.get("min_size")
        if axv == 2 and ms is not None and norm(ms) == "self.min_2d_thickness" and norm(b.get("system")) == obj:
            rep.ok(rid, "get_minimized_cell(obj, 2, self.min_2d_thickness)")
        else:
            rep.violation(rid, "2D branch: get_minimized_cell arguments", f"axis {axv}, min_size `{norm(ms) if ms is not None else None}`, "
                          f"system `{norm(b.get('system'))}`; required (the normalised object, 2, self.min_2d_thickness)", M.where(FQ, c))
    for r in rets:
        rs = cfg.stmt(r)
        val = rs.value
        names = []
        if isinstance(val, ast.Attribute) and isinstance(val.value, ast.Name) and val.value.id == "self":
            st = [s for s in ast.walk(br) if isinstance(s, ast.Assign) and norm(s.targets[0]) == norm(val)]
            names = [s.value for s in st]
            at = [fl.node_of(s) for s in st]
        else:
            names, at = [val], [r]
        ok = names and all(any(c is Mn[0][1] for c in fl.calls_in_slice(e, a)) for e, a in zip(names, at)) if Mn else False
        if ok:
            rep.ok(rid, "the returned conventional system is the result of get_minimized_cell")
        else:
            rep.violation(rid, "2D branch: returned object", f"`{norm(val)}` is not the minimised cell", M.where(FQ, rs))
    return obj, br


def r11_2(rep, M, rid, obj, br):
    """conv_pbc: all True except the detected non-periodic axis; translation only along it; centring on the periodic COM"""
    fn = M.func(FQ)
    init = [s for s in ast.walk(br) if isinstance(s, ast.Assign) and norm(s.targets[0]) == "conv_pbc"]
    stores = [s for s in ast.walk(br) if isinstance(s, ast.Assign) and isinstance(s.targets[0], ast.Subscript) and norm(s.targets[0].value) == "conv_pbc"]
    setp = [c for c in ast.walk(br) if isinstance(c, ast.Call) and isinstance(c.func, ast.Attribute) and c.func.attr == "set_pbc"
            and c.args and not isinstance(c.args[0], ast.Constant)]
    if not setp:
        raise AnalysisError("2D branch: set_pbc(<array>) not found")
    pv = norm(setp[0].args[0])
    init = [s for s in ast.walk(br) if isinstance(s, ast.Assign) and norm(s.targets[0]) == pv]
    stores = [s for s in ast.walk(br) if isinstance(s, ast.Assign) and isinstance(s.targets[0], ast.Subscript) and norm(s.targets[0].value) == pv]
    all_true = init and [x.value for x in ast.walk(init[0].value) if isinstance(x, ast.Constant)] == [True, True, True]
    one_false = len(stores) == 1 and isinstance(stores[0].value, ast.Constant) and stores[0].value.value is False
    idx = norm(stores[0].targets[0].slice) if stores else None
    # the index comes from the loop over the transformation matrix
    loop = [lp for lp in ast.walk(br) if isinstance(lp, ast.For)
            and any(isinstance(s, ast.Assign) and norm(s.targets[0]) == idx for s in ast.walk(lp))]
    # spglib convention: x_std = P x_orig + p, so ROWS of dataset.transformation_matrix belong to the standardised axes and
    # COLUMNS to the original ones. The standardised axis i is the image of the original non-periodic axis k iff row i has its
    # only non-zero entry in column k. Scanning the rows of the transposed matrix finds the inverse relabelling instead,
    # which differs for cyclic relabellings (a->b->c).
    conv_ok = None
    if loop:
        lp = loop[0]
        it = lp.iter
        arg = it.args[0] if isinstance(it, ast.Call) and isinstance(it.func, ast.Name) and it.func.id == "enumerate" and it.args else it
        from .. import linalg
        from ..symrules import resolver
        env1 = {}
        cnt1 = {}
        for s2 in ast.walk(fn):
            if isinstance(s2, ast.Assign) and isinstance(s2.targets[0], ast.Name):
                env1.setdefault(s2.targets[0].id, s2.value)
                cnt1[s2.targets[0].id] = cnt1.get(s2.targets[0].id, 0) + 1
        f = linalg.nf(arg, resolver(M, FQ), {k: v for k, v in env1.items() if cnt1[k] == 1})
        tv = [x.id for x in ast.walk(lp.target) if isinstance(x, ast.Name)]
        rowvar = tv[-1] if tv else None
        # the original non-periodic axis: a local defined from the positions where the original pbc is False (np.argwhere(pbc == False)[0] ...)
        orig_axis = {norm(s2.targets[0]) for s2 in ast.walk(fn) if isinstance(s2, ast.Assign) and isinstance(s2.targets[0], ast.Name)
                     and any(isinstance(c, ast.Call) and (M.ext_name(FQ, c.func) or "") in ("numpy.argwhere", "numpy.where", "numpy.nonzero", "numpy.flatnonzero", "numpy.argmin")
                             for c in ast.walk(s2.value)) and "pbc" in norm(s2.value)}
        uses_orig = any(isinstance(x, ast.Subscript) and isinstance(x.value, ast.Name) and x.value.id == rowvar
                        and any(isinstance(y, ast.Name) and y.id in orig_axis for y in ast.walk(x.slice)) for x in ast.walk(lp))
        if f is not None and len(f) == 1 and f[0][0].endswith("transformation_matrix") and uses_orig:
            conv_ok = not f[0][2] and not f[0][1]
    if conv_ok is True:
        rep.ok(rid, "the standardised non-periodic axis is the ROW of the transformation matrix whose only entry is in the original non-periodic column")
    elif conv_ok is False:
        rep.violation(rid, "2D branch: axis detection convention", "the rows of the *transposed* (or inverted) transformation matrix are scanned: "
                      "spglib's matrix maps original to standardised coordinates (x_std = P x), so this finds the inverse relabelling; for cyclic "
                      "relabellings of the axes the wrong standardised axis is made non-periodic", M.where(FQ, loop[0]))
    elif loop:
        raise AnalysisError("2D branch: scan of the transformation matrix not recognised")
    if loop:
        # the matrix is floating point (for a rotated input its "zero" entries are ~1e-16): exact zero tests on its entries are fragile
        lp = loop[0]
        tvn = [x.id for x in ast.walk(lp.target) if isinstance(x, ast.Name)]
        rowv = tvn[-1] if tvn else None
        exact = []
        for x in ast.walk(lp):
            if isinstance(x, ast.Call) and (M.ext_name(FQ, x.func) or "") in ("numpy.count_nonzero", "numpy.nonzero", "numpy.flatnonzero", "numpy.any", "numpy.all") \
                    and any(isinstance(y, ast.Name) and y.id == rowv for a in x.args for y in ast.walk(a)) \
                    and not any(isinstance(y, ast.Compare) for a in x.args for y in ast.walk(a)):
                exact.append(x)
            if isinstance(x, ast.Call) and isinstance(x.func, ast.Attribute) and x.func.attr in ("any", "all", "nonzero") and isinstance(x.func.value, ast.Name) and x.func.value.id == rowv:
                exact.append(x)
            if isinstance(x, ast.Compare) and len(x.ops) == 1 and isinstance(x.ops[0], (ast.Eq, ast.NotEq)) \
                    and any(isinstance(c, ast.Constant) and c.value in (0, 0.0, 1, 1.0, -1) for c in [x.left] + x.comparators) \
                    and any(isinstance(y, ast.Subscript) and isinstance(y.value, ast.Name) and y.value.id == rowv for c in [x.left] + x.comparators for y in ast.walk(c)):
                exact.append(x)
        tol = [x for x in ast.walk(lp) if isinstance(x, ast.Compare) and len(x.ops) == 1 and isinstance(x.ops[0], (ast.Lt, ast.LtE, ast.Gt, ast.GtE))
               and any(isinstance(y, ast.Subscript) and isinstance(y.value, ast.Name) and y.value.id == rowv for y in ast.walk(x))]
        if exact:
            rep.violation(rid, f"2D branch: `{norm(exact[0])[:60]}` in the axis scan", "an exact zero / non-zero test on entries of spglib's floating-point transformation matrix: for a "
                          "rigidly rotated input the vanishing entries are ~1e-16 instead of 0, the non-periodic axis is not found and get_conventional_system raises "
                          "MatIDError", M.where(FQ, exact[0]))
        elif len(tol) >= 3:
            rep.ok(rid, "the axis scan compares all three entries of a row with a tolerance (no exact zero test on floating-point entries)")
            # ... and compares their magnitudes: spglib returns -1 as readily as +1 for the non-periodic axis (it depends on the orientation of the
            # basis it is given, e.g. of a cluster's prototype cell)
            def magnitude(e):
                return isinstance(e, ast.Call) and ((isinstance(e.func, ast.Name) and e.func.id == "abs")
                                                    or (M.ext_name(FQ, e.func) or "") in ("numpy.abs", "numpy.absolute", "numpy.fabs", "math.fabs"))
            signed = [x for x in tol if not any(magnitude(side) for side in [x.left] + x.comparators)]
            if signed:
                rep.violation(rid, f"2D branch: `{norm(signed[0])[:60]}` in the axis scan", "a signed entry of spglib's transformation matrix is compared with a positive "
                              "tolerance: the entry of the non-periodic axis is -1 for about every other basis orientation (prototype cells of clusters, relabelled or "
                              "flipped sheets), the axis is then not found and get_conventional_system raises MatIDError", M.where(FQ, signed[0]))
            else:
                rep.ok(rid, "the axis scan compares the magnitudes of the entries")
        else:
            raise AnalysisError("2D branch: tolerance tests of the axis scan not recognised")
    # the centre the layer is moved to is half the sum of the cell vectors
    halves = [s2 for s2 in ast.walk(br) if isinstance(s2, ast.Assign) and isinstance(s2.value, ast.BinOp)
              and any(isinstance(c, ast.Call) and (M.ext_name(FQ, c.func) or "") == "numpy.sum" and any("get_cell" in norm(a) for a in c.args) for c in ast.walk(s2.value))]
    for s2 in halves:
        v = s2.value
        half = (isinstance(v.op, ast.Mult) and any(isinstance(x, ast.Constant) and x.value == 0.5 for x in (v.left, v.right))) or \
            (isinstance(v.op, ast.Div) and isinstance(v.right, ast.Constant) and v.right.value == 2)
        if half:
            rep.ok(rid, f"2D branch: `{norm(s2)[:60]}` is the centre of the cell")
        else:
            rep.violation(rid, f"2D branch: `{norm(s2)[:60]}`", "the point the layer is centred on is not half the sum of the cell vectors: the sheet is shifted out of the "
                          "middle of the cell (and, after wrapping, split across the cell face)", M.where(FQ, s2))
    # ... and the layer is moved by (centre of the cell) - (its periodic centre of mass)
    hnames = {norm(s2.targets[0]) for s2 in halves}
    for s2 in ast.walk(br):
        if isinstance(s2, ast.Assign) and isinstance(s2.value, ast.BinOp) and isinstance(s2.value.op, (ast.Add, ast.Sub)) \
                and (norm(s2.value.left) in hnames or norm(s2.value.right) in hnames):
            if isinstance(s2.value.op, ast.Sub) and norm(s2.value.left) in hnames:
                rep.ok(rid, f"2D branch: `{norm(s2)[:60]}` moves the centre of mass onto the centre of the cell")
            else:
                rep.violation(rid, f"2D branch: `{norm(s2)[:60]}`", "the translation is not (centre of the cell) minus (centre of mass): the layer is moved away from the middle "
                              "of the cell and split across the cell face by the wrap that follows", M.where(FQ, s2))
    raised = any(isinstance(t, ast.If) and idx and idx in norm(t.test) and "None" in norm(t.test) and any(isinstance(x, ast.Raise) for x in t.body)
                 for t in ast.walk(br))
    if all_true and one_false and loop and raised:
        rep.ok(rid, f"{pv} = [True]*3 with {pv}[{idx}] = False, {idx} located through the spglib transformation matrix (error if not found)")
    else:
        rep.violation(rid, "2D branch: periodicity of the conventional cell", f"all-True init: {bool(all_true)}; exactly one False store: {one_false}; "
                      f"index from the transformation matrix: {bool(loop)}; failure raised when not found: {raised}", M.where(FQ, setp[0]))
    # translation restricted to the non-periodic axis and based on the periodic centre of mass
    tr = [c for c in ast.walk(br) if isinstance(c, ast.Call) and isinstance(c.func, ast.Attribute) and c.func.attr == "translate" and norm(c.func.value) == obj]
    if tr:
        fl = Flow(fn)
        at = fl.node_of(tr[0])
        sl = fl.slice(tr[0].args[0], at)
        com = any((GEO + ".get_center_of_mass") in M.callees_of_call(FQ, c) for e in sl["exprs"] for c in ast.walk(e) if isinstance(c, ast.Call))
        tv = norm(tr[0].args[0])
        zeroed = [s for s in ast.walk(br) if isinstance(s, ast.Assign) and isinstance(s.targets[0], ast.Subscript) and norm(s.targets[0].value) == tv
                  and norm(s.targets[0].slice) == pv and isinstance(s.value, ast.Constant) and s.value.value == 0]
        # the centre of mass is only *periodic* if the object is fully periodic at that moment (the spglib cell is created with pbc False)
        com_calls = [c for e in sl["exprs"] for c in ast.walk(e) if isinstance(c, ast.Call) and (GEO + ".get_center_of_mass") in M.callees_of_call(FQ, c)]
        pbc_true = False
        if com_calls:
            cn = fl.node_of(com_calls[0])
            sets = [(n2, c2) for n2, d2 in fl.cfg.g.nodes(data=True) if d2["ast"] is not None for c2 in walk_own(d2["ast"])
                    if isinstance(c2, ast.Call) and isinstance(c2.func, ast.Attribute) and c2.func.attr == "set_pbc" and norm(c2.func.value) == obj]
            before = [(n2, c2) for n2, c2 in sets if fl.cfg.reaches(n2, cn) and n2 != cn]
            last_true = [n2 for n2, c2 in before if c2.args and isinstance(c2.args[0], ast.Constant) and c2.args[0].value is True]
            others = [n2 for n2, c2 in before if not (c2.args and isinstance(c2.args[0], ast.Constant) and c2.args[0].value is True)]
            pbc_true = bool(last_true) and all(fl.cfg.dominates(n2, cn) for n2 in last_true[:1]) and not any(
                fl.cfg.reaches(lt, o) for lt in last_true for o in others)
        if com and zeroed and not pbc_true:
            rep.violation(rid, "2D branch: centring uses a non-periodic centre of mass", f"`{obj}.set_pbc(True)` does not precede get_center_of_mass: the "
                          "standardised cell is created non-periodic, so the plain arithmetic mean is used and a layer split across the cell boundary is "
                          "not brought together (the minimised cell then has thickness L - t)", M.where(FQ, tr[0]))
        elif com and zeroed:
            rep.ok(rid, "translation = cell centre - periodic centre of mass (object fully periodic at that point), zeroed along the periodic directions")
        else:
            rep.violation(rid, "2D branch: centring translation", f"from matid's periodic centre of mass: {com}; zeroed along periodic axes: {bool(zeroed)}",
                          M.where(FQ, tr[0]))


def r11_3(rep, M, E, rid):
    """constructor parameters reach their consumers; the analysed 2D system is a private copy"""
    init = M.func(SA + ".__init__")
    st = {norm(s.targets[0]): s for s in ast.walk(init) if isinstance(s, ast.Assign)}
    if "self.min_2d_thickness" in st and norm(st["self.min_2d_thickness"].value) == "min_2d_thickness":
        rep.ok(rid, "min_2d_thickness stored")
    else:
        rep.violation(rid, "SymmetryAnalyzer.__init__: min_2d_thickness", "parameter is not stored", M.where(SA + ".__init__"))
    from .. import symrules as _SR4
    _SR4.tolerance_reaches_spglib(rep, M, rid)
    d2 = M.func(SA + "._system_to_spglib_description")
    if all("_analyzed_system" in norm(s.value) for s in ast.walk(d2) if isinstance(s, ast.Assign) and "get_" in norm(s.value)):
        rep.ok(rid, "spglib sees the analysed (vacuum-padded for 2D) system")
    else:
        rep.violation(rid, "_system_to_spglib_description", "does not describe self._analyzed_system", M.where(SA + "._system_to_spglib_description"))
    ss = SA + ".set_system"
    if "system" in E.mut[ss]:
        # not a clause of this property: the padded cell differs from the caller's only in vacuum, which the statement quantifies over, and the analyzer reads
        # nothing but pbc from the original afterwards (checked below); reported as a side observation, not as a violation
        meths = [f for f in M.cls(SA).body if isinstance(f, ast.FunctionDef) and f.name != "set_system"]
        loads = [x for f in meths for x in ast.walk(f) if isinstance(x, ast.Attribute) and x.attr == "_original_system" and isinstance(x.ctx, ast.Load)]
        pbc_only = {id(p.func.value) for f in meths for p in ast.walk(f) if isinstance(p, ast.Call) and isinstance(p.func, ast.Attribute)
                    and p.func.attr == "get_pbc" and isinstance(p.func.value, ast.Attribute) and p.func.value.attr == "_original_system"}
        uses = sorted({M.where(SA) for x in loads if id(x) not in pbc_only})
        if all(id(x) in pbc_only for x in loads):
            rep.note(f"{rid}: set_system pads the caller's structure in place ({E.why(ss, 'system')[:1]}): the caller's cell changes, the analysis does not "
                     "(only get_pbc() is read from the original afterwards) - outside the statement of this property")
            rep.ok(rid, "set_system pads the caller's structure in place; only its pbc is read afterwards")
        else:
            rep.violation(rid, "set_system: input", f"the caller's structure is mutated and read again afterwards ({sorted(uses)}): {E.why(ss, 'system')[:2]}", M.where(ss))
    else:
        rep.ok(rid, "set_system pads a copy, the caller's structure is untouched")
    fn = M.func(ss)
    vac = [c for c in ast.walk(fn) if isinstance(c, ast.Call) and isinstance(c.func, ast.Name) and c.func.id == "max"]
    thick = any((GEO + ".get_thickness") in M.callees_of_call(ss, c) for c in ast.walk(fn) if isinstance(c, ast.Call))
    if vac and thick:
        # the padded cell length must exceed twice the layer thickness: with L = 2 t two identical atomic planes at
        # distance t acquire the translation c/2 and spglib folds the layer
        from fractions import Fraction
        ks = []
        for a in vac[0].args:
            if isinstance(a, ast.BinOp) and isinstance(a.op, ast.Mult):
                for num, other in ((a.left, a.right), (a.right, a.left)):
                    if isinstance(num, ast.Constant) and isinstance(num.value, (int, float)) and any(
                            isinstance(c, ast.Call) and (GEO + ".get_thickness") in M.callees_of_call(ss, c) for c in ast.walk(other)):
                        ks.append(Fraction(str(num.value)))
            elif isinstance(a, ast.Call) and (GEO + ".get_thickness") in M.callees_of_call(ss, a):
                ks.append(Fraction(1))
        if not ks:
            raise AnalysisError("set_system: thickness term of the vacuum not recognised")
        if min(ks) > 2:
            rep.ok(rid, f"2D input: symmetry-breaking cell length max(const, {min(ks)}*thickness) > 2*thickness along the non-periodic vector")
        else:
            rep.violation(rid, "set_system: vacuum factor", f"the analysed cell is only {min(ks)} x the layer thickness long: at exactly twice the "
                          "thickness a layer made of two identical atomic planes gets the spurious translation c/2 and is folded into a monolayer "
                          "(its id then equals the monolayer's)", M.where(ss, vac[0]))
    else:
        rep.violation(rid, "set_system: vacuum", "no thickness-dependent vacuum is added for 2D systems", M.where(ss))


def run(rep, ctx):
    M = ctx.model
    E = Effects(M)
    rep.explanation = ("must-pass-through queries on the CFG of the `n_pbc == 2` branch of get_conventional_system, def-use rules "
                       "for the arguments of each normalisation step, forwarding of constructor parameters, 2D prefix of the id")
    rep.assumptions = ["invariance of ids under vacuum / relabelling for concrete inputs depends on spglib and is not decided"]
    rep.rule("R11.1", "every 2D path runs translate -> wrap -> set_pbc -> (swap to last axis) -> get_minimized_cell(., 2, min_2d_thickness) and returns its result")
    rep.rule("R11.2", "the conventional cell is periodic in exactly the two detected directions; centring only along the non-periodic one")
    rep.rule("R11.3", "min_2d_thickness and symmetry_tol reach their consumers; the padded 2D system is a private copy")
    rep.rule("R11.4", "the id of a 2D system carries the 2D prefix")
    obj = br = None
    with rep.guard("R11.1"):
        obj, br = r11_1(rep, M, "R11.1")
    with rep.guard("R11.2"):
        if obj is not None:
            r11_2(rep, M, "R11.2", obj, br)
    with rep.guard("R11.3"):
        r11_3(rep, M, E, "R11.3")
    with rep.guard("R11.4"):
        id_without_parameters(rep, M, "R11.4")
        fn = M.func(SA + ".get_material_id")
        flag = [t for t in ast.walk(fn) if isinstance(t, ast.If) and "n_pbc" in norm(t.test) and "2" in norm(t.test)
                and any("2D" in norm(s) for s in t.body)]
        if flag:
            rep.ok("R11.4", "get_material_id prefixes '2D' under n_pbc == 2")
        else:
            rep.violation("R11.4", "get_material_id: 2D prefix", "the id of a 2D system equals the id of the same cell treated as 3D", M.where(SA + ".get_material_id"))
    rep.rule("R11.5", "every memoised result of the analyzer is dropped by reset(), which set_system() calls (no answers for a previous structure)")
    with rep.guard("R11.5"):
        from .. import symrules as _SR
        _SR.reset_covers_caches(rep, ctx.model, "R11.5")
    rep.rule("R11.6", "the helpers the 2D branch relies on (swap_basis, get_minimized_cell, periodic centre of mass) keep the structure (shared with C20)")
    with rep.guard("R11.6"):
        from . import c20 as _c20
        _c20.r20_3(rep, M, E, "R11.6")
        _c20.r20_4(rep, M, E, "R11.6")
        _c20.r20_7(rep, M, "R11.6")
        _c20.r20_units(rep, M, "R11.6")
    rep.rule("R11.7", "ids, letters and multiplicities of the 2D result come out of the same normal-form machinery as in 3D (ranking order, id slice, set assembly, index spaces; shared with C06/C07)")
    with rep.guard("R11.7"):
        from . import shared as _sh
        _sh.normal_form(rep, ctx.model, "R11.7")
    rep.rule("R11.8", "every tabulated letter permutation is the bijection its normalizer induces: a layer whose origin spglib happens to place "
             "differently (rigid shift, axis relabelling) is normalised to the same letters (shared with C06/C14)")
    from .. import tableobl as _TO
    _TO.norm_perm(rep, ctx.tables, "R11.8")
    rep.floor("R11.8", 6000)
    rep.rule("R11.9", "the cached conventional system (non-periodic vector last) is never modified after it has been built: undoing the 2D basis "
             "swap for the Wyckoff solver happens on a copy (shared with C12)")
    with rep.guard("R11.9"):
        _SR.handed_out_objects_not_mutated(rep, ctx.model, "R11.9")
    rep.rule("R11.10", "spglib is given the analysed structure unmodified with the analyzer's tolerance, and its standardised lattice / positions / types are used without a change of convention (shared with C05)")
    with rep.guard("R11.10"):
        from . import shared as _shb
        _shb.spglib_boundary(rep, ctx.model, "R11.10", back=False)
    rep.floor("R11.10", 4)
    rep.rule("R11.11", "every tabulated normalizer is an automorphism of its group and an isometry of the lattice (the normalised cell is the same crystal in the same space group; shared with C05/C14)")
    from . import shared as _shn
    _shn.normalizer_tables(rep, ctx.tables, "R11.11", perm=False)
    rep.floor("R11.11", 2400)
    rep.floor("R11.6", 12)
    rep.floor("R11.1", 7)
    rep.floor("R11.2", 2)
    rep.floor("R11.3", 5)


META = {
    "level": "other",
    "text": "static path rules on the 2D branch of get_conventional_system: on every path the normalised object is centred along the "
            "non-periodic direction using the periodic centre of mass, wrapped, given pbc = all-but-the-detected-axis, has that axis "
            "moved last, and is minimised along axis 2 with self.min_2d_thickness, and exactly that result is returned - each step is "
            "needed for one clause of the property (atoms inside, periodic in (a,b) only, non-periodic last, thickness). The pinned 2D "
            "tests compare ids and letters only, so dropping any step passes them. Invariance of ids for concrete inputs is not decided."
            " Also: the standardised non-periodic axis is found from the rows (not the transpose) of spglib's transformation matrix (x_std = P x), the centre of mass used for centring is the periodic one (object fully periodic at that point), the padded analysis cell is longer than twice the layer thickness, memo coherence with reset().",
    "note": "trusted: CPython ast; the repository model; C20's rules for swap_basis / get_minimized_cell themselves.",
    "technique": "must-pass-through CFG queries + def-use argument rules",
}


def id_without_parameters(rep, M, rid):
    """get_material_id is computed from letters, species and multiplicities: it asks for the Wyckoff sets *without* the free parameters. With them the id
    depends on the parameter solver, which raises for layers whose standard setting differs along the non-periodic axis (known finding D15) - the id of such a
    2D material would stop existing"""
    fq = SA + ".get_material_id"
    calls = M.calls_to(fq, SA + ".get_wyckoff_sets_conventional")
    if not calls:
        raise AnalysisError("get_material_id: call of get_wyckoff_sets_conventional not found")
    for c in calls:
        v = M.bind_args(SA + ".get_wyckoff_sets_conventional", c).get("return_parameters")
        if isinstance(v, ast.Constant) and v.value is False:
            rep.ok(rid, "get_material_id reads the Wyckoff sets without free parameters")
        else:
            dflt = "the default (True)" if v is None else f"`{norm(v)}`"
            rep.violation(rid, "get_material_id: Wyckoff sets with parameters", f"get_wyckoff_sets_conventional is called with return_parameters = {dflt}: the id now needs the "
                          "parameter solver to succeed, and it raises ValueError for 2D layers whose standard setting differs along the non-periodic axis (D15)", M.where(fq, c))
