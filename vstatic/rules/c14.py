"""C14 - built-in space-group tables agree with the International Tables (exhaustive)."""
import ast

from .. import tableobl as TO
from ..dataflow import Flow
from ..model import norm
from ..report import AnalysisError

SA = "matid.symmetry.symmetryanalyzer"
TABLES = {"SPACE_GROUP_INFO", "WYCKOFF_SETS", "CHIRALITY_PRESERVING_EUCLIDEAN_NORMALIZERS"}


def run(rep, ctx):
    rep.level = "proof"
    rep.exhaustive = True
    rep.trusted_base = ["spglib Hall-symbol database (standard setting = lowest Hall number per group)",
                        "CPython ast + fractions + numpy integer arithmetic", "vstatic.tableobl (this checker)"]
    rep.explanation = ("every entry of the three literal tables in matid/data/symmetry_data.py is extracted with a "
                       "closed ast evaluator and checked exactly (1/24 grid integers / Fractions) against the "
                       "operations, point groups and symbols of spglib's Hall database; plus def-use provenance of "
                       "the lookup keys in symmetryanalyzer.py")
    rep.assumptions = ["spglib's database is the International Tables in the standard setting",
                       "tabulated floats are 8-digit roundings of multiples of 1/24"]
    T = ctx.tables
    rep.count("groups", len(T["WYCKOFF_SETS"]))
    rep.count("positions", sum(len(TO.letters_of(v)) for v in T["WYCKOFF_SETS"].values()))
    rep.count("normalizers", sum(len(v) for v in T["CHIRALITY_PRESERVING_EUCLIDEAN_NORMALIZERS"].values()))
    rep.rule("C14.sginfo", "crystal system / point group / Bravais lattice of every group equal the reference")
    rep.rule("C14.keys", "every key the analyzer reads exists; letters contiguous; general position = group order; "
                         "letter permutations bijective")
    rep.rule("C14.expr", "expressions == matrices == constants == variables, every component")
    rep.rule("C14.orbit", "each Wyckoff position is exactly one orbit of the reference group, listed once")
    rep.rule("C14.nshape", "normalizer: integral rotation, |det| = 1, affine last row, 1/24 grid")
    rep.rule("C14.hand", "normalizers of the 65 Sohncke groups are proper (det +1)")
    rep.rule("C14.key-provenance", "table lookups in symmetryanalyzer.py are keyed by the detected space-group number, unmodified")
    TO.sg_info(rep, T, "C14.sginfo")
    TO.reader_keys(rep, T, "C14.keys")
    TO.expr_matrices(rep, T, "C14.expr")
    TO.orbit_closure(rep, T, "C14.orbit")
    TO.norm_shape(rep, T, "C14.nshape")
    TO.norm_sohncke(rep, T, "C14.hand")
    rep.floor("C14.sginfo", 690)
    rep.floor("C14.expr", 26000)
    rep.floor("C14.orbit", 1700)
    rep.floor("C14.nshape", 800)
    with rep.guard("C14.key-provenance"):
        key_provenance(rep, ctx.model, "C14.key-provenance")
    rep.floor("C14.key-provenance", 5)
    if True:
        rep.rule("C14.conj", "every normalizer maps the reference group onto itself")
        rep.rule("C14.metric", "every normalizer preserves a generic metric of the crystal system")
        rep.rule("C14.perm", "tabulated letter permutation = permutation induced on the Wyckoff positions")
        rep.rule("C14.closure", "identity + normalizers closed under composition modulo the group")
        TO.norm_conjugation(rep, T, "C14.conj")
        TO.norm_metric(rep, T, "C14.metric")
        TO.norm_perm(rep, T, "C14.perm")
        TO.norm_closure(rep, T, "C14.closure")
        rep.floor("C14.conj", 800)
        rep.floor("C14.perm", 6000)
        rep.floor("C14.closure", 230)


# ---------------------------------------------------------------------------------------------
def _is_sg_number_source(M, fq, call):
    """call is self.get_space_group_number()"""
    r = M.resolve(fq, call.func)
    return isinstance(r, str) and r.endswith(".get_space_group_number")


def check_sg_number_getter(M):
    fq = SA + ".SymmetryAnalyzer.get_space_group_number"
    fn = M.func(fq)
    fl = Flow(fn)
    rets = [s for s in M.own_nodes(fq) if isinstance(s, ast.Return) and s.value is not None]
    if not rets:
        raise AnalysisError("get_space_group_number has no return")
    for r in rets:
        sl = fl.slice(r.value, fl.node_of(r))
        ok_attr = any(isinstance(a, ast.Attribute) and a.attr == "number" for e in sl["exprs"] for a in ast.walk(e))
        ok_ds = any(isinstance(c, ast.Call) and isinstance(c.func, ast.Attribute) and c.func.attr == "get_symmetry_dataset"
                    for e in sl["exprs"] for c in ast.walk(e))
        arith = any(isinstance(a, (ast.BinOp, ast.UnaryOp, ast.Subscript)) for e in sl["exprs"] for a in ast.walk(e))
        if not (ok_attr and ok_ds) or arith:
            return False, norm(r)
    return True, norm(rets[0])


def key_ok(M, fq, expr, depth=0, seen=None):
    """-> (True, None) or (False, reason)"""
    seen = seen or set()
    if (fq, norm(expr)) in seen or depth > 4:
        return True, None
    seen.add((fq, norm(expr)))
    fl = Flow(M.func(fq))
    at = fl.node_of(expr)
    sl = fl.slice(expr, at, follow_mutations=False)
    for e in sl["exprs"]:
        for sub in ast.walk(e):
            if isinstance(sub, (ast.BinOp, ast.UnaryOp, ast.Constant, ast.Subscript, ast.IfExp, ast.BoolOp)):
                return False, f"key path contains {type(sub).__name__} `{norm(sub)}`"
            if isinstance(sub, ast.Call):
                if not _is_sg_number_source(M, fq, sub):
                    return False, f"key comes from call `{norm(sub)}`, not from the detected space-group number"
    if sl["names"] - {"self"}:
        return False, f"key uses non-local names {sorted(sl['names'])}"
    if not sl["params"] and not any(isinstance(s, ast.Call) for e in sl["exprs"] for s in ast.walk(e)):
        return False, "key has no source"
    M.callgraph()
    for p in sl["params"]:
        if p == "self":
            continue
        ps = M.params(fq)
        sites = [(cfq, call) for cfq, lst in M.call_sites.items() for call, cs in lst if fq in cs]
        if not sites:
            return False, f"parameter {p} of {fq} has no caller in the repo: key not tied to the detected group"
        for cfq, call in sites:
            arg = None
            for k in call.keywords:
                if k.arg == p:
                    arg = k.value
            if arg is None and p in ps and ps.index(p) < len(call.args):
                arg = call.args[ps.index(p)]
            if arg is None:
                return False, f"call {norm(call)[:60]} does not pass {p}"
            ok, why = key_ok(M, cfq, arg, depth + 1, seen)
            if not ok:
                return False, f"via {cfq.split('.')[-1]}: {why}"
    return True, None


def key_provenance(rep, M, rid):
    ok, txt = check_sg_number_getter(M)
    if ok:
        rep.ok(rid, "get_space_group_number returns dataset.number")
    else:
        rep.violation(rid, "get_space_group_number", f"does not return the dataset's `number` unmodified: `{txt}`",
                      M.where(SA + ".SymmetryAnalyzer.get_space_group_number"))
    n = 0
    for fq in M.functions():
        if M.owner_mod[fq] != SA:
            continue
        for node in M.own_nodes(fq):
            keyexpr = None
            if isinstance(node, ast.Subscript) and isinstance(node.value, ast.Name) and node.value.id in TABLES:
                keyexpr, tab = node.slice, node.value.id
            elif (isinstance(node, ast.Call) and isinstance(node.func, ast.Attribute) and node.func.attr == "get"
                  and isinstance(node.func.value, ast.Name) and node.func.value.id in TABLES and node.args):
                keyexpr, tab = node.args[0], node.func.value.id
            if keyexpr is None:
                continue
            r = M.resolve(fq, ast.Name(id=tab, ctx=ast.Load()))
            n += 1
            construct = f"{fq.split('.')[-1]}: {norm(node)}"
            ok, why = key_ok(M, fq, keyexpr)
            if ok:
                rep.ok(rid, construct)
            else:
                rep.violation(rid, construct, why, M.where(fq, node))
    rep.count("table_lookup_sites", n)


META = {
    "level": "proof",
    "text": "exhaustive discharge of finite obligations: every entry of the three literal tables (230 groups, 1731 "
            "Wyckoff positions, all normalizers) is checked with exact arithmetic against spglib's Hall database - "
            "labels, expression/matrix/constant agreement, orbit closure, normalizer shape, handedness, "
            "conjugation, metric preservation, induced letter permutations and closure (all in both tiers; thorough adds the rule self-validation on broken copies). The space is finite, so "
            "enumeration is a proof relative to the reference; plus def-use provenance of the lookup keys.",
    "note": "trusted base: spglib's Hall database as the International Tables in the standard setting (lowest Hall "
            "number per group); CPython ast, fractions, numpy integer arithmetic; the checker itself. Floats in the "
            "table are taken as 8-digit roundings of multiples of 1/24.",
    "technique": "exact-arithmetic table obligations over ast-extracted literals + def-use key provenance",
}
