"""C14 - built-in space-group tables agree with the International Tables (exhaustive)."""
import ast

from .. import tableobl as TO
from ..dataflow import Flow
from ..model import norm
from ..report import AnalysisError

SA = "matid.symmetry.symmetryanalyzer"
TABLES = {"SPACE_GROUP_INFO", "WYCKOFF_SETS", "CHIRALITY_PRESERVING_EUCLIDEAN_NORMALIZERS"}


def run(rep, ctx):
    rep.level = "proof"
    rep.exhaustive = True
    rep.trusted_base = ["spglib Hall-symbol database (standard setting = lowest Hall number per group)",
                        "CPython ast + fractions + numpy integer arithmetic", "vstatic.tableobl (this checker)"]
    rep.explanation = ("every entry of the three literal tables in matid/data/symmetry_data.py is extracted with a "
                       "closed ast evaluator and checked exactly (1/24 grid integers / Fractions) against the "
                       "operations, point groups and symbols of spglib's Hall database; plus def-use provenance of "
                       "the lookup keys in symmetryanalyzer.py")
    rep.assumptions = ["spglib's database is the International Tables in the standard setting",
                       "tabulated floats are 8-digit roundings of multiples of 1/24"]
    T = ctx.tables
    rep.count("groups", len(T["WYCKOFF_SETS"]))
    rep.count("positions", sum(len(TO.letters_of(v)) for v in T["WYCKOFF_SETS"].values()))
    rep.count("normalizers", sum(len(v) for v in T["CHIRALITY_PRESERVING_EUCLIDEAN_NORMALIZERS"].values()))
    rep.rule("C14.sginfo", "crystal system / point group / Bravais lattice of every group equal the reference")
    rep.rule("C14.keys", "every key the analyzer reads exists; letters contiguous; general position = group order; "
                         "letter permutations bijective")
    rep.rule("C14.expr", "expressions == matrices == constants == variables, every component")
    rep.rule("C14.orbit", "each Wyckoff position is exactly one orbit of the reference group, listed once")
    rep.rule("C14.nshape", "normalizer: integral rotation, |det| = 1, affine last row, 1/24 grid")
    rep.rule("C14.hand", "normalizers of the 65 Sohncke groups are proper (det +1)")
    rep.rule("C14.key-provenance", "table lookups in symmetryanalyzer.py are keyed by the detected space-group number, unmodified")
    TO.sg_info(rep, T, "C14.sginfo")
    TO.reader_keys(rep, T, "C14.keys")
    TO.expr_matrices(rep, T, "C14.expr")
    TO.orbit_closure(rep, T, "C14.orbit")
    TO.norm_shape(rep, T, "C14.nshape")
    TO.norm_sohncke(rep, T, "C14.hand")
    rep.floor("C14.sginfo", 690)
    rep.floor("C14.expr", 26000)
    rep.floor("C14.orbit", 1700)
    rep.floor("C14.nshape", 800)
    with rep.guard("C14.key-provenance"):
        key_provenance(rep, ctx.model, "C14.key-provenance")
    rep.floor("C14.key-provenance", 5)
    rep.rule("C14.apply", "the tabulated transformation is applied as x' = R x + t to the standardised positions (so the tabulated letter permutation is the one that happens)")
    with rep.guard("C14.apply"):
        from . import c05 as _c05
        _c05.r05_3(rep, ctx.model, "C14.apply")
    rep.rule("C14.getters", "the label getters, constant-folded over the 230 table values, report the reference crystal system / Bravais lattice / point group")
    with rep.guard("C14.getters"):
        getter_semantics(rep, ctx.model, T, "C14.getters")
    rep.floor("C14.getters", 232)
    rep.rule("C14.readonly", "the built-in tables are never modified at run time (what the analyzer looks up is what the source file tabulates)")
    with rep.guard("C14.readonly"):
        from .. import symrules as _SRr
        _SRr.tables_read_only(rep, ctx.model, "C14.readonly")
    rep.rule("C14.memo", "the dataset that keys every table lookup is dropped by reset(), which set_system() calls (no labels of a previous structure)")
    with rep.guard("C14.memo"):
        from .. import symrules as _SR
        _SR.reset_covers_caches(rep, ctx.model, "C14.memo")
    if True:
        rep.rule("C14.conj", "every normalizer maps the reference group onto itself")
        rep.rule("C14.metric", "every normalizer preserves a generic metric of the crystal system")
        rep.rule("C14.perm", "tabulated letter permutation = permutation induced on the Wyckoff positions")
        rep.rule("C14.closure", "identity + normalizers closed under composition modulo the group")
        TO.norm_conjugation(rep, T, "C14.conj")
        TO.norm_metric(rep, T, "C14.metric")
        TO.norm_perm(rep, T, "C14.perm")
        TO.norm_closure(rep, T, "C14.closure")
        rep.rule("C14.letters", "every tabulated position carries the letter the reference Wyckoff database (spglib) assigns to an orbit placed on it")
        with rep.guard("C14.letters"):
            TO.letter_reference(rep, T, "C14.letters")
        rep.floor("C14.letters", 1700)
        rep.floor("C14.conj", 800)
        rep.floor("C14.perm", 6000)
        rep.floor("C14.closure", 230)


# ---------------------------------------------------------------------------------------------
def _const_strs(e):
    if isinstance(e, (ast.List, ast.Tuple, ast.Set)) and all(isinstance(x, ast.Constant) and isinstance(x.value, str) for x in e.elts):
        return [x.value for x in e.elts]
    if isinstance(e, ast.Constant) and isinstance(e.value, str):
        return e.value
    return None


def getter_semantics(rep, M, T, rid, values=True):
    """constant-fold the three label getters over the 230 table values and compare with the reference labels.
    values=False (presentation independence only): a label must be a function of the detected space-group type - the table row of the
    detected number, the dataset's point-group symbol - whatever that function is; its agreement with the International Tables is not compared"""
    from .. import spgref
    SGI = T["SPACE_GROUP_INFO"]
    for name, key in (("get_crystal_system", "crystal_system"), ("get_point_group", None)):
        fq = SA + ".SymmetryAnalyzer." + name
        fn = M.func(fq)
        rets = [r for r in ast.walk(fn) if isinstance(r, ast.Return) and r.value is not None]
        fl = Flow(fn)
        if key:
            ok = all(any(isinstance(x, ast.Subscript) and isinstance(x.slice, ast.Constant) and x.slice.value == key
                         for e in fl.slice(r.value, fl.node_of(r))["exprs"] for x in ast.walk(e)) for r in rets) and \
                not any(isinstance(x, (ast.BinOp, ast.IfExp)) for r in rets for e in fl.slice(r.value, fl.node_of(r))["exprs"] for x in ast.walk(e))
            if not values:
                src = any(isinstance(x, ast.Name) and x.id == "SPACE_GROUP_INFO" for r in rets for e in fl.slice(r.value, fl.node_of(r))["exprs"] for x in ast.walk(e))
                if src:
                    rep.ok(rid, f"{name} is computed from the SPACE_GROUP_INFO row of the detected space group")
                else:
                    rep.violation(rid, name, "is not computed from the table row of the detected space group", M.where(fq))
            elif ok:
                rep.ok(rid, f"{name} returns SPACE_GROUP_INFO[n][{key!r}] unmodified")
            else:
                rep.violation(rid, name, f"does not return the tabulated {key!r} unmodified", M.where(fq))
        else:
            ok = all(any(isinstance(x, ast.Attribute) and x.attr == "pointgroup" for e in fl.slice(r.value, fl.node_of(r))["exprs"] for x in ast.walk(e)) for r in rets)
            if ok:
                rep.ok(rid, f"{name} returns the dataset's point group symbol")
            else:
                rep.violation(rid, name, "does not return dataset.pointgroup", M.where(fq))
    fq = SA + ".SymmetryAnalyzer.get_bravais_lattice"
    fn = M.func(fq)
    if not values:
        if any(isinstance(x, ast.Name) and x.id == "SPACE_GROUP_INFO" for x in ast.walk(fn)):
            rep.ok(rid, "get_bravais_lattice is computed from the SPACE_GROUP_INFO row of the detected space group")
        else:
            rep.violation(rid, "get_bravais_lattice", "is not computed from the table row of the detected space group", M.where(fq))
        return
    var = None
    for s2 in fn.body:
        if isinstance(s2, ast.Assign) and isinstance(s2.value, ast.Subscript) and isinstance(s2.value.slice, ast.Constant) and s2.value.slice.value == "bravais_lattice":
            var = norm(s2.targets[0])
            start = fn.body.index(s2)
    if var is None:
        raise AnalysisError("get_bravais_lattice: read of SPACE_GROUP_INFO[n]['bravais_lattice'] not found")
    for t in fn.body[:start]:
        if isinstance(t, ast.If) and isinstance(t.test, ast.Compare) and isinstance(t.test.ops[0], ast.IsNot) and isinstance(t.test.comparators[0], ast.Constant) \
                and t.test.comparators[0].value is None and any(isinstance(x, ast.Return) for x in t.body):
            rep.violation(rid, f"get_bravais_lattice: `{norm(t.test)}`", "the getter returns early whenever a space group *was* detected: every crystal gets None as its "
                          "Bravais lattice", M.where(fq, t))
    post = fn.body[start + 1:]

    def ev(e, val):
        if isinstance(e, ast.Name) and e.id == var:
            return val
        if isinstance(e, ast.Constant):
            return e.value
        if isinstance(e, ast.Subscript):
            base, i = ev(e.value, val), e.slice
            if isinstance(i, ast.Constant):
                return base[i.value]
            if isinstance(i, ast.Slice):
                lo = ev(i.lower, val) if i.lower else None
                hi = ev(i.upper, val) if i.upper else None
                return base[lo:hi]
        if isinstance(e, ast.BinOp) and isinstance(e.op, ast.Add):
            return ev(e.left, val) + ev(e.right, val)
        if isinstance(e, (ast.List, ast.Tuple, ast.Set)):
            return [ev(x, val) for x in e.elts]
        if isinstance(e, ast.Compare) and len(e.ops) == 1:
            a, b = ev(e.left, val), ev(e.comparators[0], val)
            op = e.ops[0]
            return {ast.In: lambda: a in b, ast.NotIn: lambda: a not in b, ast.Eq: lambda: a == b, ast.NotEq: lambda: a != b}[type(op)]()
        if isinstance(e, ast.BoolOp):
            vals = [ev(x, val) for x in e.values]
            return all(vals) if isinstance(e.op, ast.And) else any(vals)
        if isinstance(e, ast.UnaryOp) and isinstance(e.op, ast.Not):
            return not ev(e.operand, val)
        if isinstance(e, ast.Call) and isinstance(e.func, ast.Attribute) and e.func.attr in ("startswith", "endswith", "replace", "upper", "lower"):
            return getattr(ev(e.func.value, val), e.func.attr)(*[ev(x, val) for x in e.args])
        raise AnalysisError(f"get_bravais_lattice: expression `{norm(e)}` is outside the constant folder")

    def run(stmts, val):
        for s2 in stmts:
            if isinstance(s2, ast.If):
                r = run(s2.body if ev(s2.test, val) else s2.orelse, val)
                if r[0] == "ret":
                    return r
                val = r[1]
            elif isinstance(s2, ast.Assign) and norm(s2.targets[0]) == var:
                val = ev(s2.value, val)
            elif isinstance(s2, ast.Return):
                return ("ret", ev(s2.value, val))
            elif isinstance(s2, ast.Expr) and isinstance(s2.value, ast.Constant):
                continue
            else:
                raise AnalysisError(f"get_bravais_lattice: statement `{norm(s2)[:50]}` is outside the constant folder")
        return ("val", val)
    for g in range(1, 231):
        tab = SGI.get(g, {}).get("bravais_lattice")
        if not isinstance(tab, str):
            continue
        r = run(post, tab)
        got = r[1]
        sysname = spgref.crystal_system(g)
        c = spgref.centring(g)
        want = spgref.PEARSON[sysname] + ("S" if c in "ABC" else c)
        if r[0] == "ret" and got == want:
            rep.ok(rid, f"get_bravais_lattice for group {g}: {tab!r} -> {got!r}")
        else:
            rep.violation(rid, f"get_bravais_lattice for group {g}", f"tabulated {tab!r} is reported as {got!r}; the Pearson symbol with merged "
                          f"side centrings is {want!r}", M.where(fq))


def _is_sg_number_source(M, fq, call):
    """call is self.get_space_group_number()"""
    r = M.resolve(fq, call.func)
    return isinstance(r, str) and r.endswith(".get_space_group_number")


def check_sg_number_getter(M):
    fq = SA + ".SymmetryAnalyzer.get_space_group_number"
    fn = M.func(fq)
    fl = Flow(fn)
    rets = [s for s in M.own_nodes(fq) if isinstance(s, ast.Return) and s.value is not None]
    if not rets:
        raise AnalysisError("get_space_group_number has no return")
    for r in rets:
        sl = fl.slice(r.value, fl.node_of(r))
        ok_attr = any(isinstance(a, ast.Attribute) and a.attr == "number" for e in sl["exprs"] for a in ast.walk(e))
        ok_ds = any(isinstance(c, ast.Call) and isinstance(c.func, ast.Attribute) and c.func.attr == "get_symmetry_dataset"
                    for e in sl["exprs"] for c in ast.walk(e))
        arith = any(isinstance(a, (ast.BinOp, ast.UnaryOp, ast.Subscript)) for e in sl["exprs"] for a in ast.walk(e))
        if not (ok_attr and ok_ds) or arith:
            return False, norm(r)
    return True, norm(rets[0])


def key_ok(M, fq, expr, depth=0, seen=None):
    """-> (True, None) or (False, reason)"""
    seen = seen or set()
    if (fq, norm(expr)) in seen or depth > 4:
        return True, None
    seen.add((fq, norm(expr)))
    fl = Flow(M.func(fq))
    at = fl.node_of(expr)
    sl = fl.slice(expr, at, follow_mutations=False)
    for e in sl["exprs"]:
        for sub in ast.walk(e):
            if isinstance(sub, (ast.BinOp, ast.UnaryOp, ast.Constant, ast.Subscript, ast.IfExp, ast.BoolOp)):
                return False, f"key path contains {type(sub).__name__} `{norm(sub)}`"
            if isinstance(sub, ast.Call):
                if not _is_sg_number_source(M, fq, sub):
                    return False, f"key comes from call `{norm(sub)}`, not from the detected space-group number"
    if sl["names"] - {"self"}:
        return False, f"key uses non-local names {sorted(sl['names'])}"
    if not sl["params"] and not any(isinstance(s, ast.Call) for e in sl["exprs"] for s in ast.walk(e)):
        return False, "key has no source"
    M.callgraph()
    for p in sl["params"]:
        if p == "self":
            continue
        ps = M.params(fq)
        sites = [(cfq, call) for cfq, lst in M.call_sites.items() for call, cs in lst if fq in cs]
        if not sites:
            return False, f"parameter {p} of {fq} has no caller in the repo: key not tied to the detected group"
        for cfq, call in sites:
            arg = None
            for k in call.keywords:
                if k.arg == p:
                    arg = k.value
            if arg is None and p in ps and ps.index(p) < len(call.args):
                arg = call.args[ps.index(p)]
            if arg is None:
                return False, f"call {norm(call)[:60]} does not pass {p}"
            ok, why = key_ok(M, cfq, arg, depth + 1, seen)
            if not ok:
                return False, f"via {cfq.split('.')[-1]}: {why}"
    return True, None


def key_provenance(rep, M, rid):
    ok, txt = check_sg_number_getter(M)
    if ok:
        rep.ok(rid, "get_space_group_number returns dataset.number")
    else:
        rep.violation(rid, "get_space_group_number", f"does not return the dataset's `number` unmodified: `{txt}`",
                      M.where(SA + ".SymmetryAnalyzer.get_space_group_number"))
    n = 0
    for fq in M.functions():
        if M.owner_mod[fq] != SA:
            continue
        for node in M.own_nodes(fq):
            keyexpr = None
            if isinstance(node, ast.Subscript) and isinstance(node.value, ast.Name) and node.value.id in TABLES:
                keyexpr, tab = node.slice, node.value.id
            elif (isinstance(node, ast.Call) and isinstance(node.func, ast.Attribute) and node.func.attr == "get"
                  and isinstance(node.func.value, ast.Name) and node.func.value.id in TABLES and node.args):
                keyexpr, tab = node.args[0], node.func.value.id
            if keyexpr is None:
                continue
            r = M.resolve(fq, ast.Name(id=tab, ctx=ast.Load()))
            n += 1
            construct = f"{fq.split('.')[-1]}: {norm(node)}"
            ok, why = key_ok(M, fq, keyexpr)
            if ok:
                rep.ok(rid, construct)
            else:
                rep.violation(rid, construct, why, M.where(fq, node))
    rep.count("table_lookup_sites", n)


META = {
    "level": "proof",
    "text": "exhaustive discharge of finite obligations: every entry of the three literal tables (230 groups, 1731 "
            "Wyckoff positions, all normalizers) is checked with exact arithmetic against spglib's Hall database - "
            "labels, expression/matrix/constant agreement, orbit closure, normalizer shape, handedness, "
            "conjugation, metric preservation, induced letter permutations and closure (all in both tiers; thorough adds the rule self-validation on broken copies). The space is finite, so "
            "enumeration is a proof relative to the reference; plus def-use provenance of the lookup keys. The letter of each of the 1731 positions is "
            "compared with the letter spglib's Wyckoff database assigns to a probe orbit built from the literal table entry (C14.letters: the only obligation "
            "that calls spglib's symmetry finder - on table data, never on matid code - and therefore uses floating point with symprec 1e-5), and the dataset "
            "memo that keys every lookup must be dropped by reset() (C14.memo)."
            " Also: the label getters are constant-folded over the 230 table values (e.g. the side-centring merge of get_bravais_lattice) and the application of the tabulated transformation is checked as x' = R x + t (affine normal form), since 'permutes the letters exactly as tabulated' is about what the code does with the entry.",
    "note": "trusted base: spglib's Hall database as the International Tables in the standard setting (lowest Hall "
            "number per group); CPython ast, fractions, numpy integer arithmetic; the checker itself. Floats in the "
            "table are taken as 8-digit roundings of multiples of 1/24. C14.letters additionally trusts spglib.get_symmetry_dataset (Wyckoff database and "
            "symmetry search on exact probe crystals).",
    "technique": "exact-arithmetic table obligations over ast-extracted literals + def-use key provenance",
}
