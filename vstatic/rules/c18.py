"""C18 - the classifier recognises pristine slabs / monolayers and isolates adsorbates (structural clauses only).

Whether a concrete slab is found as one region covering every slab atom is decided by the
floating-point region search and is NOT decided here. Decided are the mechanisms the statement
anchors, each a necessary condition of "Surface with the outliers being exactly the adsorbate
atoms / Material2D with no outliers": an atom of a species absent from the prototype cell can
never become a member of the region (so it is an outlier), outliers are exactly the complement of
the members, one seed per species is the occurrence nearest to the periodic centre of mass of the
wrapped copy, the region kept is the largest one found (or the first complete one), a direction
counts as connected exactly when some unit was reached along +d and -d, and Surface vs Material2D
is chosen by the region's 2D flag under the coverage / periodicity guards.
"""
import ast

from ..dataflow import Flow
from ..model import norm
from ..report import AnalysisError
from . import c03, c16, c17

CLS = c17.CLS
FQ = c17.FQ
GEO = c17.GEO
CV = CLS + ".cross_validate_region"
LUC = "matid.core.linkedunits.LinkedUnitCollection"
PF = "matid.core.periodicfinder.PeriodicFinder"


# ----------------------------------------------------------------------------- R18.4 choice of the best region
def r18_4(rep, M, rid):
    fn = M.func(CV)
    fl = Flow(fn)
    calls = M.calls_to(CV, PF + ".get_region")
    if not calls:
        raise AnalysisError("cross_validate_region: get_region not called")
    call = calls[0]
    loops = [t for t, pol in fl.cfg.branch_conditions(fl.node_of(call)) if isinstance(t, ast.For) and pol is True]
    iters = [norm(lp.iter) for lp in loops]
    need = {"seed_indices", "self.max_cell_size", "self.abs_pos_tol"}
    early = [x for lp in loops for x in ast.walk(lp) if isinstance(x, (ast.Break, ast.Continue))]
    if need <= set(iters) and not early:
        rep.ok(rid, "cross_validate_region tries every seed x cell size x position tolerance")
    else:
        rep.violation(rid, "cross_validate_region: candidate loops", f"the region search iterates {iters} "
                      f"{'with early break/continue ' if early else ''}; required every combination of seed_indices, self.max_cell_size and self.abs_pos_tol: "
                      "a slab whose region is only found from the second species' seed or at the looser tolerance is missed", M.where(CV, call))
    b = M.bind_args(PF + ".get_region", call)
    tv = {norm(lp.iter): norm(lp.target) for lp in loops}
    want = {"seed_index": tv.get("seed_indices"), "max_cell_size": tv.get("self.max_cell_size"), "pos_tol": tv.get("self.abs_pos_tol")}
    for par, v in want.items():
        got = b.get(par)
        if v is not None and got is not None and norm(got) == v:
            rep.ok(rid, f"cross_validate_region: get_region({par}={v})")
        else:
            rep.violation(rid, f"cross_validate_region: get_region {par}", f"receives `{norm(got) if got is not None else None}`, not the loop value `{v}`", M.where(CV, call))
    # running maximum on the number of basis atoms; complete coverage returns at once
    region = next((norm(s.targets[0]) for s in ast.walk(fn) if isinstance(s, ast.Assign) and s.value is call), None)
    if region is None:
        raise AnalysisError("cross_validate_region: result of get_region is not bound")
    accs = []
    for t in ast.walk(fn):
        if isinstance(t, ast.If) and isinstance(t.test, ast.Compare) and len(t.test.ops) == 1:
            assigned = {norm(s.targets[0]): s.value for s in t.body if isinstance(s, ast.Assign) and len(s.targets) == 1}
            l, r = norm(t.test.left), norm(t.test.comparators[0])
            if r in assigned and norm(assigned[r]) == l:
                accs.append((t, l, r, isinstance(t.test.ops[0], (ast.Gt, ast.GtE)), assigned))
            elif l in assigned and norm(assigned[l]) == r:
                accs.append((t, r, l, isinstance(t.test.ops[0], (ast.Lt, ast.LtE)), assigned))
    if not accs:
        raise AnalysisError("cross_validate_region: running-maximum selection of the best region not recognised")
    rets = [r for r in ast.walk(fn) if isinstance(r, ast.Return) and r.value is not None]
    for t, cur, best, is_max, assigned in accs:
        kept = [k for k, v in assigned.items() if norm(v) == region]
        sl = fl.slice(ast.Name(id=cur, ctx=ast.Load()), fl.node_of(t))
        counts_basis = any(isinstance(x, ast.Call) and isinstance(x.func, ast.Attribute) and x.func.attr == "get_basis_indices" and norm(x.func.value) == region
                           for e in sl["exprs"] for x in ast.walk(e)) and any(isinstance(x, ast.Call) and isinstance(x.func, ast.Name) and x.func.id == "len"
                                                                              for e in sl["exprs"] for x in ast.walk(e))
        returned = kept and any(norm(r.value) == kept[0] for r in rets)
        if not is_max:
            rep.violation(rid, f"cross_validate_region: selection `{norm(t.test)}`", "keeps the region with the *fewest* atoms: a local pattern beats the slab, the "
                          "slab atoms are reported as outliers", M.where(CV, t))
        elif not counts_basis:
            rep.violation(rid, f"cross_validate_region: selection `{norm(t.test)}`", f"`{cur}` is not the number of basis atoms of the candidate region", M.where(CV, t))
        elif not returned:
            rep.violation(rid, f"cross_validate_region: selection `{norm(t.test)}`", "the best region is tracked but not the one returned", M.where(CV, t))
        else:
            rep.ok(rid, f"cross_validate_region returns the region with most basis atoms (`{kept[0]}`)")
    full = [t for t in ast.walk(fn) if isinstance(t, ast.If) and any(isinstance(s, ast.Return) and s.value is not None and norm(s.value) == region for s in t.body)]
    for t in full:
        if not (isinstance(t.test, ast.Compare) and len(t.test.ops) == 1 and isinstance(t.test.ops[0], ast.Eq)):
            rep.violation(rid, f"cross_validate_region: early return `{norm(t.test)}`", "a candidate region is returned at once under a test other than 'it contains every "
                          "atom': later, larger regions are never tried", M.where(CV, t))
            continue
        sides = {norm(t.test.left), norm(t.test.comparators[0])}
        sl = fl.slice(t.test, fl.node_of(t))
        n_all = any(isinstance(x, ast.Call) and isinstance(x.func, ast.Name) and x.func.id == "len" and x.args and norm(x.args[0]) == [q for q in M.params(CV) if q != "self"][0]
                    for e in sl["exprs"] for x in ast.walk(e))
        if n_all and len(sides) == 2:
            rep.ok(rid, "cross_validate_region stops early only for a region that contains every atom")
        else:
            rep.violation(rid, f"cross_validate_region: early return `{norm(t.test)}`", "a candidate region is returned at once although it does not contain every atom: "
                          "later, larger regions are never tried", M.where(CV, t))
    # a region that is None is never selected
    guards = [t for t, pol in fl.cfg.branch_conditions(fl.node_of(accs[0][0])) if isinstance(t, ast.If) and pol is True and isinstance(t.test, ast.Compare)
              and isinstance(t.test.ops[0], ast.IsNot) and norm(t.test.left) == region]
    if guards:
        rep.ok(rid, "cross_validate_region only ranks regions that were found")
    else:
        rep.violation(rid, "cross_validate_region: ranking guard", f"`{region}` is ranked without an `is not None` test", M.where(CV, accs[0][0]))


# ----------------------------------------------------------------------------- R18.5 seed atoms
def r18_5(rep, M, rid):
    fn = M.func(FQ)
    fl = Flow(fn)
    com = M.calls_to(FQ, GEO + ".get_center_of_mass")
    if not com:
        rep.violation(rid, "classify: seed reference point", "the periodic centre of mass (matid.geometry.get_center_of_mass) is not used", M.where(FQ))
        return
    cm_name = next((norm(s.targets[0]) for s in ast.walk(fn) if isinstance(s, ast.Assign) and s.value is com[0]), None)
    sorts = [s for s in ast.walk(fn) if isinstance(s, ast.Assign) and isinstance(s.value, ast.Call) and M.ext_name(FQ, s.value.func) in ("numpy.argsort",)]
    if not sorts or cm_name is None:
        raise AnalysisError("classify: ordering of the atoms by distance to the centre of mass not recognised")
    srt = sorts[0]
    sl = fl.slice(srt.value.args[0], fl.node_of(srt))
    by_dist = any(isinstance(x, ast.Call) and M.ext_name(FQ, x.func) == "numpy.linalg.norm" for e in sl["exprs"] for x in ast.walk(e)) and \
        any(isinstance(x, ast.BinOp) and isinstance(x.op, ast.Sub) and cm_name in {norm(x.left), norm(x.right)} for e in sl["exprs"] for x in ast.walk(e))
    for e in sl["exprs"]:
        for x in ast.walk(e):
            if isinstance(x, ast.Call) and M.ext_name(FQ, x.func) == "numpy.linalg.norm":
                ax = next((k.value for k in x.keywords if k.arg == "axis"), None)
                if not (isinstance(ax, ast.Constant) and ax.value in (1, -1)):
                    rep.violation(rid, f"classify: `{norm(x)[:50]}`", "the distance of each atom to the centre of mass is a norm over axis 1 of the (atoms x 3) array; "
                                  "over another axis there are three numbers, the seed loop sees atoms 0..2 only", M.where(FQ, x))
    desc = any(isinstance(x, ast.UnaryOp) and isinstance(x.op, ast.USub) for x in ast.walk(srt.value)) or \
        any(isinstance(x, ast.Subscript) and norm(x.slice).replace(" ", "") == "::-1" for x in ast.walk(srt.value))
    order = norm(srt.targets[0])
    loops = [lp for lp in ast.walk(fn) if isinstance(lp, ast.For) and norm(lp.iter) == order]
    rev = any(isinstance(lp.iter, ast.Call) and isinstance(lp.iter.func, ast.Name) and lp.iter.func.id == "reversed" for lp in ast.walk(fn) if isinstance(lp, ast.For))
    if by_dist and not desc and loops and not rev:
        rep.ok(rid, f"classify: atoms are visited in ascending distance from the periodic centre of mass `{cm_name}`")
    elif not by_dist:
        rep.violation(rid, "classify: seed ordering", f"`{norm(srt)}` does not order the atoms by their distance to the periodic centre of mass", M.where(FQ, srt))
    else:
        rep.violation(rid, "classify: seed ordering", "atoms are visited from the *farthest* to the centre of mass: the seed is an edge or adsorbate atom", M.where(FQ, srt))
    if loops:
        lp = loops[0]
        i = norm(lp.target)
        appends = [c for c in ast.walk(lp) if isinstance(c, ast.Call) and isinstance(c.func, ast.Attribute) and c.func.attr == "append" and c.args and norm(c.args[0]) == i]
        removes = [c for c in ast.walk(lp) if isinstance(c, ast.Call) and isinstance(c.func, ast.Attribute) and c.func.attr in ("remove", "discard")]
        ok = False
        for a in appends:
            conds = [t for t, pol in fl.cfg.branch_conditions(fl.node_of(a)) if isinstance(t, ast.If) and pol is True and isinstance(t.test, ast.Compare)
                     and isinstance(t.test.ops[0], ast.In)]
            for t in conds:
                pool = norm(t.test.comparators[0])
                elem = norm(t.test.left)
                same_branch = any(norm(r.func.value) == pool and r.args and norm(r.args[0]) == elem and any(r is x for s in t.body for x in ast.walk(s)) for r in removes)
                el_sl = fl.slice(t.test.left, fl.node_of(t))
                from_num = any(isinstance(x, ast.Call) and isinstance(x.func, ast.Attribute) and x.func.attr == "get_atomic_numbers" for e in el_sl["exprs"] for x in ast.walk(e))
                if same_branch and from_num:
                    ok = True
        if ok:
            rep.ok(rid, "classify: the first occurrence of every species in that order becomes a seed (one seed per species)")
        else:
            rep.violation(rid, "classify: one seed per species", "the seed list is not 'first occurrence of each element, element then struck off': a species can be skipped "
                          "(its slab is never searched) or seeded more than once", M.where(FQ, lp))
        # the loop stops early only when every species has its seed: `if len(<pool>) == 0: break`
        for br in [b for b in ast.walk(lp) if isinstance(b, ast.Break)]:
            conds = [(t, pol) for t, pol in fl.cfg.branch_conditions(fl.node_of(br)) if isinstance(t, ast.If) and any(x is br for x in ast.walk(t))]
            okb = any(pol and isinstance(t.test, ast.Compare) and isinstance(t.test.ops[0], ast.Eq) and isinstance(t.test.left, ast.Call)
                      and isinstance(t.test.left.func, ast.Name) and t.test.left.func.id == "len" and isinstance(t.test.comparators[0], ast.Constant)
                      and t.test.comparators[0].value == 0 for t, pol in conds) or \
                any(pol and isinstance(t.test, ast.UnaryOp) and isinstance(t.test.op, ast.Not) for t, pol in conds)
            if okb:
                rep.ok(rid, "classify: the seed loop ends early only when no species is left without a seed")
            else:
                rep.violation(rid, "classify: early exit of the seed loop", f"`break` under `{norm(conds[0][0].test) if conds else 'no test'}`: the loop stops while species are "
                              "still waiting for their seed (after the first atom), so only the element nearest to the centre of mass is ever used as seed and the other "
                              "slab / the adsorbate-covered side is never searched", M.where(FQ, br))
    # the centre-of-mass ordering is the branch of seed_position == "cm" (the default)
    at_sort = fl.node_of(srt)
    disp = [(t, pol) for t, pol in fl.cfg.branch_conditions(at_sort) if isinstance(getattr(t, "test", None), ast.Compare) and "seed_position" in norm(t.test)
            and any(isinstance(x, ast.Constant) and x.value == "cm" for x in ast.walk(t.test))]
    if disp:
        t, pol = disp[-1]
        if (isinstance(t.test.ops[0], ast.Eq) and pol) or (isinstance(t.test.ops[0], ast.NotEq) and not pol):
            rep.ok(rid, "classify: the centre-of-mass seeds are used when seed_position == 'cm'")
        else:
            rep.violation(rid, f"classify: `{norm(t.test)}`", "the centre-of-mass ordering runs when seed_position is *not* 'cm': a default-constructed Classifier takes the "
                          "branch for explicit positions with the string 'cm'", M.where(FQ, t))
    # the reference point is computed on the wrapped working copy
    arg = com[0].args[0] if com[0].args else None
    if isinstance(arg, ast.Call) and isinstance(arg.func, ast.Attribute) and arg.func.attr == "copy" and not arg.args and isinstance(arg.func.value, ast.Name):
        arg = arg.func.value      # a copy of the working copy is as good as the working copy
    inp = M.params(FQ)[0]
    if isinstance(arg, ast.Name) and arg.id != inp and inp in fl.slice(arg, fl.node_of(com[0]))["params"]:
        rep.ok(rid, f"classify: the centre of mass is that of the working copy `{arg.id}`")
    else:
        rep.violation(rid, "classify: centre of mass subject", f"`{norm(arg) if arg is not None else None}` is not the wrapped working copy", M.where(FQ, com[0]))


# ----------------------------------------------------------------------------- R18.6 connected directions
def r18_6(rep, M, rid):
    fq = LUC + ".get_connected_directions"
    fn = M.func(fq)
    src = ast.unparse(fn)
    cmps = [c for c in ast.walk(fn) if isinstance(c, ast.Call) and (M.ext_name(fq, c.func) or "").endswith("array_equal") and len(c.args) == 2]
    pos = [c for c in cmps if not any(isinstance(x, ast.UnaryOp) and isinstance(x.op, ast.USub) for a in c.args for x in ast.walk(a))]
    neg = [c for c in cmps if any(isinstance(x, ast.UnaryOp) and isinstance(x.op, ast.USub) for a in c.args for x in ast.walk(a))]
    if not pos or not neg:
        rep.violation(rid, "get_connected_directions: +d / -d tests", f"found {len(pos)} test(s) against +direction and {len(neg)} against -direction; a direction is cyclically "
                      "connected only if some unit was reached along both", M.where(fq))
        return
    in_edges = any(isinstance(c, ast.Call) and isinstance(c.func, ast.Attribute) and c.func.attr == "in_edges" for c in ast.walk(fn))
    for c in [c for c in ast.walk(fn) if isinstance(c, ast.Call) and isinstance(c.func, ast.Attribute) and c.func.attr == "in_edges"]:
        dv = next((k.value for k in c.keywords if k.arg == "data"), None)
        if isinstance(dv, ast.Constant) and dv.value is True:
            rep.ok(rid, "get_connected_directions: the incoming edges are read with their data (the multipliers)")
        else:
            rep.violation(rid, f"get_connected_directions: `{norm(c)[:50]}`", "the incoming edges are read without their data dictionaries, but the multiplier of each edge is "
                          "looked up in them: the lookup fails (or finds nothing) and no direction is ever found connected", M.where(fq, c))
    both = [t for t in ast.walk(fn) if isinstance(t, ast.If) and isinstance(t.test, ast.BoolOp) and isinstance(t.test.op, ast.And)
            and any(isinstance(s, ast.Expr) and isinstance(s.value, ast.Call) and isinstance(s.value.func, ast.Attribute) and s.value.func.attr == "add" for s in t.body)]
    either = [t for t in ast.walk(fn) if isinstance(t, ast.If) and isinstance(t.test, ast.BoolOp) and isinstance(t.test.op, ast.Or)
              and any(isinstance(s, ast.Expr) and isinstance(s.value, ast.Call) and isinstance(s.value.func, ast.Attribute) and s.value.func.attr == "add" for s in t.body)]
    if either:
        rep.violation(rid, "get_connected_directions: `" + norm(either[0].test) + "`", "a direction is marked connected when a unit was reached along +d *or* -d: every finite "
                      "flake counts as periodic, so clusters and ribbons are classified as Surface / Material2D", M.where(fq, either[0]))
    elif both and in_edges:
        rep.ok(rid, "get_connected_directions: direction d is connected iff some unit has incoming edges with multiplier +e_d and -e_d")
    else:
        raise AnalysisError("get_connected_directions: conjunction of the +d and -d findings not recognised")
    # the two findings are booleans that start False for every direction and are raised by exactly their own test
    def flag_of(cmp_call):
        t = next((t for t in ast.walk(fn) if isinstance(t, ast.If) and any(x is cmp_call for x in ast.walk(t.test))), None)
        if t is None or len(t.body) != 1 or not (isinstance(t.body[0], ast.Assign) and isinstance(t.body[0].targets[0], ast.Name) and isinstance(t.body[0].value, ast.Constant)):
            return None, None
        return t.body[0].targets[0].id, t.body[0].value.value
    fp, vp = flag_of(pos[0])
    fn_, vn = flag_of(neg[0])
    if fp is None or fn_ is None:
        raise AnalysisError("get_connected_directions: the flags raised by the +d / -d tests were not recognised")
    inits = {f: [s2.value.value for s2 in ast.walk(fn) if isinstance(s2, ast.Assign) and isinstance(s2.targets[0], ast.Name) and s2.targets[0].id == f
                 and isinstance(s2.value, ast.Constant) and not any(s2 is b for t in ast.walk(fn) if isinstance(t, ast.If) for b in t.body)] for f in (fp, fn_)}
    conj = {x.id for t in both for x in t.test.values if isinstance(x, ast.Name)} if both else set()
    disj = [t for t in ast.walk(fn) if isinstance(t, ast.If) and isinstance(t.test, ast.BoolOp) and isinstance(t.test.op, ast.Or)
            and {x.id for x in t.test.values if isinstance(x, ast.Name)} == {fp, fn_}]
    if disj:
        rep.violation(rid, f"get_connected_directions: `{norm(disj[0].test)}`", "a test on the two findings is a disjunction: the scan of a unit's edges stops (or the direction is "
                      "marked) as soon as one of +d / -d was seen, so the other one is never found", M.where(fq, disj[0]))
    if vp is True and vn is True and inits[fp] == [False] and inits[fn_] == [False] and fp != fn_ and (not both or conj == {fp, fn_}):
        rep.ok(rid, f"get_connected_directions: `{fp}` / `{fn_}` start False for every direction and are raised by the +d / -d test respectively")
    else:
        rep.violation(rid, "get_connected_directions: flags of the +d / -d findings", f"`{fp}` is set to {vp} by the +d test (initial {inits[fp]}), `{fn_}` to {vn} by the -d test "
                      f"(initial {inits[fn_]}), conjunction over {sorted(conj)}: required False initially, True when found, both in the conjunction - otherwise every direction "
                      "(or none) counts as closed and slabs / flakes are classified wrongly", M.where(fq))
    # the graph must keep parallel edges: +e_d and -e_d often arrive from the *same* neighbouring unit (cells that repeat once or twice)
    gattr = {norm(s2.value) for s2 in ast.walk(fn) if isinstance(s2, ast.Assign) and isinstance(s2.value, ast.Attribute) and isinstance(s2.value.value, ast.Name)
             and s2.value.value.id == "self"} | {norm(c.func.value) for c in ast.walk(fn) if isinstance(c, ast.Call) and isinstance(c.func, ast.Attribute)
                                                  and c.func.attr in ("in_edges", "nodes") and isinstance(c.func.value, ast.Attribute)}
    init = M.func(LUC + ".__init__")
    graphs = [s2 for s2 in ast.walk(init) if isinstance(s2, ast.Assign) and norm(s2.targets[0]) in gattr and isinstance(s2.value, ast.Call)]
    if not graphs:
        raise AnalysisError("LinkedUnitCollection.__init__: construction of the search graph not found")
    kind = M.ext_name(LUC + ".__init__", graphs[0].value.func) or norm(graphs[0].value.func)
    if kind.endswith("MultiDiGraph"):
        rep.ok(rid, "the search graph is a MultiDiGraph (parallel edges with different multipliers between the same two units are kept)")
    else:
        rep.violation(rid, f"LinkedUnitCollection.__init__: `{norm(graphs[0])}`", f"the search graph is a {kind.split('.')[-1]}: it keeps one edge per ordered pair of units, so when "
                      "+e_d and -e_d both lead from the same neighbour (prototype cells that repeat once or twice along d) one of them is overwritten, the direction reads as "
                      "unconnected and a slab is classified Class2D instead of Surface", M.where(LUC + ".__init__", graphs[0]))
    # result polarity: directions left in the candidate set are the *un*connected ones
    rets = [r for r in ast.walk(fn) if isinstance(r, ast.Return) and isinstance(r.value, ast.Name)]
    flags = rets[-1].value.id if rets else None
    init = [s2 for s2 in ast.walk(fn) if isinstance(s2, ast.Assign) and norm(s2.targets[0]) == flags and "[True, True, True]" in norm(s2.value)]
    stores = [s2 for s2 in ast.walk(fn) if isinstance(s2, ast.Assign) and isinstance(s2.targets[0], ast.Subscript) and norm(s2.targets[0].value) == flags
              and isinstance(s2.value, ast.Constant)]
    left = {x.id for s2 in stores for x in ast.walk(s2.targets[0].slice) if isinstance(x, ast.Name)}
    shrunk = [s2 for s2 in ast.walk(fn) if isinstance(s2, ast.AugAssign) and isinstance(s2.op, ast.Sub) and isinstance(s2.target, ast.Name) and s2.target.id in left]
    added = {norm(c.func.value) for t in both for s2 in t.body for c in ast.walk(s2) if isinstance(c, ast.Call) and isinstance(c.func, ast.Attribute) and c.func.attr == "add"}
    if flags and init and stores and all(s2.value.value is False for s2 in stores) and shrunk and any(norm(s2.value) in added for s2 in shrunk):
        rep.ok(rid, "get_connected_directions: connected directions are removed from the candidate set, the rest is reported False")
    else:
        rep.violation(rid, "get_connected_directions: result polarity", "the returned flags are not 'True except for the directions never closed'", M.where(fq))


def run(rep, ctx):
    M = ctx.model
    rep.explanation = ("species-strict membership of regions, complement definition of the outliers, seed selection shape, running-maximum choice of the region, "
                       "logic of the connected-direction test, guard structure of the Surface / Material2D dispatch")
    rep.assumptions = ["whether the region search covers the whole slab / monolayer for a concrete material and orientation is numeric and is not decided",
                       "the decided clauses are necessary, not sufficient, for the statement"]
    rep.rule("R18.1", "an atom of another species is never a member of a region: matching is species-strict and members are basis indices only (shared with C03/C16)")
    with rep.guard("R18.1"):
        c16.r16_1(rep, M, "R18.1", region=True)
        c03.r03_2(rep, M, "R18.1")
    rep.rule("R18.2", "basis atoms and outliers partition the atoms; prototype_cell is the region's cell (shared with C17)")
    with rep.guard("R18.2"):
        c17.r17_3(rep, M, "R18.2")
    rep.rule("R18.3", "Surface / Material2D only under region found, coverage >= min_coverage, two connected directions, chosen by is_2d (shared with C17)")
    with rep.guard("R18.3"):
        from ..report import Filtered
        # the single-atom class concerns no slab / monolayer input: where `Atom` is returned is C17's business
        slabs = Filtered(rep, lambda c: "return Atom(" not in c)
        c17.r17_2(slabs, M, "R18.3")
        c17.r17_1(slabs, M, "R18.3")
    rep.rule("R18.4", "every seed x cell size x tolerance is tried; the region with most basis atoms is returned, at once only if it contains every atom")
    with rep.guard("R18.4"):
        r18_4(rep, M, "R18.4")
    rep.rule("R18.5", "one seed per species: the occurrence nearest to the periodic centre of mass of the wrapped copy")
    with rep.guard("R18.5"):
        r18_5(rep, M, "R18.5")
    rep.rule("R18.6", "a direction is connected iff some unit was reached along +d and -d")
    with rep.guard("R18.6"):
        r18_6(rep, M, "R18.6")
        target_cell_adds_multiplier(rep, M, "R18.6")
    rep.rule("R18.8", "the prototype cell of a monolayer found through a 3D cell is reduced to (a, b) and reported with two spans, so the region is 2D (shared with C04)")
    with rep.guard("R18.8"):
        from . import c04 as _c04
        _c04.r04_4(rep, M, "R18.8")
        _c04.r04_1(rep, M, "R18.8")
        _c04.masked_index_spaces(rep, M, "R18.8")
    rep.rule("R18.7", "thresholds and radii of the classifier reach the region search; nothing nondeterministic is reachable (shared with C17)")
    with rep.guard("R18.7"):
        c17.r17_6(rep, M, "R18.7")
        c17.r17_5(rep, M, "R18.7")
        option_defaults_agree(rep, M, "R18.7")
        c17.defaults_pass_validation(rep, M, "R18.7")
        from .. import sigs as _sigs
        _sigs.run(rep, M, "R18.7", scope=M.reachable([FQ]))
    rep.rule("R18.9", "the search for the atoms inside a candidate cell covers every periodic image the cell reaches into (shared with C04)")
    with rep.guard("R18.9"):
        from . import c04 as _c04w
        _c04w.within_basis(rep, M, "R18.9")
        _c04w.factors_times_cell(rep, M, "R18.9")
        _c04w.both_directions_alike(rep, M, "R18.9")
        _c04w.image_labels_add(rep, M, "R18.9")
        _c04w.correction_orientation(rep, M, "R18.9")
        _c04w.builders_pick_alike(rep, M, "R18.9")
        _c04w.per_copy_distance(rep, M, "R18.9")
        _c04w.span_2d_form(rep, M, "R18.9")
        _c04w.span_through_minus_neighbour(rep, M, "R18.9")
    rep.rule("R18.10", "no function keeps results in module-level state or functools caches (answers do not depend on what the process analysed before)")
    with rep.guard("R18.10"):
        from .. import symrules as _SRms
        _SRms.module_state(rep, ctx.model, "R18.10", _SRms.GEOMETRY_SIDE)
    rep.floor("R18.1", 8)
    rep.floor("R18.2", 3)
    rep.floor("R18.3", 8)
    rep.floor("R18.4", 7)
    rep.floor("R18.5", 3)
    rep.floor("R18.6", 3)
    rep.floor("R18.7", 8)


META = {
    "level": "other",
    "text": "PARTIAL: decides only the structural mechanisms the statement anchors, each a necessary condition of 'Surface with exactly the adsorbates as "
            "outliers / Material2D without outliers': foreign species can never be members of a region, outliers = complement of the members, one seed per "
            "species nearest to the periodic centre of mass, exhaustive parameter loops with running-maximum choice of the region, +d/-d logic of the connected-"
            "direction test, guard structure of the Surface / Material2D dispatch, forwarding of thresholds. Whether the region search covers the whole slab for a "
            "concrete material, facet and orientation is floating-point behaviour and is NOT decided.",
    "note": "trusted: CPython ast; rules shared with C03/C16/C17 are the same code run under this property's rule ids.",
    "technique": "idiom-shape rules (running maximum, first-occurrence-per-key, +d/-d conjunction) + guard structure on the CFG + shared membership / partition rules",
}


# ----------------------------------------------------------------------------- defaults of the same option agree between entry points
def option_defaults_agree(rep, M, rid):
    """C18 is stated for a default-constructed Classifier: the defaults matter. Where two entry points of the package expose the same option and take
    its default from `matid.data.constants`, they take it from the same constant (Classifier.__init__ and PeriodicFinder.__init__ share four options)"""
    import collections
    by = collections.defaultdict(list)
    for q, d in M.functions().items():
        a = d.args
        ps = a.args
        for p, dv in zip(ps[len(ps) - len(a.defaults):], a.defaults):
            if isinstance(dv, ast.Attribute) and isinstance(dv.value, ast.Name) and dv.attr.isupper():
                by[p.arg].append((q, dv))
    shared = {k: v for k, v in by.items() if len(v) > 1}
    if len(shared) < 3:
        raise AnalysisError(f"only {len(shared)} option(s) with a constants default shared between entry points (four confirmed by hand)")
    for name, sites in sorted(shared.items()):
        consts = {dv.attr for _, dv in sites}
        if len(consts) == 1:
            rep.ok(rid, f"option `{name}` defaults to constants.{consts.pop()} at {len(sites)} entry points")
        else:
            shown = ", ".join(f"{q.split('.')[-2]}.{q.split('.')[-1]}: {dv.attr}" for q, dv in sites)
            q0, d0 = sites[0]
            rep.violation(rid, f"default of option `{name}`", f"the entry points disagree on the constant ({shown}): a default-constructed Classifier runs the region search "
                          "with another limit than the finder's own default, e.g. the whole simulation cell is accepted as a 2D unit cell and adsorbates join the region",
                          M.where(q0, d0))


# ----------------------------------------------------------------------------- the neighbouring cell of a match: current cell index + multiplier
def target_cell_adds_multiplier(rep, M, rid):
    """_find_new_seeds_and_cell: a match found at +multiplier from the current cell belongs to cell `cell_index + multiplier`; the edge of the search graph
    carries the same multiplier, so get_connected_directions and the tracking of the region agree on where the unit is"""
    fq = PF + "._find_new_seeds_and_cell"
    fn = M.func(fq)
    ps = M.params(fq)
    cands = [s2 for s2 in ast.walk(fn) if isinstance(s2, ast.Assign) and isinstance(s2.value, ast.BinOp) and isinstance(s2.value.op, (ast.Add, ast.Sub))
             and isinstance(s2.value.left, ast.Name) and s2.value.left.id in ps and "cell" in s2.value.left.id and isinstance(s2.value.right, ast.Name)]
    if not cands:
        raise AnalysisError("_find_new_seeds_and_cell: computation of the neighbouring cell index not recognised")
    for s2 in cands:
        if isinstance(s2.value.op, ast.Add):
            rep.ok(rid, f"_find_new_seeds_and_cell: `{norm(s2)}`")
        else:
            rep.violation(rid, f"_find_new_seeds_and_cell: `{norm(s2)}`", "the cell of a match is the current cell *minus* the multiplier under which it was searched: the region is "
                          "tracked in the mirrored cell, units collide with the seed cell and the +d / -d edges of the search graph no longer close", M.where(fq, s2))
