"""C15 - the chirality flag is true exactly for the Sohncke groups.

get_is_chiral has to decide "some operation is improper" from integer rotation matrices given in an
arbitrary basis. Decided here: the improper test is numerically robust (R15.1), the quantifier
structure is "False iff some rotation is improper" over *all* rotations (R15.2), and the rotations
come from the same symmetry dataset as the space-group number (R15.3).
"""
import ast

from ..dataflow import Flow
from ..model import norm
from ..report import AnalysisError

SA = "matid.symmetry.symmetryanalyzer.SymmetryAnalyzer"
FQ = SA + ".get_is_chiral"
ROUNDERS = {"round", "numpy.rint", "numpy.round", "numpy.around", "numpy.round_", "numpy.sign"}
TRUNCATORS = {"int", "numpy.trunc", "numpy.fix", "numpy.floor", "numpy.ceil", "math.trunc", "math.floor", "math.ceil"}
CLOSE = {"numpy.isclose", "math.isclose", "numpy.allclose"}


def ext_name(M, fq, f):
    r = M.resolve(fq, f)
    if isinstance(r, tuple) and r[0] == "ext":
        return r[1]
    if isinstance(f, ast.Name) and r is None:
        return f.id            # builtins
    return None


class DetKind:
    FLOAT, ROUNDED, EXACT, TRUNCATED = "float", "rounded", "exact", "truncated"


def det_kind(M, fl, e, at, depth=0):
    """classify expression e as a determinant value: (kind, subject expr) or None"""
    if depth > 6:
        return None
    if isinstance(e, ast.Call):
        name = ext_name(M, FQ, e.func)
        if name == "numpy.linalg.det" and e.args:
            return (DetKind.FLOAT, e.args[0])
        if name in ROUNDERS and e.args:
            inner = det_kind(M, fl, e.args[0], at, depth + 1)
            if inner:
                return (DetKind.ROUNDED, inner[1])
        if name in TRUNCATORS and e.args:
            # int(-0.9999999999999998) == 0: truncation of a float determinant is as fragile as float equality
            inner = det_kind(M, fl, e.args[0], at, depth + 1)
            if inner:
                return (inner[0] if inner[0] != DetKind.FLOAT else DetKind.TRUNCATED, inner[1])
        if isinstance(e.func, ast.Attribute) and e.func.attr == "astype" and isinstance(e.func.value, ast.AST):
            inner = det_kind(M, fl, e.func.value, at, depth + 1)
            if inner:
                return (inner[0] if inner[0] != DetKind.FLOAT else DetKind.TRUNCATED, inner[1])
        # repo helper returning an exact integer determinant
        callees = M.callees_of_call(FQ, e)
        for c in callees:
            src = ast.unparse(M.defs[c])
            if "linalg.det" not in src and e.args:
                return (DetKind.EXACT, e.args[0])
            if "linalg.det" in src and e.args and any(k in src for k in ("round(", "rint(")):
                return (DetKind.ROUNDED, e.args[0])
        return None
    if isinstance(e, ast.Name):
        defs = fl.rd[at].get(e.id, ())
        kinds = []
        for d in defs:
            for kind, *rest in fl.def_value(d, e.id):
                if kind == "expr":
                    kinds.append(det_kind(M, fl, rest[0], d, depth + 1))
                else:
                    kinds.append(None)
        if kinds and all(k is not None for k in kinds) and len({k[0] for k in kinds}) == 1:
            return kinds[0]
        return None
    return None


def const_num(e):
    if isinstance(e, ast.Constant) and isinstance(e.value, (int, float)) and not isinstance(e.value, bool):
        return float(e.value)
    if isinstance(e, ast.UnaryOp) and isinstance(e.op, ast.USub) and isinstance(e.operand, ast.Constant):
        return -float(e.operand.value)
    return None


def classify(M, fl, cond, at):
    """-> (meaning, robust, subject, text) with meaning in {'improper','proper'}; None if not a determinant test"""
    if isinstance(cond, ast.UnaryOp) and isinstance(cond.op, ast.Not):
        r = classify(M, fl, cond.operand, at)
        if r:
            return ("proper" if r[0] == "improper" else "improper", r[1], r[2], r[3])
        return None
    if isinstance(cond, ast.Call):
        name = ext_name(M, FQ, cond.func)
        if name in CLOSE and len(cond.args) >= 2:
            for a, b in ((cond.args[0], cond.args[1]), (cond.args[1], cond.args[0])):
                dk, c = det_kind(M, fl, a, at), const_num(b)
                if dk and c is not None and abs(c) == 1:
                    return ("improper" if c < 0 else "proper", True, dk[1], norm(cond))
        return None
    if isinstance(cond, ast.Compare) and len(cond.ops) == 1:
        op = cond.ops[0]
        left, right = cond.left, cond.comparators[0]
        dk, c = det_kind(M, fl, left, at), const_num(right)
        flip = False
        if dk is None or c is None:
            dk, c = det_kind(M, fl, right, at), const_num(left)
            flip = True
        if dk is None or c is None:
            return None
        kind, subject = dk
        if isinstance(op, (ast.Eq, ast.NotEq)):
            if abs(c) != 1:
                return ("none", True, subject, norm(cond))
            robust = kind in (DetKind.ROUNDED, DetKind.EXACT)
            eq_means = "improper" if c < 0 else "proper"
            meaning = eq_means if isinstance(op, ast.Eq) else ("proper" if eq_means == "improper" else "improper")
            return (meaning, robust, subject, norm(cond))
        if isinstance(op, (ast.Lt, ast.LtE, ast.Gt, ast.GtE)):
            less = isinstance(op, (ast.Lt, ast.LtE)) != flip
            if -1 < c < 1:
                return ("improper" if less else "proper", kind != DetKind.TRUNCATED, subject, norm(cond))
            return ("none", True, subject, norm(cond))
    return None


def returned_consts(M, fl, ret):
    """possible boolean constants of a `return X` (through a flag variable)"""
    v = ret.value
    if isinstance(v, ast.Constant):
        return {v.value}
    if isinstance(v, ast.Name):
        at = fl.node_of(ret)
        out = set()
        for d in fl.rd[at].get(v.id, ()):
            for kind, *rest in fl.def_value(d, v.id):
                if kind == "expr" and isinstance(rest[0], ast.Constant):
                    out.add(rest[0].value)
                else:
                    out.add("?")
        return out
    return {"?"}


DET3 = {((0, 0), (1, 1), (2, 2)): 1, ((0, 1), (1, 2), (2, 0)): 1, ((0, 2), (1, 0), (2, 1)): 1,
        ((0, 2), (1, 1), (2, 0)): -1, ((0, 1), (1, 0), (2, 2)): -1, ((0, 0), (1, 2), (2, 1)): -1}


def entry_poly(e, env, depth=0):
    """polynomial {sorted tuple of (row, col) entries: coefficient} of an arithmetic expression over the entries `R[..., i, j]` of one stack of
    3x3 matrices (the leading index may be a slice / Ellipsis); returns (polynomial, name of the stack) or None"""
    if depth > 30:
        return None
    if isinstance(e, ast.Name) and e.id in env:
        return entry_poly(env[e.id], env, depth + 1)
    if isinstance(e, ast.Constant) and isinstance(e.value, int) and not isinstance(e.value, bool):
        return ({(): e.value} if e.value else {}), None
    if isinstance(e, ast.Subscript) and isinstance(e.slice, ast.Tuple) and len(e.slice.elts) >= 2 \
            and all(isinstance(x, ast.Constant) and isinstance(x.value, int) for x in e.slice.elts[-2:]) \
            and all(isinstance(x, ast.Slice) or (isinstance(x, ast.Constant) and x.value is Ellipsis) for x in e.slice.elts[:-2]):
        return {((e.slice.elts[-2].value, e.slice.elts[-1].value),): 1}, ast.unparse(e.value)
    if isinstance(e, ast.UnaryOp) and isinstance(e.op, ast.USub):
        r = entry_poly(e.operand, env, depth + 1)
        return ({k: -v for k, v in r[0].items()}, r[1]) if r else None
    if isinstance(e, ast.BinOp) and isinstance(e.op, (ast.Add, ast.Sub, ast.Mult)):
        a, b = entry_poly(e.left, env, depth + 1), entry_poly(e.right, env, depth + 1)
        if a is None or b is None or (a[1] and b[1] and a[1] != b[1]):
            return None
        nm = a[1] or b[1]
        out = {}
        if isinstance(e.op, ast.Mult):
            for k1, v1 in a[0].items():
                for k2, v2 in b[0].items():
                    k = tuple(sorted(k1 + k2))
                    out[k] = out.get(k, 0) + v1 * v2
        else:
            sg = 1 if isinstance(e.op, ast.Add) else -1
            out = dict(a[0])
            for k2, v2 in b[0].items():
                out[k2] = out.get(k2, 0) + sg * v2
        return {k: v for k, v in out.items() if v}, nm
    return None


def run(rep, ctx):
    try:
        _run(rep, ctx)
    finally:
        pass


def _run(rep, ctx):
    M = ctx.model
    fn = M.func(FQ)
    fl = Flow(fn)
    rep.explanation = ("classification of the improper-rotation test in get_is_chiral (float equality on a computed "
                       "determinant is fragile in sheared bases), of its quantifier structure, and of the provenance of "
                       "the rotations")
    rep.assumptions = ["rotation matrices from spglib are integer matrices with determinant +1 or -1",
                       "np.linalg.det of such a matrix is within 0.5 of the exact value"]
    rep.rule("R15.1", "the improper test does not compare a floating-point determinant with == / !=")
    rep.rule("R15.2", "False is returned iff some rotation is improper; the scan ranges over all rotations")
    rep.rule("R15.3", "the rotations are those of the symmetry dataset that also gives the space-group number")

    has_scan = any(isinstance(n, (ast.For, ast.While, ast.GeneratorExp, ast.ListComp)) for n in ast.walk(fn))
    vdet = [c for c in ast.walk(fn) if isinstance(c, ast.Call) and ext_name(M, FQ, c.func) == "numpy.linalg.det" and c.args]
    if not has_scan and not vdet:
        # an explicit determinant written out over the entries of the stack of rotations (cofactor / Sarrus expansion)
        envp = {}
        for s2 in ast.walk(fn):
            if isinstance(s2, ast.Assign) and len(s2.targets) == 1 and isinstance(s2.targets[0], ast.Name):
                envp.setdefault(s2.targets[0].id, s2.value)
        for nm2, ex in envp.items():
            pr = entry_poly(ex, {k: v for k, v in envp.items() if k != nm2})
            if pr and pr[1] and any(len(k) == 3 for k in pr[0]):
                if pr[0] == DET3:
                    rep.ok("R15.2", f"get_is_chiral: `{nm2}` is the exact determinant of the 3x3 integer matrices (6 signed products, verified symbolically)")
                    raise AnalysisError("get_is_chiral: explicit integer determinant recognised, but the reduction that follows it is not modelled yet")
                wrong = sorted((k, pr[0].get(k, 0), DET3.get(k, 0)) for k in set(pr[0]) | set(DET3) if pr[0].get(k, 0) != DET3.get(k, 0))
                rep.violation("R15.2", f"get_is_chiral: `{nm2}` written out over the matrix entries", "the expression is not the determinant: coefficient of "
                              + "; ".join("*".join(f"r{i}{j}" for i, j in k) + f" is {g:+d} instead of {w:+d}" for k, g, w in wrong[:4])
                              + ". Matrices with a non-zero entry in those positions get the wrong sign, so e.g. the cubic Sohncke groups are reported achiral", M.where(FQ, ex))
                rep.rule("R15.4", "every memoised result of the analyzer is dropped by reset(), which set_system() calls (no answers for a previous structure)")
                return
    if not has_scan and not vdet:
        table_mode(rep, ctx, M, fn)
        return
    loops = [n for n in fn.body if isinstance(n, ast.For)] + \
            [n for s in fn.body if isinstance(s, (ast.If, ast.With, ast.Try)) for n in ast.walk(s) if isinstance(n, ast.For)]
    comps = [n for n in ast.walk(fn) if isinstance(n, ast.Call) and isinstance(n.func, ast.Name)
             and n.func.id in ("any", "all") and n.args and isinstance(n.args[0], (ast.GeneratorExp, ast.ListComp))]
    iter_expr = None
    iter_at = None
    verdicts = []          # (meaning, robust, text, node, effect) effect: value returned when the test fires
    default = None         # value returned when no test fires
    if loops:
        loop = loops[0]
        iter_expr, iter_at = loop.iter, fl.node_of(loop)
        tests = [n for n in ast.walk(loop) if isinstance(n, ast.If)]
        for t in tests:
            at = fl.node_of(t)
            c = classify(M, fl, t.test, at)
            if c is None:
                continue
            fire = set()
            for s in t.body:
                if isinstance(s, ast.Return):
                    fire |= returned_consts(M, fl, s)
                if isinstance(s, ast.Assign) and isinstance(s.value, ast.Constant):
                    fire.add(s.value.value)
            other = set()
            for s in t.orelse:
                if isinstance(s, ast.Return):
                    other |= returned_consts(M, fl, s)
                if isinstance(s, ast.Assign) and isinstance(s.value, ast.Constant):
                    other.add(s.value.value)
            verdicts.append((c, t, fire, other))
        # a flag assigned from the test itself inside the loop, not combined with its previous value: only the last rotation decides
        for a in ast.walk(loop):
            if isinstance(a, ast.Assign) and len(a.targets) == 1 and isinstance(a.targets[0], ast.Name):
                c = classify(M, fl, a.value, fl.node_of(a)) if isinstance(a.value, (ast.Compare, ast.Call, ast.UnaryOp)) else None
                if c is not None and not any(isinstance(x, ast.Name) and x.id == a.targets[0].id for x in ast.walk(a.value)):
                    rets_flag = [r for r in ast.walk(fn) if isinstance(r, ast.Return) and r.value is not None
                                 and any(isinstance(x, ast.Name) and x.id == a.targets[0].id for x in ast.walk(r.value))]
                    if rets_flag:
                        rep.violation("R15.2", f"get_is_chiral: `{norm(a)}` inside the scan", "the result flag is overwritten by every rotation instead of "
                                      "being accumulated (no early return, no `and`): only the last operation in spglib's list decides, so groups whose "
                                      "last listed operation is proper (P-4m2, P-62m, ...) are reported chiral", M.where(FQ, a))
                        verdicts.append(None)
        # default: returns after the loop
        after = [s for s in fn.body[fn.body.index(loop) + 1:] if isinstance(s, ast.Return)] if loop in fn.body else []
        default = set()
        for r in after:
            # value of a flag when no test fired = its initialisation before the loop
            if isinstance(r.value, ast.Name):
                init = [s for s in fn.body[:fn.body.index(loop)] if isinstance(s, ast.Assign)
                        and any(isinstance(t, ast.Name) and t.id == r.value.id for t in s.targets)]
                if init and isinstance(init[-1].value, ast.Constant):
                    default.add(init[-1].value.value)
                else:
                    default.add("?")
            elif isinstance(r.value, ast.Constant):
                default.add(r.value.value)
            else:
                default.add("?")
    elif comps:
        call = comps[0]
        gen = call.args[0]
        iter_expr = gen.generators[0].iter
        stmt_node = None
        for n, d in fl.cfg.g.nodes(data=True):
            if d["ast"] is not None and any(sub is call for sub in ast.walk(d["ast"])):
                stmt_node = n
        iter_at = stmt_node
        # bind the comprehension variable: classify with the element expression substituted
        c = classify_comp(M, fl, gen, stmt_node)
        if c is None:
            raise AnalysisError(f"get_is_chiral: comprehension test `{norm(gen.elt)}` is not a recognised determinant test")
        # result = any(T) / all(T), possibly negated, returned
        neg = False
        for n in ast.walk(fn):
            if isinstance(n, ast.UnaryOp) and isinstance(n.op, ast.Not) and n.operand is call:
                neg = True
        meaning = c[0]
        if call.func.id == "any":
            fire_val, default_val = (not neg), neg          # some element satisfies T -> any True
        else:
            # all(T): fires when some element violates T
            meaning = "proper" if meaning == "improper" else "improper"
            fire_val, default_val = neg, (not neg)
        verdicts.append(((meaning, c[1], c[2], c[3]), call, {fire_val}, set()))
        default = {default_val}
    elif vdet:
        # vectorised form: np.linalg.det of the whole stack of rotations, reduced by all()/any()
        det = vdet[0]
        stmt_node = next(n for n, d in fl.cfg.g.nodes(data=True) if d["ast"] is not None and any(sub is det for sub in ast.walk(d["ast"])))
        iter_expr, iter_at = det.args[0], stmt_node
        rets = [r for r in ast.walk(fn) if isinstance(r, ast.Return) and r.value is not None]
        if len(rets) != 1:
            raise AnalysisError("get_is_chiral (vectorised): expected a single return")
        e = rets[0].value
        rat = fl.node_of(rets[0])
        neg = False
        while True:
            if isinstance(e, ast.Call) and isinstance(e.func, ast.Name) and e.func.id == "bool" and len(e.args) == 1:
                e = e.args[0]
            elif isinstance(e, ast.UnaryOp) and isinstance(e.op, (ast.Not, ast.Invert)):
                neg, e = not neg, e.operand
            elif isinstance(e, ast.Name):
                vals = [v for d in fl.rd[rat].get(e.id, ()) if d != fl.cfg.entry for v in fl.def_value(d, e.id)]
                if len(vals) != 1 or vals[0][0] != "expr":
                    raise AnalysisError(f"get_is_chiral (vectorised): `{e.id}` has no single definition")
                e = vals[0][1]
            else:
                break
        red, inner = None, None
        if isinstance(e, ast.Call) and ext_name(M, FQ, e.func) in ("numpy.all", "numpy.any", "numpy.alltrue") and e.args:
            red, inner = ("any" if ext_name(M, FQ, e.func) == "numpy.any" else "all"), e.args[0]
        elif isinstance(e, ast.Call) and isinstance(e.func, ast.Attribute) and e.func.attr in ("all", "any") and not e.args:
            red, inner = e.func.attr, e.func.value
        elif isinstance(e, ast.Call) and isinstance(e.func, ast.Name) and e.func.id in ("all", "any") and len(e.args) == 1:
            red, inner = e.func.id, e.args[0]
        if red is None:
            raise AnalysisError(f"get_is_chiral (vectorised): result `{norm(e)}` is not an all()/any() reduction of a determinant test")
        c = classify(M, fl, inner, rat)
        if c is None:
            raise AnalysisError(f"get_is_chiral (vectorised): `{norm(inner)}` is not a recognised determinant test")
        meaning = c[0]
        if red == "any":
            fire_val, default_val = (not neg), neg
        else:
            meaning = "proper" if meaning == "improper" else ("improper" if meaning == "proper" else meaning)
            fire_val, default_val = neg, (not neg)
        verdicts.append(((meaning, c[1], c[2], c[3]), e, {fire_val}, set()))
        default = {default_val}
    else:
        raise AnalysisError("get_is_chiral: neither a loop over the rotations nor an any()/all() comprehension found")

    if verdicts and all(v is None for v in verdicts):
        return
    verdicts = [v for v in verdicts if v is not None]
    if not verdicts:
        raise AnalysisError("get_is_chiral: no determinant test recognised in the scan over the rotations")
    # where do the matrices come from? The rotations in spglib's Hall database are 7388 fixed integer matrices in standard
    # settings; np.linalg.det of each of them is *exactly* +-1.0 (enumerated below), so equality tests are sound for them.
    # The rotations of the dataset are expressed in the user's basis, where LU decomposition gives -1.0000000000000002 etc.
    sl0 = fl.slice(iter_expr, iter_at)
    from_db = any(isinstance(c, ast.Call) and ext_name(M, FQ, c.func) == "spglib.get_symmetry_from_database" for e in sl0["exprs"] for c in ast.walk(e)) \
        and not any(isinstance(x, ast.Attribute) and x.attr == "rotations" for e in sl0["exprs"] for x in ast.walk(e))
    if from_db:
        import numpy as _np
        import spglib as _sp
        nmat = nbad = 0
        for h in range(1, 531):
            for r in _sp.get_symmetry_from_database(h)["rotations"]:
                nmat += 1
                d = float(_np.linalg.det(r))
                if d not in (1.0, -1.0) or int(d) != round(d):
                    nbad += 1
        rep.count("database_rotation_matrices", nmat)
        if nbad:
            from_db = False
            rep.note(f"{nbad} database rotations have an inexact floating-point determinant: equality tests are treated as fragile")
        else:
            rep.ok("R15.1", f"all {nmat} rotation matrices of the Hall database have a floating-point determinant of exactly +-1.0")
    for (meaning, robust, subject, text), node, fire, other in verdicts:
        construct = f"get_is_chiral test `{text}`"
        if not robust and from_db:
            rep.ok("R15.1", construct + " is exact on the database rotations (standard settings)")
        elif not robust:
            rep.violation("R15.1", construct, "compares the floating-point result of np.linalg.det (or its truncation int()/floor) with ==/!=: for integer "
                          "rotation matrices in a sheared basis LU decomposition gives e.g. -1.0000000000000249, so improper "
                          "operations are missed and an achiral crystal is reported chiral", M.where(FQ, node))
        else:
            rep.ok("R15.1", construct + " is robust")
        if meaning == "none":
            rep.violation("R15.2", construct, "the threshold does not separate determinant -1 from +1", M.where(FQ, node))
            continue
        want_fire = False if meaning == "improper" else None
        if meaning == "improper":
            if fire == {False} and default == {True}:
                rep.ok("R15.2", construct + ": improper -> False, none improper -> True")
            else:
                rep.violation("R15.2", construct, f"when a rotation is improper the result is {sorted(map(str, fire))}, when none "
                              f"is improper {sorted(map(str, default or ['?']))}; required False / True", M.where(FQ, node))
        else:  # test is true for proper rotations: the improper case is the else-branch
            if other == {False} and default == {True} and not fire:
                rep.ok("R15.2", construct + ": not proper -> False, all proper -> True")
            elif fire == {False}:
                rep.violation("R15.2", construct, "returns False when a rotation is *proper*: polarity inverted",
                              M.where(FQ, node))
            else:
                rep.violation("R15.2", construct, f"proper-branch gives {sorted(map(str, fire))}, other branch "
                              f"{sorted(map(str, other))}, default {sorted(map(str, default or ['?']))}: an improper "
                              "rotation does not force the result False", M.where(FQ, node))
        # the tested matrix is the loop element
        if loops:
            loop_vars = [x.id for x in ast.walk(loops[0].target) if isinstance(x, ast.Name)]
            if not (isinstance(subject, ast.Name) and subject.id in loop_vars):
                rep.violation("R15.2", construct + " subject", f"the determinant is taken of `{norm(subject)}`, not of the "
                              "loop element", M.where(FQ, node))

    # range over all rotations + provenance
    sl = fl.slice(iter_expr, iter_at)
    # any index other than a string key (["rotations"]) selects a part of the operation list: slices, masks, fancy indices
    sliced = [s for e in sl["exprs"] for s in ast.walk(e) if isinstance(s, ast.Subscript)
              and not (isinstance(s.slice, ast.Constant) and isinstance(s.slice.value, str))]
    if sliced:
        rep.violation("R15.2", "get_is_chiral iteration range", f"`{norm(sliced[0])}` restricts the scan to a part of the "
                      "operations", M.where(FQ, sliced[0]))
    else:
        rep.ok("R15.2", "the scan ranges over the whole rotation array")
    src_calls = [c for e in sl["exprs"] for c in ast.walk(e) if isinstance(c, ast.Call)]
    # R15.3: the scanned rotations must be the operations of the detected space-group *type*.
    # spglib API knowledge: dataset.rotations (= get_symmetry_operations()/get_rotations()) are the operations of the
    # *input cell*; for a supercell whose lattice breaks the point symmetry (1x2x1 of a tetragonal crystal) they are a
    # proper subgroup, so the improper operations of an achiral group can all be missing while dataset.number is unchanged.
    db = [c for c in src_calls if ext_name(M, FQ, c.func) == "spglib.get_symmetry_from_database"]
    cellops = [c for c in src_calls if any(cal.split(".")[-1] in ("get_symmetry_operations", "get_rotations") for cal in M.callees_of_call(FQ, c))]
    cellops += [x for e in sl["exprs"] for x in ast.walk(e) if isinstance(x, ast.Attribute) and x.attr == "rotations"
                and not any(x in ast.walk(c) for c in db)]
    has_rot = any((isinstance(s2, ast.Constant) and s2.value == "rotations") or (isinstance(s2, ast.Attribute) and s2.attr == "rotations")
                  for e in sl["exprs"] for s2 in ast.walk(e))
    if db and has_rot and not cellops:
        a0 = db[0].args[0] if db[0].args else None
        hs = fl.slice(a0, iter_at) if a0 is not None else {"exprs": []}
        from_hall = any((isinstance(c, ast.Call) and isinstance(c.func, ast.Attribute) and c.func.attr == "get_hall_number")
                        or (isinstance(c, ast.Attribute) and c.attr == "hall_number") for e in hs["exprs"] for c in ast.walk(e))
        if from_hall:
            rep.ok("R15.3", "rotations <- spglib.get_symmetry_from_database(hall number of the detected group)")
        else:
            rep.violation("R15.3", "get_is_chiral rotation source", f"the database is queried with `{norm(a0) if a0 is not None else None}`, not with "
                          "the Hall number of the analyzer's own dataset", M.where(FQ, db[0]))
    elif cellops:
        rep.violation("R15.3", "get_is_chiral rotation source", f"`{norm(iter_expr)}` scans the symmetry operations of the *input cell* "
                      "(dataset.rotations). For a supercell whose lattice does not keep the point symmetry these are a proper subgroup of the "
                      "space group: a 1x2x1 supercell of a P-4 crystal is still detected as group 81 but has no improper operation left, so it "
                      "is reported chiral", M.where(FQ, iter_expr))
    else:
        rep.violation("R15.3", "get_is_chiral rotation source", f"`{norm(iter_expr)}` is not the operation list of the detected space group",
                      M.where(FQ, iter_expr))
    hn = SA + ".get_hall_number"
    if hn in M.defs and any(isinstance(x, ast.Attribute) and x.attr == "hall_number" for x in ast.walk(M.defs[hn])) and \
            any(isinstance(c, ast.Call) and isinstance(c.func, ast.Attribute) and c.func.attr == "get_symmetry_dataset" for c in ast.walk(M.defs[hn])):
        rep.ok("R15.3", "get_hall_number reads dataset.hall_number of get_symmetry_dataset()")
    else:
        rep.violation("R15.3", "get_hall_number source", "does not read `hall_number` of self.get_symmetry_dataset()", M.where(hn))
    rep.rule("R15.4", "every memoised result of the analyzer is dropped by reset(), which set_system() calls (no answers for a previous structure)")
    with rep.guard("R15.4"):
        from .. import symrules as _SR
        _SR.reset_covers_caches(rep, ctx.model, "R15.4")
    rep.rule("R15.5", "spglib is given the analysed structure unmodified: cell, scaled positions and numbers of one object (a cell changed without its "
                      "coordinates makes the detected group, and with it the flag, depend on the basis the crystal is supplied in; shared with C05)")
    with rep.guard("R15.5"):
        from . import shared as _shb
        _shb.spglib_boundary(rep, ctx.model, "R15.5", back=False, tolerance=False)
    rep.floor("R15.5", 2)
    rep.floor("R15.1", 1)
    rep.floor("R15.2", 2)
    rep.floor("R15.3", 2)


def table_mode(rep, ctx, M, fn):
    """get_is_chiral decides from the space-group number / point-group label: fold the predicate for all 230 groups"""
    from .. import spgref
    from ..constfold import Folder
    T = ctx.tables
    SGI = T["SPACE_GROUP_INFO"]

    def hook(e, env, folder):
        if isinstance(e, ast.Call) and isinstance(e.func, ast.Attribute) and isinstance(e.func.value, ast.Name) and e.func.value.id == "self" and not e.args:
            g = env["__g"]
            if e.func.attr == "get_space_group_number":
                return g
            if e.func.attr == "get_point_group":
                return spgref.sgtype(g).pointgroup_international
            if e.func.attr == "get_crystal_system":
                return SGI[g]["crystal_system"]
            if e.func.attr == "get_hall_number":
                return spgref.hall_of()[g]
        if isinstance(e, ast.Name) and e.id == "SPACE_GROUP_INFO":
            return SGI
        if isinstance(e, ast.Attribute) and isinstance(e.value, ast.Name) and e.value.id == "constants":
            raise AnalysisError("constants.* in the chirality predicate not modelled")
        return NotImplemented
    F = Folder({"matid": hook}, "get_is_chiral")
    body = [s2 for s2 in fn.body if not (isinstance(s2, ast.Expr) and isinstance(s2.value, ast.Constant))]
    soh = spgref.sohncke()
    wrong = []
    for g in range(1, 231):
        got = F.run(body, {"__g": g})
        if bool(got) != (g in soh):
            wrong.append((g, spgref.sgtype(g).pointgroup_international, got))
    rep.count("groups_folded", 230)
    if wrong:
        rep.violation("R15.2", "get_is_chiral: predicate over the detected group", f"folded for all 230 space groups the predicate is wrong for "
                      f"{len(wrong)} of them, e.g. " + ", ".join(f"group {g} (point group {pg}) -> {v}" for g, pg, v in wrong[:6])
                      + "; chiral means: one of the 65 Sohncke groups (no improper operation)", M.where(FQ))
    else:
        for g in range(1, 231):
            rep.ok("R15.2", f"group {g}: predicate = {g in soh}")
        rep.ok("R15.1", "decision from exact group labels: no floating-point comparison involved")
        rep.ok("R15.3", "decision from the detected space-group number (independent of the input cell's operations)")
    from .. import symrules as _SR
    rep.rule("R15.4", "every memoised result of the analyzer is dropped by reset(), which set_system() calls (no answers for a previous structure)")
    _SR.reset_covers_caches(rep, M, "R15.4")


def classify_comp(M, fl, gen, at):
    """classify the element test of a generator `T(r) for r in rots` (det computed inline)"""
    elt = gen.elt
    var = gen.generators[0].target

    class Shim:
        pass
    # inline determinant only: det_kind on calls does not need reaching defs for the loop variable
    return classify(M, fl, elt, at)


META = {
    "level": "other",
    "text": "static classification of the decision procedure in get_is_chiral: the improper test must be robust "
            "for integer matrices in any basis (no float equality on np.linalg.det), the quantifier must be 'False iff "
            "some rotation is improper' over all rotations, and the rotations must come from the analyzer's dataset. "
            "Together with spglib listing exactly the operations of the detected group this gives the iff with the 65 "
            "Sohncke groups; spglib's own basis independence is not decided."
            " The rule set is source-sensitive: get_is_chiral must scan the operations of the detected space-group type (spglib database through the dataset's Hall number), not the operations of the input cell (a subgroup for lattice-breaking supercells); on the 7388 database matrices the floating-point determinant is exactly +-1.0 (enumerated each run) so equality tests are sound there, while on cell-basis rotations float equality/truncation is fragile. A predicate on the space-group number / point-group label instead of a scan is constant-folded over all 230 groups against the reference Sohncke set. Memo coherence with reset().",
    "note": "trusted: spglib returns integer rotation matrices with determinant +-1; np.linalg.det is accurate to well "
            "within 0.5 for such matrices; CPython ast.",
    "technique": "fragile-comparison (contradiction) rule + quantifier-shape recognition + def-use provenance",
}
