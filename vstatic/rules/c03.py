"""C03 - SBC separates a two-material stack into exactly the two slabs (structural clauses only).

Whether a concrete stack is recognised as two regions is decided by floating-point geometry in the
region search and is NOT decided here. Decided are the mechanisms the statement anchors, each a
necessary condition: an atom of the other element can never become a *member* of a region (species-
strict matching, members = basis indices only), two clusters are merged only when their overlap
exceeds the caller's merge_threshold and only same-species atoms survive a merge, an atom shared by
two clusters is given to the cluster with most neighbours within the caller's merge_radius and
removed from all others, the three post-processing stages run in order, and the dimensionality the
clusters report is coherent with their atoms.
"""
import ast

from ..dataflow import Flow
from ..model import norm
from ..report import AnalysisError
from . import c01, c13, c16

SBC = c01.SBC
GC = c01.GC
LUC = "matid.core.linkedunits.LinkedUnitCollection"


def _names(e):
    return {x.id for x in ast.walk(e) if isinstance(x, ast.Name)}


# ----------------------------------------------------------------------------- R03.2 members of a region
def r03_2(rep, M, rid):
    fq = LUC + ".get_basis_indices"
    fn = M.func(fq)
    reads = {x.attr for x in ast.walk(fn) if isinstance(x, ast.Attribute) and isinstance(x.ctx, ast.Load) and not (isinstance(x.value, ast.Name) and x.value.id == "self")}
    adds = [c for c in ast.walk(fn) if isinstance(c, ast.Call) and isinstance(c.func, ast.Attribute) and c.func.attr in ("add", "append", "update", "extend")]
    if not adds:
        raise AnalysisError("get_basis_indices: accumulation of indices not found")
    foreign = reads & {"substitutions", "vacancies"}
    if foreign:
        rep.violation(rid, "LinkedUnitCollection.get_basis_indices: sources", f"reads {sorted(foreign)} of the units: atoms of another element found at a "
                      "basis position (substitutions) become members of the region, so the atoms of the other slab at the interface join the cluster",
                      M.where(fq))
    elif "basis_indices" in reads:
        rep.ok(rid, "get_basis_indices collects unit.basis_indices only (substitutions / vacancies are never members)")
    else:
        raise AnalysisError("get_basis_indices: does not read unit.basis_indices")
    fl = Flow(fn)
    for c in adds:
        conds = fl.cfg.branch_conditions(fl.node_of(c))
        guard = [t for t, pol in conds if isinstance(t, ast.If) and pol is True and isinstance(t.test, ast.Compare)
                 and isinstance(t.test.ops[0], ast.IsNot) and isinstance(t.test.comparators[0], ast.Constant) and t.test.comparators[0].value is None]
        if guard or isinstance(c.args[0], (ast.GeneratorExp, ast.ListComp, ast.SetComp)):
            rep.ok(rid, "get_basis_indices skips the None placeholders of unmatched basis positions")
        else:
            rep.violation(rid, "LinkedUnitCollection.get_basis_indices: None entries", "unmatched basis positions (None) are added to the index set", M.where(fq, c))
    # the cluster is built from the seed and these members, nothing else
    fn2 = M.func(GC)
    fl2 = Flow(fn2)
    for call in M.calls_to(GC, c01.CLUSTER_INIT):
        idx = M.bind_args(c01.CLUSTER_INIT, call).get("indices")
        if not isinstance(idx, ast.Name):
            raise AnalysisError("get_clusters: indices of a new Cluster are not held in a local")
        # the statements that build the collection (its definition and its in-place growth), not their transitive inputs
        builders = [s2.value for s2 in ast.walk(fn2) if isinstance(s2, ast.Assign) and any(norm(t) == idx.id for t in s2.targets)]
        builders += [c2 for c2 in ast.walk(fn2) if isinstance(c2, ast.Call) and isinstance(c2.func, ast.Attribute) and norm(c2.func.value) == idx.id
                     and c2.func.attr in ("update", "add", "union", "extend", "append")]
        builders += [s2.value for s2 in ast.walk(fn2) if isinstance(s2, ast.AugAssign) and norm(s2.target) == idx.id]
        getters = {c.func.attr for e in builders for c in ast.walk(e) if isinstance(c, ast.Call) and isinstance(c.func, ast.Attribute)
                   and c.func.attr.startswith("get_")}
        bad = getters - {"get_basis_indices", "get_region"}
        if "get_basis_indices" in getters and not bad:
            rep.ok(rid, f"get_clusters: members of a new cluster = seed + region.get_basis_indices() (`{norm(idx)}`)")
        else:
            rep.violation(rid, "get_clusters: members of a new cluster", f"`{norm(idx)}` is built from {sorted(getters)}: required the seed atom and the "
                          "basis indices of the region only (substitutions are atoms of another element)", M.where(GC, call))


# ----------------------------------------------------------------------------- R03.3 merge decision
def r03_3(rep, M, rid):
    fq = SBC + "._merge_clusters"
    fn = M.func(fq)
    fl = Flow(fn)
    thr = "merge_threshold"
    if thr not in M.params(fq):
        raise AnalysisError("_merge_clusters: parameter merge_threshold not found")
    merges = [c for c in M.own_nodes(fq) if isinstance(c, ast.Call) and isinstance(c.func, ast.Name) and c.func.id == "merge"]
    if not merges:
        raise AnalysisError("_merge_clusters: call of merge() not found")
    for c in merges:
        at = fl.node_of(c)
        conds = [(t, pol) for t, pol in fl.cfg.branch_conditions(at) if isinstance(t, ast.If) and thr in _names(t.test)]
        if not conds:
            rep.violation(rid, "_merge_clusters: merge guard", "two clusters are merged without comparing their overlap with merge_threshold: any two "
                          "regions that share an interface atom are fused into one cluster", M.where(fq, c))
            continue
        t, pol = conds[-1]
        test = t.test
        if not (isinstance(test, ast.Compare) and len(test.ops) == 1):
            raise AnalysisError(f"_merge_clusters: guard `{norm(test)}` is not a single comparison")
        left, op, right = test.left, test.ops[0], test.comparators[0]
        if isinstance(right, ast.Name) and right.id == thr:
            score, big = left, isinstance(op, (ast.Gt, ast.GtE))
        elif isinstance(left, ast.Name) and left.id == thr:
            score, big = right, isinstance(op, (ast.Lt, ast.LtE))
        else:
            raise AnalysisError(f"_merge_clusters: guard `{norm(test)}` does not compare a score with the bare threshold")
        merges_when_large = (big and pol is True) or (not big and pol is False)
        if fl.cfg.entry not in fl.rd[fl.node_of(t)].get(thr, ()) or len(fl.rd[fl.node_of(t)].get(thr, ())) != 1:
            rep.violation(rid, "_merge_clusters: merge threshold", "the threshold compared with the overlap is not the caller's merge_threshold (it is reassigned)",
                          M.where(fq, t))
        elif merges_when_large:
            rep.ok(rid, f"_merge_clusters: merge exactly when `{norm(score)}` exceeds the caller's merge_threshold")
        else:
            rep.violation(rid, f"_merge_clusters: merge guard `{norm(test)}`", "clusters are merged when their overlap is *below* the threshold: the two slabs of a stack "
                          "(which share at most a few interface atoms) are fused into one cluster, while pieces of one crystal stay apart", M.where(fq, t))
        # the score is an overlap of the two index sets relative to the cluster sizes
        sl = fl.slice(score, fl.node_of(t))
        inter = any(isinstance(x, ast.Call) and isinstance(x.func, ast.Attribute) and x.func.attr == "intersection" for e in sl["exprs"] for x in ast.walk(e)) \
            or any(isinstance(x, ast.BinOp) and isinstance(x.op, ast.BitAnd) for e in sl["exprs"] for x in ast.walk(e))
        idx_reads = sum(1 for e in sl["exprs"] for x in ast.walk(e) if isinstance(x, ast.Attribute) and x.attr == "indices")
        ratio = any(isinstance(x, ast.BinOp) and isinstance(x.op, ast.Div) and any(isinstance(y, ast.Call) and isinstance(y.func, ast.Name) and y.func.id == "len"
                    for y in ast.walk(x.right)) for e in sl["exprs"] for x in ast.walk(e))
        if inter and idx_reads >= 2 and ratio:
            rep.ok(rid, "_merge_clusters: the score is the number of shared atoms (set intersection of the index sets) relative to a cluster size")
        else:
            rep.violation(rid, "_merge_clusters: overlap score", f"`{norm(score)}` is not a shared-atom count of the two index sets divided by a cluster size "
                          f"(intersection: {inter}, index sets read: {idx_reads}, ratio to a size: {ratio}): a raw count compared with a fraction merges every "
                          "pair sharing one atom", M.where(fq, t))
    # merged clusters: larger one is the target
    mq = fq + ".merge"
    mfn = M.func(mq)
    ifs = [t for t in ast.walk(mfn) if isinstance(t, ast.If) and isinstance(t.test, ast.Compare) and "len(" in norm(t.test)]
    ok = False
    # the target is the local whose .species is handed to the merged Cluster
    TGT = None
    for call in M.calls_to(mq, c01.CLUSTER_INIT):
        sp = M.bind_args(c01.CLUSTER_INIT, call).get("species")
        if isinstance(sp, ast.Attribute) and sp.attr == "species" and isinstance(sp.value, ast.Name):
            TGT = sp.value.id
    if TGT is None:
        raise AnalysisError("merge: the cluster whose species survive was not identified")
    for t in ifs:
        test = t.test
        if len(test.ops) == 1 and isinstance(test.ops[0], (ast.Gt, ast.GtE, ast.Lt, ast.LtE)):
            a = next((x.value.id for x in ast.walk(test.left) if isinstance(x, ast.Attribute) and x.attr == "indices" and isinstance(x.value, ast.Name)), None)
            b = next((x.value.id for x in ast.walk(test.comparators[0]) if isinstance(x, ast.Attribute) and x.attr == "indices" and isinstance(x.value, ast.Name)), None)
            if a is None or b is None:
                continue
            larger_true = a if isinstance(test.ops[0], (ast.Gt, ast.GtE)) else b
            tgt_true = [norm(s.value) for s in t.body if isinstance(s, ast.Assign) and norm(s.targets[0]) == TGT]
            tgt_false = [norm(s.value) for s in t.orelse if isinstance(s, ast.Assign) and norm(s.targets[0]) == TGT]
            other = b if larger_true == a else a
            if tgt_true == [larger_true] and tgt_false == [other]:
                ok = True
            elif tgt_true and tgt_false:
                rep.violation(rid, "merge: choice of the surviving species", f"under `{norm(test)}` the target is `{tgt_true[0]}`, otherwise `{tgt_false[0]}`: the *smaller* "
                              "cluster dictates the species, so an artificial interface region swallows the slab it overlaps", M.where(mq, t))
                return
    if ok:
        rep.ok(rid, "merge: the larger cluster is the target whose species survive")
    else:
        raise AnalysisError("merge: selection of the larger cluster as target not recognised")


# ----------------------------------------------------------------------------- R03.5 localisation choice
def r03_5(rep, M, rid):
    fq = SBC + "._localize_clusters"
    fn = M.func(fq)
    fl = Flow(fn)
    rad = "merge_radius"
    if rad not in M.params(fq):
        raise AnalysisError("_localize_clusters: parameter merge_radius not found")
    # neighbourhood: radii-corrected distances of the atom's own row below the caller's radius
    cmps = [c for c in ast.walk(fn) if isinstance(c, ast.Compare) and rad in _names(c) and len(c.ops) == 1]
    if not cmps:
        rep.violation(rid, "_localize_clusters: neighbourhood", "no comparison with merge_radius", M.where(fq))
        return
    for c in cmps:
        left, op, right = c.left, c.ops[0], c.comparators[0]
        dist, near = (left, isinstance(op, (ast.Lt, ast.LtE))) if norm(right) == rad else (right, isinstance(op, (ast.Gt, ast.GtE)))
        field = [x.attr for x in ast.walk(dist) if isinstance(x, ast.Attribute) and x.attr.startswith("dist_matrix")]
        outer = [lp for lp in ast.walk(fn) if isinstance(lp, ast.For) and any(x is c for x in ast.walk(lp))]
        atom = None
        for lp in outer:
            tv = [x.id for x in ast.walk(lp.target) if isinstance(x, ast.Name)]
            if tv:
                atom = atom or tv[0]
        row = any(isinstance(x, ast.Subscript) and isinstance(x.slice, ast.Tuple) and x.slice.elts and norm(x.slice.elts[0]) == atom for x in ast.walk(dist)) \
            or any(isinstance(x, ast.Subscript) and norm(x.slice) == atom for x in ast.walk(dist))
        if not near:
            rep.violation(rid, f"_localize_clusters: neighbourhood `{norm(c)[:60]}`", "the atoms counted for each cluster are those *farther* than merge_radius: a shared "
                          "interface atom goes to the cluster that is not around it", M.where(fq, c))
        elif field != ["dist_matrix_radii_mic"]:
            rep.violation(rid, f"_localize_clusters: neighbourhood `{norm(c)[:60]}`", f"reads {field or 'no distance table'}: merge_radius is a radii-corrected minimum-image "
                          "distance (dist_matrix_radii_mic)", M.where(fq, c))
        elif not row:
            rep.violation(rid, f"_localize_clusters: neighbourhood `{norm(c)[:60]}`", f"is not the distance row of the shared atom `{atom}`", M.where(fq, c))
        else:
            rep.ok(rid, f"_localize_clusters: neighbours of atom `{atom}` = radii-corrected minimum-image distances below the caller's merge_radius")
    # argmax accumulation over the clusters of the atom
    accs = []
    for t in ast.walk(fn):
        if not (isinstance(t, ast.If) and isinstance(t.test, ast.Compare) and len(t.test.ops) == 1):
            continue
        assigned = {norm(s.targets[0]): s.value for s in t.body if isinstance(s, ast.Assign) and len(s.targets) == 1}
        l, r = norm(t.test.left), norm(t.test.comparators[0])
        if r in assigned and norm(assigned[r]) == l:
            accs.append((t, l, r, isinstance(t.test.ops[0], (ast.Gt, ast.GtE)), assigned))
        elif l in assigned and norm(assigned[l]) == r:
            accs.append((t, r, l, isinstance(t.test.ops[0], (ast.Lt, ast.LtE)), assigned))
    if not accs:
        raise AnalysisError("_localize_clusters: running-maximum selection of the nearest cluster not recognised")
    for t, cur, best, is_max, assigned in accs:
        loops = [lp for lp in ast.walk(fn) if isinstance(lp, ast.For) and any(x is t for x in ast.walk(lp))]
        inner = loops[-1]
        lv = norm(inner.target)
        chosen = [k for k, v in assigned.items() if norm(v) == lv]
        sl = fl.slice(ast.Name(id=cur, ctx=ast.Load()), fl.node_of(t))
        counted = any(isinstance(x, ast.Call) and isinstance(x.func, ast.Attribute) and x.func.attr == "intersection" for e in sl["exprs"] for x in ast.walk(e)) \
            and any(isinstance(x, ast.Attribute) and x.attr == "indices" and norm(x.value) == lv for e in sl["exprs"] for x in ast.walk(e))
        if not is_max:
            rep.violation(rid, f"_localize_clusters: selection `{norm(t.test)}`", "keeps the cluster with the *fewest* neighbours of the shared atom: interface atoms are "
                          "handed to the wrong slab", M.where(fq, t))
        elif not chosen:
            rep.violation(rid, f"_localize_clusters: selection `{norm(t.test)}`", "the running maximum is updated but the chosen cluster is not", M.where(fq, t))
        elif not counted:
            rep.violation(rid, f"_localize_clusters: selection `{norm(t.test)}`", f"`{cur}` is not the number of the cluster's own atoms among the neighbours", M.where(fq, t))
        else:
            rep.ok(rid, f"_localize_clusters: the shared atom stays in the cluster with most of its own atoms among the neighbours (`{chosen[0]}`)")


def run(rep, ctx):
    M = ctx.model
    rep.explanation = ("path classification of the matching loop (species-strict), source check of the region members, guard polarity and "
                       "provenance of the merge decision, running-maximum shape of the nearest-cluster choice, must-pass-through order of the "
                       "post-processing stages, cache coherence of the clusters' dimensionality")
    rep.assumptions = ["whether the region search finds each slab as one region (span selection, tolerances, tracking) is numeric and is not decided",
                       "the decided clauses are necessary, not sufficient, for the statement"]
    rep.rule("R03.1", "position matching is species-strict: an atom of another element within the tolerance is a substitution, never a match (shared with C16)")
    with rep.guard("R03.1"):
        c16.r16_1(rep, M, "R03.1", region=True)
        c16.r16_2(rep, M, "R03.1", region=True)
    rep.rule("R03.2", "members of a region are its matched basis atoms only; a new cluster is the seed plus these members")
    with rep.guard("R03.2"):
        r03_2(rep, M, "R03.2")
    rep.rule("R03.3", "two clusters are merged exactly when their shared-atom fraction exceeds the caller's merge_threshold; the larger cluster's species survive")
    with rep.guard("R03.3"):
        r03_3(rep, M, "R03.3")
        merged_not_kept_twice(rep, M, "R03.3")
    rep.rule("R03.4", "a merge keeps only atoms whose element is in the species of the merged cluster (shared with C01)")
    with rep.guard("R03.4"):
        c01.r01_7(rep, M, "R03.4")
    rep.rule("R03.5", "a shared atom goes to the cluster with most atoms within the caller's merge_radius (radii-corrected distances of its own row)")
    with rep.guard("R03.5"):
        r03_5(rep, M, "R03.5")
    rep.rule("R03.6", "a shared atom is removed from all but that one cluster; merge -> localise -> clean run in order; thresholds reach their consumers (shared with C01)")
    with rep.guard("R03.6"):
        c01.r01_11(rep, M, "R03.6")
        c01.r01_3(rep, M, "R03.6")
        c01.r01_9(rep, M, "R03.6", cluster_context=True)
    rep.rule("R03.7", "the dimensionality a cluster reports is coherent with its current atoms, radii and threshold (shared with C13)")
    with rep.guard("R03.7"):
        c13.r13_1(rep, M, "R03.7")
        c13.r13_2(rep, M, "R03.7")
        c13.r13_4(rep, M, "R03.7")
    rep.rule("R03.8", "get_clusters derives everything it uses from this call's arguments: no finder, distance table or cell list is carried over from a "
                      "previous call (the statement holds for any seed, i.e. for every random stream, so the generator itself is exempt; shared with C01)")
    with rep.guard("R03.8"):
        c01.call_local_state(rep, M, "R03.8", GC, generators_exempt=True)
    rep.rule("R03.9", "the search for the atoms inside a candidate cell covers every periodic image the cell reaches into (shared with C04)")
    with rep.guard("R03.9"):
        from . import c04 as _c04w
        _c04w.within_basis(rep, M, "R03.9")
        _c04w.factors_times_cell(rep, M, "R03.9")
        _c04w.both_directions_alike(rep, M, "R03.9")
        _c04w.image_labels_add(rep, M, "R03.9")
        _c04w.correction_orientation(rep, M, "R03.9")
        _c04w.builders_pick_alike(rep, M, "R03.9")
        _c04w.per_copy_distance(rep, M, "R03.9")
        _c04w.span_2d_form(rep, M, "R03.9")
        _c04w.span_through_minus_neighbour(rep, M, "R03.9")
    rep.rule("R03.10", "the stack is searched on a working copy whose atoms are inside the cell: missing cell vectors completed, atoms outside along a non-periodic axis always "
             "trigger enlargement and centring (shared with C04; the stacking direction may be non-periodic)")
    with rep.guard("R03.10"):
        c01.r01_14(rep, M, "R03.10")
        c01.r01_13(rep, M, "R03.10")
        c01.r01_6(rep, M, "R03.10")
        from . import c04 as _c04ax
        _c04ax.axis_index_typing(rep, M, "R03.10", GC)
    rep.rule("R03.11", "no function keeps results in module-level state or functools caches (answers do not depend on what the process analysed before)")
    with rep.guard("R03.11"):
        from .. import symrules as _SRms
        _SRms.module_state(rep, ctx.model, "R03.11", _SRms.GEOMETRY_SIDE)
    rep.floor("R03.1", 8)
    rep.floor("R03.2", 3)
    rep.floor("R03.3", 3)
    rep.floor("R03.4", 2)
    rep.floor("R03.5", 2)
    rep.floor("R03.6", 10)
    rep.floor("R03.7", 6)


META = {
    "level": "other",
    "text": "PARTIAL: decides only the structural mechanisms the statement anchors, each a necessary condition - species-strict matching and "
            "members = basis indices (an atom of the other element can never join a region), merge guard polarity / threshold provenance / overlap "
            "score shape / surviving species, species filter of merged index sets, nearest-cluster choice (running maximum over own atoms within the "
            "caller's merge_radius on radii-corrected distances), exactly-one removal, stage order, parameter forwarding, cache coherence of "
            "Cluster.get_dimensionality. Whether a concrete stack is found as two regions by the periodic-region search (span selection, "
            "tolerances, adaptive tracking) is floating-point behaviour over materials, noise and seeds and is NOT decided.",
    "note": "trusted: CPython ast; the rules shared with C01/C13/C16 are the same code run under this property's rule ids.",
    "technique": "guard-polarity and provenance rules on the CFG + path classification of the matching loop + running-maximum idiom recognition",
}


# ----------------------------------------------------------------------------- a merged component is not kept a second time
def merged_not_kept_twice(rep, M, rid):
    """_merge_clusters: a component is kept as it is exactly when it was not merged: the flag that guards `isolated_clusters.append(i_cluster)` starts True for
    every component and is lowered in the branch that appends the merged cluster"""
    fq = SBC + "._merge_clusters"
    fn = M.func(fq)
    keep = [t for t in ast.walk(fn) if isinstance(t, ast.If) and isinstance(t.test, ast.Name) and not t.orelse
            and any(isinstance(c, ast.Call) and isinstance(c.func, ast.Attribute) and c.func.attr == "append" for s in t.body for c in ast.walk(s))]
    merges = [c for c in M.own_nodes(fq) if isinstance(c, ast.Call) and isinstance(c.func, ast.Name) and c.func.id == "merge"]
    if not keep or not merges:
        raise AnalysisError("_merge_clusters: the flag-guarded keep of an unmerged component / the merge call was not recognised")
    flag = keep[0].test.id
    sets = [s for s in ast.walk(fn) if isinstance(s, ast.Assign) and isinstance(s.targets[0], ast.Name) and s.targets[0].id == flag and isinstance(s.value, ast.Constant)]
    mbranch = next((t for t in ast.walk(fn) if isinstance(t, ast.If) and any(x is merges[0] for s in t.body for x in ast.walk(s))), None)
    in_merge = [s for s in sets if mbranch is not None and any(s is x for b in mbranch.body for x in ast.walk(b))]
    outside = [s for s in sets if s not in in_merge]
    if in_merge and all(s.value.value is False for s in in_merge) and outside and all(s.value.value is True for s in outside):
        rep.ok(rid, f"_merge_clusters: `{flag}` starts True for every component and is lowered when the component is merged")
    else:
        rep.violation(rid, f"_merge_clusters: flag `{flag}`", f"initial value(s) {[s.value.value for s in outside]}, in the merge branch {[s.value.value for s in in_merge]}; required "
                      "True initially and False after a merge: otherwise a merged component is also kept on its own (its atoms appear in two clusters until localisation "
                      "tears them apart) or unmerged components are dropped", M.where(fq, keep[0]))
