"""C06 - symmetry results are a normal form (necessary structural conditions)."""
import ast

from .. import symrules as SR
from .. import tableobl as TO
from ..cfg import walk_own
from ..dataflow import Flow
from ..model import norm
from ..report import AnalysisError
from . import c05

SA = SR.SA
GS = SR.GS
ORDERERS = {"sorted", "numpy.sort", "numpy.unique", "numpy.argsort", "numpy.lexsort"}


def set_typed(M, fq, fl, e, at, depth=0):
    """does expression e (at node at) evaluate to a set / dict-keys view? (one level of reaching definitions)"""
    if depth > 3:
        return False
    if isinstance(e, (ast.Set, ast.SetComp)):
        return True
    if isinstance(e, ast.Call):
        if isinstance(e.func, ast.Name) and e.func.id in ("set", "frozenset"):
            return True
        if isinstance(e.func, ast.Attribute) and e.func.attr in ("union", "intersection", "difference", "symmetric_difference"):
            return True          # dict views are insertion ordered, hence deterministic: not flagged
        return False
    if isinstance(e, ast.BinOp) and isinstance(e.op, (ast.BitOr, ast.BitAnd, ast.Sub)):
        return set_typed(M, fq, fl, e.left, at, depth + 1)
    if isinstance(e, ast.Name):
        defs = fl.rd[at].get(e.id, ())
        res = []
        for d in defs:
            if d == fl.cfg.entry:
                res.append(False)
                continue
            for kind, *rest in fl.def_value(d, e.id):
                res.append(kind == "expr" and set_typed(M, fq, fl, rest[0], d, depth + 1))
        return any(res)
    return False


def r06_2(rep, M, rid):
    n = 0
    for name in ("_find_wyckoff_ground_state", "get_material_id", "_get_wyckoff_sets"):
        fq = SA + "." + name
        fn = M.func(fq)
        fl = Flow(fn)
        for node_id, d in fl.cfg.g.nodes(data=True):
            s = d["ast"]
            if s is None:
                continue
            iters = []
            if isinstance(s, ast.For):
                order_dependent = any(isinstance(x, (ast.Break, ast.Return)) for x in ast.walk(s)) or any(
                    isinstance(x, ast.Call) and isinstance(x.func, ast.Attribute) and x.func.attr in ("append", "extend", "insert") for x in ast.walk(s)) \
                    or any(isinstance(x, ast.Assign) and any(isinstance(t, ast.Name) for t in x.targets) for b in s.body for x in ast.walk(b))
                if order_dependent:
                    iters.append((s.iter, s))
            for sub in walk_own(s):
                if isinstance(sub, (ast.ListComp, ast.GeneratorExp)):
                    for g in sub.generators:
                        iters.append((g.iter, sub))
                if isinstance(sub, ast.Call) and isinstance(sub.func, ast.Attribute) and sub.func.attr == "join" and sub.args:
                    iters.append((sub.args[0], sub))
                if isinstance(sub, ast.Call) and isinstance(sub.func, ast.Name) and sub.func.id == "list" and sub.args:
                    iters.append((sub.args[0], sub))
            for it, ctx in iters:
                n += 1
                if set_typed(M, fq, fl, it, node_id):
                    # building another set / counting is order-free
                    rep.violation(rid, f"{name}: iteration over `{norm(it)[:50]}`", "an order-dependent loop / join / list() ranges directly over a "
                                  "set (or dict-keys) of strings: the order depends on PYTHONHASHSEED, so two processes can choose different "
                                  "representations or ids for the same crystal", M.where(fq, ctx))
    rep.count("iteration_sites", n)
    rep.ok(rid, f"{n} order-dependent iteration sites in the ranking / id / set-assembly code range over ordered sequences")
    # positive: the two ranking loops iterate sorted(...) results
    fn = M.func(GS)
    fl = Flow(fn)
    ranked = 0
    # the ranking loops are the loops whose targets form the key (letter, element) of the candidates' count lookup
    keys = [c.args[0] for c in ast.walk(fn) if isinstance(c, ast.Call) and isinstance(c.func, ast.Attribute) and c.func.attr == "get" and len(c.args) == 1
            and isinstance(c.args[0], ast.Tuple) and len(c.args[0].elts) == 2 and all(isinstance(e, ast.Name) for e in c.args[0].elts)
            and isinstance(c.func.value, ast.Subscript) and isinstance(c.func.value.slice, ast.Constant) and c.func.value.slice.value == "wyckoff_positions"]
    keyvars = {e.id for k in keys for e in k.elts}
    for s in ast.walk(fn):
        if isinstance(s, ast.For) and isinstance(s.target, ast.Name) and s.target.id in keyvars and isinstance(s.iter, ast.Name) \
                and any(any(k is x for x in ast.walk(s)) for k in keys):
            at = fl.node_of(s)
            defs = fl.rd[at].get(s.iter.id, ())
            ok = defs and all(d != fl.cfg.entry and all(k == "expr" and isinstance(v, ast.Call) and isinstance(v.func, ast.Name) and v.func.id == "sorted"
                                                         for k, v, *_ in [tuple(x) + (None,) for x in fl.def_value(d, s.iter.id)]) for d in defs)
            if ok:
                ranked += 1
                rep.ok(rid, f"ranking loop over `{s.iter.id}` iterates a sorted() result")
            else:
                rep.violation(rid, f"ranking loop over `{s.iter.id}`", "the ranking order is not fixed by sorted(...): letters must be visited "
                              "alphabetically and atomic numbers ascending for the choice to be canonical", M.where(GS, s))
                ranked += 1
    if ranked < 2:
        raise AnalysisError(f"_find_wyckoff_ground_state: expected the two ranking loops over sorted letters / atomic numbers, recognised {ranked}")
    # final order of the reported sets
    fq = SA + "._get_wyckoff_sets"
    rets = [r for r in ast.walk(M.func(fq)) if isinstance(r, ast.Return)]
    fl3 = Flow(M.func(fq))
    ok = False
    for r in rets:
        sl = fl3.slice(r.value, fl3.node_of(r))
        for e in sl["exprs"]:
            for c in ast.walk(e):
                if isinstance(c, ast.Call) and isinstance(c.func, ast.Name) and c.func.id == "sorted":
                    key = next((k.value for k in c.keywords if k.arg == "key"), None)
                    if key is not None and "wyckoff_letter" in norm(key) and "atomic_number" in norm(key):
                        ok = True
    if ok:
        rep.ok(rid, "reported Wyckoff sets are sorted by (letter, atomic number)")
    else:
        rep.violation(rid, "_get_wyckoff_sets: order of the result", "the list of sets is not sorted by (letter, atomic number)", M.where(fq))


def r06_3(rep, M, rid):
    fq = SA + ".get_material_id"
    fn = M.func(fq)
    fl = Flow(fn)
    upd = [c for c in ast.walk(fn) if isinstance(c, ast.Call) and isinstance(c.func, ast.Attribute) and c.func.attr == "update"]
    hashes = [c for c in ast.walk(fn) if isinstance(c, ast.Call) and (SR.resolver(M, fq)(c.func) or "").startswith("hashlib.")]
    if not upd or not hashes:
        raise AnalysisError("get_material_id: hashlib digest not found")
    at = fl.node_of(upd[0])
    sl = fl.slice(upd[0].args[0], at)
    allowed_set_attrs = {"element", "wyckoff_letter", "indices", "atomic_number", "multiplicity"}
    allowed_self = {"get_space_group_number", "get_wyckoff_sets_conventional", "n_pbc"}
    loopvars = set()
    for n2, d in fl.cfg.g.nodes(data=True):
        if isinstance(d["ast"], ast.For):
            loopvars |= {x.id for x in ast.walk(d["ast"].target) if isinstance(x, ast.Name)}
    bad = []
    sources = set()
    for e in sl["exprs"]:
        for x in ast.walk(e):
            if isinstance(x, ast.Attribute) and isinstance(x.value, ast.Name):
                if x.value.id == "self":
                    sources.add("self." + x.attr)
                    if x.attr not in allowed_self:
                        bad.append(f"self.{x.attr}")
                elif x.value.id in loopvars:
                    sources.add("set." + x.attr)
                    if x.attr not in allowed_set_attrs:
                        bad.append(f"{x.value.id}.{x.attr}")
                    if x.attr == "indices":
                        # only its length may enter
                        par = [c for c in ast.walk(e) if isinstance(c, ast.Call) and isinstance(c.func, ast.Name) and c.func.id == "len" and c.args and c.args[0] is x]
                        if not par:
                            bad.append(f"{x.value.id}.indices (atom indices themselves)")
    # the 2D flag
    flag = any(isinstance(t, ast.If) and "n_pbc" in norm(t.test) and any("2D" in norm(s) for s in t.body) for t in ast.walk(fn))
    if bad:
        rep.violation(rid, "get_material_id: hashed string", f"presentation-dependent data enters the id: {sorted(set(bad))}", M.where(fq, upd[0]))
    elif not {"self.get_space_group_number", "set.wyckoff_letter", "set.element"} <= sources:
        rep.violation(rid, "get_material_id: hashed string", f"the id is built from {sorted(sources)}; space-group number, letters and species "
                      "must all enter", M.where(fq, upd[0]))
    else:
        rep.ok(rid, f"id string built from {sorted(sources)} only")
    if flag:
        rep.ok(rid, "2D systems get the '2D' prefix (id differs from the 3D id)")
    else:
        rep.violation(rid, "get_material_id: 2D flag", "the id of a 2D system is not distinguished from the 3D one", M.where(fq))
    sets_call = [c for c in ast.walk(fn) if isinstance(c, ast.Call) and isinstance(c.func, ast.Attribute) and c.func.attr == "get_wyckoff_sets_conventional"]
    if sets_call:
        rep.ok(rid, "id is computed from the conventional (normal-form) Wyckoff sets")


def run(rep, ctx):
    M, T = ctx.model, ctx.tables
    rep.exhaustive = True
    rep.explanation = ("closure of {identity + normalizers} under composition modulo the group for all 230 groups (exact), canonical "
                       "iteration order in the ranking/id code, backward slice of the hashed id string")
    rep.assumptions = ["invariance itself is a relation between two runs through spglib and is not decided"]
    rep.rule("R06.1", "the candidate set (identity + normalizers) is closed under composition modulo the group, all 230 groups")
    rep.rule("R06.2", "ranking, id construction and set assembly iterate ordered sequences; ranking loops are sorted")
    rep.rule("R06.3", "the material id is built from normal-form data only (number, letters, species, multiplicities, 2D flag)")
    rep.rule("R06.4", "first-of-equal-candidates selection is order stable")
    TO.norm_closure(rep, T, "R06.1")
    with rep.guard("R06.2"):
        r06_2(rep, M, "R06.2")
    with rep.guard("R06.3"):
        r06_3(rep, M, "R06.3")
        from .. import symrules as _SRg
        _SRg.ground_state_consistency_raises(rep, M, "R06.3")
        _SRg.lazy_init_polarity(rep, M, "R06.3", ["get_wyckoff_letters_original"])
    with rep.guard("R06.4"):
        facts = c05.first_wins_guard(M)
        for k, v in sorted(facts.items()):
            if v:
                rep.ok("R06.4", f"_find_wyckoff_ground_state: {k}")
            else:
                rep.violation("R06.4", f"_find_wyckoff_ground_state: {k}", "candidate order is not (identity, table order) with the first of "
                              "equally ranked candidates chosen: the selected representation depends on incidental order", M.where(GS))
    rep.rule("R06.5", "every memoised result of the analyzer is dropped by reset(), which set_system() calls (no answers for a previous structure)")
    with rep.guard("R06.5"):
        from .. import symrules as _SR
        _SR.reset_covers_caches(rep, ctx.model, "R06.5")
    rep.rule("R06.6", "every tabulated letter permutation is the bijection its normalizer induces (origin-shifted presentations get the same letters)")
    TO.norm_perm(rep, T, "R06.6")
    rep.rule("R06.7", "letters / orbits are read over the right index space (supercells with reordered atoms get the same letters)")
    with rep.guard("R06.7"):
        SR.index_spaces(rep, M, "R06.7")
        SR.orbit_source(rep, M, "R06.7")
        SR.letter_spaces(rep, M, "R06.7")
    rep.rule("R06.8", "the chosen normalizer is applied to the positions in the convention of the table (letters and positions stay in step)")
    with rep.guard("R06.8"):
        from . import c05 as _c05
        _c05.r05_3(rep, ctx.model, "R06.8")
    rep.rule("R06.9", "the symmetry tolerance given to the analyzer reaches spglib (through segfault_protect)")
    with rep.guard("R06.9"):
        from .. import symrules as _SR2
        _SR2.tolerance_reaches_spglib(rep, ctx.model, "R06.9")
    rep.rule("R06.10", "Wyckoff sets are assembled per orbit with letter/element read at the orbit's first atom (ids do not depend on atom order)")
    with rep.guard("R06.10"):
        from . import c07 as _c07
        _c07.r07_3(rep, M, "R06.10")
    rep.rule("R06.11", "spglib is given the analysed structure unmodified with the analyzer's tolerance, and its standardised lattice / positions / types are used without a change of convention (shared with C05)")
    with rep.guard("R06.11"):
        from . import shared as _shb
        _shb.spglib_boundary(rep, ctx.model, "R06.11", back=False)
    rep.floor("R06.11", 4)
    rep.rule("R06.12", "every tabulated normalizer is an automorphism of its group and an isometry of the lattice (the normalised cell is the same crystal in the same space group; shared with C05/C14)")
    from . import shared as _shn
    _shn.normalizer_tables(rep, ctx.tables, "R06.12", perm=False)
    rep.floor("R06.12", 2400)
    rep.rule("R06.13", "the reported labels (crystal system, Bravais lattice, point group, chirality) are read from the detected space-group type, not from the operations of the given cell (shared with C14/C15)")
    with rep.guard("R06.13"):
        from . import c14 as _c14
        _c14.getter_semantics(rep, ctx.model, T, "R06.13", values=False)
    rep.floor("R06.6", 6000)
    rep.floor("R06.7", 8)
    rep.floor("R06.1", 230)
    rep.floor("R06.2", 4)
    rep.floor("R06.3", 3)
    rep.floor("R06.4", 5)


META = {
    "level": "other",
    "text": "static necessary conditions of presentation independence: the set of candidate transformations is closed under "
            "composition modulo the group for all 230 groups (a missing coset gives two normal forms for one crystal, e.g. the two "
            "rock-salt sublattices), the tie-breaking visits letters and atomic numbers in sorted order and never iterates a hash-"
            "ordered set, and the hashed id string depends only on space-group number, letters, species, multiplicities and the 2D "
            "flag. Invariance of the actual outputs under re-presentation also depends on spglib and is not decided (weak claim)."
            " Also: tabulated letter permutations are the induced bijections (exact, all normalizers), index-space typing of the getters, application convention of the chosen normalizer, and every memo of the analyzer is cleared by reset() (results do not depend on what the analyzer object was used for before).",
    "note": "trusted: spglib Hall database; CPython set/dict semantics (sets of str are hash-seed ordered, dicts insertion ordered).",
    "technique": "exact closure obligation over the tables + canonical-order lint + backward slice of the id string",
}
