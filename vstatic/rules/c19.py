"""C19 - radii presets and custom radii are honoured uniformly."""
import ast

from ..cfg import CFG
from ..dataflow import Flow
from ..model import norm
from ..report import AnalysisError
from . import c13

GEO = "matid.geometry.geometry"
GET_RADII = GEO + ".get_radii"
COV = "ase.data.covalent_radii"
VDW = "ase.data.vdw_alvarez.vdw_radii"
CONSUMERS = [GEO + ".get_dimensionality", GEO + ".get_distances", "matid.clustering.sbc.SBC.get_clusters"]


def nan_expr(M, fq, e):
    r = M.resolve(fq, e) if isinstance(e, (ast.Name, ast.Attribute)) else None
    if isinstance(r, tuple) and r[0] == "ext" and r[1].lower() in ("numpy.nan", "math.nan", "numpy.core.nan"):
        return True
    if isinstance(e, ast.Call) and isinstance(e.func, ast.Name) and e.func.id == "float" and e.args \
            and isinstance(e.args[0], ast.Constant) and str(e.args[0].value).lower().strip("+-") == "nan":
        return True
    return False


def r19_1_scan(rep, M, rid):
    """contradiction rule: a comparison against NaN is constant"""
    n = 0
    for fq in list(M.functions()) + list(M.mods):
        for node in M.own_nodes(fq):
            if isinstance(node, ast.Compare):
                n += 1
                operands = [node.left] + list(node.comparators)
                if any(nan_expr(M, fq, o) for o in operands):
                    rep.violation(rid, f"{fq.replace('matid.', '')}: {norm(node)}",
                                  "comparison against NaN with ==/!=/is is constant for every input "
                                  "(x != nan is always True): the intended missing-value test never fires",
                                  M.where(fq, node))
    rep.count("comparisons_scanned", n)
    rep.ok(rid, f"{n} comparison expressions scanned in {len(M.functions())} functions")


def nan_predicate(M, fq, cond):
    """-> ('isnan', expr) if cond is true exactly when expr is NaN, ('notnan', expr) for the negation, else None"""
    if isinstance(cond, ast.UnaryOp) and isinstance(cond.op, (ast.Not, ast.Invert)):
        r = nan_predicate(M, fq, cond.operand)
        if r:
            return ("notnan" if r[0] == "isnan" else "isnan", r[1])
        return None
    if isinstance(cond, ast.Call) and cond.args:
        r = M.resolve(fq, cond.func)
        name = r[1] if isinstance(r, tuple) and r[0] == "ext" else None
        if name in ("numpy.isnan", "math.isnan"):
            return ("isnan", cond.args[0])
        if name in ("numpy.isfinite", "math.isfinite"):
            return ("notnan", cond.args[0])
    if isinstance(cond, ast.Compare) and len(cond.ops) == 1 and norm(cond.left) == norm(cond.comparators[0]):
        if isinstance(cond.ops[0], ast.NotEq):
            return ("isnan", cond.left)
        if isinstance(cond.ops[0], ast.Eq):
            return ("notnan", cond.left)
    return None


def data_names(M, fq, e):
    out = set()
    for sub in ast.walk(e):
        if isinstance(sub, (ast.Name, ast.Attribute)):
            r = M.resolve(fq, sub)
            if isinstance(r, tuple) and r[0] == "ext" and r[1].startswith("ase.data"):
                out.add(r[1])
    return out


def preset_branches(M, fn):
    """{preset string: [statements of the branch]} from the if/elif chain `radii == "<preset>"`"""
    out = {}
    for n in ast.walk(fn):
        if isinstance(n, ast.If) and isinstance(n.test, ast.Compare) and len(n.test.ops) == 1 \
                and isinstance(n.test.ops[0], ast.Eq):
            a, b = n.test.left, n.test.comparators[0]
            if isinstance(b, ast.Constant) and isinstance(b.value, str) and isinstance(a, ast.Name):
                out[b.value] = n.body
            elif isinstance(a, ast.Constant) and isinstance(a.value, str) and isinstance(b, ast.Name):
                out[a.value] = n.body
    return out


def r19_presets(rep, M, rid_nan, rid_tab):
    fn = M.func(GET_RADII)
    br = preset_branches(M, fn)
    for p in ("covalent", "vdw", "vdw_covalent"):
        if p not in br:
            raise AnalysisError(f"get_radii: no `radii == {p!r}` branch (dispatch shape not modelled)")
    rep.count("presets", len(br))
    for p, want in (("covalent", {COV}), ("vdw", {VDW})):
        vals = [s.value for s in br[p] if isinstance(s, ast.Assign)]
        names = set().union(*[data_names(M, GET_RADII, v) for v in vals]) if vals else set()
        def unchanged(v):
            """the table itself, possibly through a plain array conversion / copy"""
            for _ in range(4):
                if isinstance(v, ast.Call) and len(v.args) == 1 and not v.keywords and (M.ext_name(GET_RADII, v.func) or "") in ("numpy.array", "numpy.asarray", "numpy.copy"):
                    v = v.args[0]
                elif isinstance(v, ast.Call) and isinstance(v.func, ast.Attribute) and v.func.attr == "copy" and not v.args:
                    v = v.func.value
                else:
                    break
            return isinstance(v, (ast.Name, ast.Attribute))
        changed = [v for v in vals if not unchanged(v)]
        if names == want and changed:
            rep.violation(rid_tab, f"get_radii preset {p!r}", f"`{norm(changed[0])[:70]}` is not the documented table itself: the values are transformed (e.g. undefined radii "
                          "turned into 0.0 or scaled), so the preset and the same documented numbers passed as a custom array give different results",
                          M.where(GET_RADII, changed[0]))
        elif names == want:
            rep.ok(rid_tab, f"get_radii preset {p!r} -> {sorted(names)}")
        else:
            rep.violation(rid_tab, f"get_radii preset {p!r}",
                          f"resolves to {sorted(names) or 'no ASE table'}, documented table is {sorted(want)}",
                          M.where(GET_RADII, br[p][0]))
    # vdw_covalent: elementwise selection
    body = br["vdw_covalent"]
    names = set().union(*[data_names(M, GET_RADII, s) for s in body])
    if names != {COV, VDW}:
        rep.violation(rid_tab, "get_radii preset 'vdw_covalent'",
                      f"combines {sorted(names)}, documented: van der Waals with covalent fallback", M.where(GET_RADII, body[0]))
    else:
        rep.ok(rid_tab, "get_radii preset 'vdw_covalent' combines exactly the vdW and covalent tables")
    sel = []
    for s in body:
        for sub in ast.walk(s):
            if isinstance(sub, ast.IfExp):
                sel.append(("ifexp", sub.test, sub.body, sub.orelse, sub))
            elif isinstance(sub, ast.Call):
                r = M.resolve(GET_RADII, sub.func)
                if isinstance(r, tuple) and r[1] == "numpy.where" and len(sub.args) == 3:
                    sel.append(("where", sub.args[0], sub.args[1], sub.args[2], sub))
            elif isinstance(sub, ast.If):
                pass
    if not sel:
        whole = [t for st in body for t in ast.walk(st) if isinstance(t, ast.If) and any(
            nan_predicate(M, GET_RADII, c) is not None or (isinstance(c, ast.Call) and isinstance(c.func, ast.Attribute) and c.func.attr in ("any", "all"))
            for c in ast.walk(t.test))]
        if whole or names == {COV, VDW}:
            rep.violation(rid_nan, "get_radii 'vdw_covalent' fallback", "the covalent fallback is not an elementwise selection (conditional expression / "
                          "np.where per element): one missing van der Waals radius switches the table for *every* atom of the structure, so "
                          "elements that do have a vdW radius get their covalent radius", M.where(GET_RADII, (whole or body)[0]))
            return
        raise AnalysisError("get_radii 'vdw_covalent': selection construct (conditional expression / np.where) not found")
    # the elementwise selection covers the whole table (every atomic number the presets know)
    for st in body:
        for comp in [c for c in ast.walk(st) if isinstance(c, (ast.ListComp, ast.GeneratorExp))]:
            if not any(x[4] in list(ast.walk(comp)) for x in sel):
                continue
            it = comp.generators[0].iter
            construct = "get_radii 'vdw_covalent' table range"
            if comp.generators[0].ifs or len(comp.generators) != 1:
                rep.violation(rid_tab, construct, f"`{norm(comp)[:80]}` filters elements: the combined table is no longer indexed by atomic number",
                              M.where(GET_RADII, comp))
            elif isinstance(it, ast.Call) and isinstance(it.func, ast.Name) and it.func.id == "range":
                full = (len(it.args) == 1 or (len(it.args) == 2 and isinstance(it.args[0], ast.Constant) and it.args[0].value == 0))
                stop = it.args[-1] if len(it.args) <= 2 else None
                whole = (full and isinstance(stop, ast.Call) and isinstance(stop.func, ast.Name) and stop.func.id == "len" and len(stop.args) == 1
                         and data_names(M, GET_RADII, stop.args[0]) <= {COV, VDW} and isinstance(stop.args[0], ast.Name))
                if whole:
                    rep.ok(rid_tab, construct + f": `{norm(it)}` covers every tabulated element")
                else:
                    rep.violation(rid_tab, construct, f"`{norm(it)}` does not run over the whole table: the elements left out (the heaviest ones for a shortened "
                                  "range) raise IndexError or read another element's radius with this preset while the same numbers passed as a custom array work",
                                  M.where(GET_RADII, it))
            elif any(isinstance(x, ast.Subscript) for x in ast.walk(it)):
                rep.violation(rid_tab, construct, f"`{norm(it)}` iterates a part of the tables", M.where(GET_RADII, it))
            elif data_names(M, GET_RADII, it) and data_names(M, GET_RADII, it) <= {COV, VDW}:
                rep.ok(rid_tab, construct + f": `{norm(it)}` iterates the tables themselves")
            else:
                raise AnalysisError(f"get_radii 'vdw_covalent': iteration `{norm(it)}` of the elementwise selection not recognised")
    for kind, cond, a, b, node in sel:
        pred = nan_predicate(M, GET_RADII, cond)
        construct = "get_radii 'vdw_covalent' fallback test"
        if pred is None:
            if isinstance(cond, ast.Compare) and any(nan_expr(M, GET_RADII, o) for o in [cond.left] + cond.comparators):
                rep.violation(rid_nan, construct, f"`{norm(cond)}` is constant (NaN never compares equal), so the covalent "
                              "fallback is never taken and elements without a van der Waals radius get NaN",
                              M.where(GET_RADII, node))
            elif VDW in data_names(M, GET_RADII, cond):
                rep.violation(rid_nan, construct, f"`{norm(cond)}` is not a NaN test: the missing van der Waals radii are stored as NaN, for which this "
                              "test has the same value as for an ordinary radius (isinf / ordinary comparisons are never true for NaN), so the covalent fallback "
                              "never fires and elements without a vdW radius get NaN", M.where(GET_RADII, node))
            else:
                raise AnalysisError(f"get_radii 'vdw_covalent': test `{norm(cond)}` is not a recognised NaN predicate")
            continue
        kindp, subject = pred
        if VDW not in data_names(M, GET_RADII, subject):
            rep.violation(rid_nan, construct, f"the NaN test looks at `{norm(subject)}`, not at the van der Waals table",
                          M.where(GET_RADII, node))
            continue
        when_nan, when_ok = (a, b) if kindp == "isnan" else (b, a)
        if data_names(M, GET_RADII, when_nan) == {COV} and data_names(M, GET_RADII, when_ok) == {VDW}:
            rep.ok(rid_nan, construct + f": `{norm(cond)}` selects covalent exactly where vdW is NaN")
        else:
            rep.violation(rid_nan, construct, f"with `{norm(cond)}` the value for a missing vdW radius is `{norm(when_nan)}` "
                          f"and otherwise `{norm(when_ok)}`: polarity of the fallback is wrong", M.where(GET_RADII, node))


def r19_3(rep, M, rid):
    """custom arrays are returned unchanged"""
    fn = M.func(GET_RADII)
    p0 = M.params(GET_RADII)[0]
    cfg = CFG(fn)
    rd = cfg.reaching_defs()
    # every (re)definition of the parameter lies inside `if isinstance(<p0>, str)`
    guard = None
    for s in fn.body:
        if isinstance(s, ast.If) and isinstance(s.test, ast.Call) and isinstance(s.test.func, ast.Name) \
                and s.test.func.id == "isinstance" and norm(s.test.args[0]) == p0 and norm(s.test.args[1]) == "str":
            guard = s
    if guard is None:
        raise AnalysisError("get_radii: `if isinstance(radii, str)` guard not found")
    inside = {id(x) for b in guard.body for x in ast.walk(b)}
    bad = None
    for n, d in cfg.g.nodes(data=True):
        s = d["ast"]
        if s is None or id(s) in inside or s is guard:
            continue
        from ..cfg import defs_of_stmt
        if p0 in defs_of_stmt(s):
            bad = s
        # in-place edits of the caller's array
        for sub in ast.walk(s) if not isinstance(s, (ast.If, ast.For, ast.While, ast.Try)) else []:
            if isinstance(sub, (ast.Subscript, ast.Attribute)) and isinstance(sub.ctx, ast.Store) and norm(sub.value) == p0:
                bad = s
        if isinstance(s, ast.AugAssign) and norm(s.target) == p0:
            bad = s
    rets = [cfg.stmt(n) for n in cfg.returns]
    if bad is not None:
        rep.violation(rid, "get_radii custom-array path", f"`{norm(bad)[:80]}` rewrites the radii outside the preset branch: "
                      "a custom per-atom array is not used unchanged", M.where(GET_RADII, bad))
    elif not rets or not all(isinstance(r.value, ast.Name) and r.value.id == p0 for r in rets):
        rep.violation(rid, "get_radii return", "does not return the (possibly resolved) radii object itself", M.where(GET_RADII))
    else:
        rep.ok(rid, "get_radii returns its argument untouched when it is not a preset string")
    # preset path: indexed by the atomic numbers argument
    idx = [s for s in ast.walk(guard) if isinstance(s, ast.Assign) and isinstance(s.value, ast.Subscript)
           and norm(s.value.value) == p0]
    nums = M.params(GET_RADII)[1] if len(M.params(GET_RADII)) > 1 else None
    if idx and all(norm(s.value.slice) == nums for s in idx):
        rep.ok(rid, "preset tables are indexed by the atomic-numbers argument")
    else:
        rep.violation(rid, "get_radii preset indexing", "the preset table is not indexed by the atomic numbers argument",
                      M.where(GET_RADII))


def r19_4(rep, M, rid):
    """consumers obtain radii only through get_radii and never re-inspect the preset"""
    for fq in CONSUMERS:
        fn = M.func(fq)
        if "radii" not in M.params(fq):
            raise AnalysisError(f"{fq} has no `radii` parameter")
        fl = Flow(fn)
        calls = [n for n in M.own_nodes(fq) if isinstance(n, ast.Call) and GET_RADII in M.callees_of_call(fq, n)]
        name = fq.split(".")[-1]
        if not calls:
            rep.violation(rid, f"{name}: radii resolution", "does not resolve its `radii` argument through get_radii",
                          M.where(fq))
            continue
        for c in calls:
            a0 = c.args[0] if c.args else None
            if a0 is None or "radii" not in fl.slice(a0, fl.node_of(c))["params"]:
                rep.violation(rid, f"{name}: get_radii first argument", f"`{norm(c)}` is not fed by the `radii` parameter",
                              M.where(fq, c))
            else:
                rep.ok(rid, f"{name}: get_radii({norm(a0)}, ...) fed by parameter radii")
            a1 = c.args[1] if len(c.args) > 1 else next((k.value for k in c.keywords if k.arg == "atomic_numbers"), None)
            if a1 is None:
                rep.violation(rid, f"{name}: get_radii atomic numbers", "atomic numbers not passed", M.where(fq, c))
            else:
                sl = fl.slice(a1, fl.node_of(c))
                if any(isinstance(s, ast.Call) and isinstance(s.func, ast.Attribute) and s.func.attr == "get_atomic_numbers"
                       for e in sl["exprs"] for s in ast.walk(e)) and "system" in sl["params"]:
                    rep.ok(rid, f"{name}: atomic numbers of the analysed system")
                else:
                    rep.violation(rid, f"{name}: get_radii atomic numbers", f"`{norm(a1)}` is not the atomic numbers of the "
                                  "system being analysed", M.where(fq, c))
        # raw parameter uses: only as argument of get_radii
        cfg = fl.cfg
        for n, d in cfg.g.nodes(data=True):
            s = d["ast"]
            if s is None:
                continue
            from ..cfg import walk_own
            for sub in walk_own(s):
                if isinstance(sub, ast.Name) and sub.id == "radii" and isinstance(sub.ctx, ast.Load):
                    if cfg.entry in fl.rd[n].get("radii", ()):       # raw parameter may reach here
                        ok = any(sub in c.args or any(sub is k.value for k in c.keywords) for c in calls)
                        if not ok:
                            rep.violation(rid, f"{name}: raw use of radii in `{norm(s)[:70]}`",
                                          "the unresolved `radii` argument (preset name or array) is used outside get_radii: "
                                          "a preset and the equal-valued array can take different paths", M.where(fq, s))
        rep.ok(rid, f"{name}: no use of the unresolved radii argument outside get_radii")


def r19_8(rep, M, rid):
    CLS = "matid.classification.classifier.Classifier"
    FQ = CLS + ".classify"
    init = M.func(CLS + ".__init__")
    if "radii" not in M.params(CLS + ".__init__"):
        rep.ok(rid, "Classifier has no radii option")
        return
    stored = [t.attr for a in ast.walk(init) if isinstance(a, ast.Assign) and isinstance(a.value, ast.Name) and a.value.id == "radii"
              for t in a.targets if isinstance(t, ast.Attribute) and isinstance(t.value, ast.Name) and t.value.id == "self"]
    if not stored:
        rep.violation(rid, "Classifier.__init__: radii", "the documented `radii` option is not stored", M.where(CLS + ".__init__"))
        return
    attr = "self." + stored[0]
    for q2, d2 in M.functions().items():
        if M.parent.get(q2) != CLS or q2.endswith(".__init__"):
            continue
        for a2 in ast.walk(d2):
            if isinstance(a2, (ast.Assign, ast.AugAssign)):
                for t2 in (a2.targets if isinstance(a2, ast.Assign) else [a2.target]):
                    if norm(t2) == attr:
                        rep.violation(rid, f"{q2.split('.')[-1]}: `{norm(a2)[:60]}`", f"the configured option {attr} is overwritten during a call (here with per-atom values of "
                                      "the structure being classified): a classifier reused for a second structure resolves *its* radii from the first structure's array "
                                      "(wrong radii for equal atom counts, a broadcast error otherwise), while a preset name given to a fresh object behaves differently", M.where(q2, a2))
    n = 0
    for callee in (GEO + ".get_distances", GEO + ".get_dimensionality"):
        for c in M.calls_to(FQ, callee):
            n += 1
            a = M.bind_args(callee, c).get("radii")
            if a is not None and norm(a) == attr:
                rep.ok(rid, f"classify: {callee.split('.')[-1]}(..., radii={attr})")
            else:
                rep.violation(rid, f"classify: {callee.split('.')[-1]} radii", f"`{norm(c)[:70]}` does not receive {attr} (it gets "
                              f"{norm(a) if a is not None else 'the default covalent radii'}): every preset and every custom array given to the Classifier behaves "
                              "like 'covalent', while the same setting given to get_dimensionality / SBC changes the result", M.where(FQ, c))
    if n < 2:
        raise AnalysisError("classify: get_distances / get_dimensionality calls not found")


def run(rep, ctx):
    M = ctx.model
    rep.explanation = ("contradiction rule for NaN comparisons over every comparison in the repo, resolved-import check "
                       "of the preset tables, effect check of the custom-array path, and forwarding of radii to all consumers")
    rep.assumptions = ["ase.data.covalent_radii and ase.data.vdw_alvarez.vdw_radii are the documented tables (DOIs in the docstrings)",
                       "numerical content of ASE's tables is not examined"]
    rep.rule("R19.1", "no comparison against NaN; the vdw_covalent fallback test is a NaN predicate with the right polarity")
    rep.rule("R19.2", "each preset resolves to its documented ASE table")
    rep.rule("R19.3", "a custom array is returned unchanged; presets are indexed by atomic number")
    rep.rule("R19.4", "consumers resolve radii only through get_radii with the system's own atomic numbers")
    rep.rule("R19.5", "the radii of the clustering reach Cluster.get_dimensionality (shared with C13)")
    with rep.guard("R19.1"):
        r19_1_scan(rep, M, "R19.1")
    with rep.guard("R19.1/2"):
        r19_presets(rep, M, "R19.1", "R19.2")
    with rep.guard("R19.3"):
        r19_3(rep, M, "R19.3")
    with rep.guard("R19.4"):
        r19_4(rep, M, "R19.4")
    with rep.guard("R19.5"):
        from ..report import Filtered as _F
        c13.r13_2(_F(rep, lambda c: "radii" in c), M, "R19.5")      # the bond threshold a cluster remembers is the same on both sides of C19's comparison
    rep.rule("R19.8", "the Classifier honours its documented `radii` option: it reaches get_distances and get_dimensionality in classify")
    with rep.guard("R19.8"):
        r19_8(rep, M, "R19.8")
    rep.rule("R19.7", "get_dimensionality uses the resolved per-atom radii unchanged for the 2x supercell (tiled per copy) and for the cutoff")
    with rep.guard("R19.7"):
        from . import c09 as _c09
        from ..report import Filtered
        only_radii = Filtered(rep, lambda construct: "radii" in construct or "cutoff" in construct)
        _c09.r09_3(only_radii, M, "R19.7")
        _c09.r09_2(only_radii, M, "R19.7")
    rep.rule("R19.6", "SBC.get_clusters derives everything it uses from this call's radii (no state carried between calls)")
    with rep.guard("R19.6"):
        from . import c01
        # the distances handed to the region search and to the clusters are this call's get_distances(system_copy, radii)
        GC = "matid.clustering.sbc.SBC.get_clusters"
        fl = Flow(M.func(GC))
        gd = M.calls_to(GC, GEO + ".get_distances")
        for callee, par in (("matid.core.periodicfinder.PeriodicFinder.get_region", "distances"), ("matid.clustering.cluster.Cluster.__init__", "distances")):
            for c in M.calls_to(GC, callee):
                a = M.bind_args(callee, c).get(par)
                ok = a is not None and gd and any(x is gd[0] for x in fl.calls_in_slice(a, fl.node_of(c))) and not any(
                    isinstance(x, ast.Attribute) and isinstance(x.value, ast.Name) and x.value.id == "self" for e in fl.slice(a, fl.node_of(c))["exprs"] for x in ast.walk(e))
                if ok:
                    rep.ok("R19.6", f"get_clusters: `{par}` of {callee.split('.')[-2]} is this call's get_distances(...)")
                else:
                    rep.violation("R19.6", f"get_clusters: `{par}` of {callee.split('.')[-2]}", f"`{norm(a) if a is not None else None}` is not (only) the "
                                  "result of get_distances computed in this call with this call's radii", M.where(GC, c))
    rep.rule("R19.9", "no function keeps results in module-level state or functools caches (answers do not depend on what the process analysed before)")
    with rep.guard("R19.9"):
        from .. import symrules as _SRms
        _SRms.module_state(rep, ctx.model, "R19.9", _SRms.GEOMETRY_SIDE)
    rep.floor("R19.1", 2)
    rep.floor("R19.2", 3)
    rep.floor("R19.4", 6)
    rep.floor("R19.5", 6)


META = {
    "level": "other",
    "text": "static rules: the preset dispatch of get_radii is checked against the resolved ASE tables with the "
            "fallback's NaN predicate and polarity, every comparison in the repo is scanned for the NaN contradiction, "
            "the custom-array path is shown to be the identity, and every consumer is shown to resolve radii through "
            "that one function. This decides 'documented table per preset', 'custom array unchanged' and 'preset and "
            "array take the same path' for every element and input; the numbers in ASE's tables are not examined."
            " Also: the vdw_covalent fallback must be an elementwise selection (a whole-structure switch is a violation), a custom array is never re-indexed outside the preset branch, and SBC.get_clusters derives distances from this call's radii (no state carried between calls).",
    "note": "trusted: CPython ast; import resolution of the repository model; ASE's module layout (ase.data, ase.data.vdw_alvarez).",
    "technique": "contradiction rule (NaN comparison) + resolved-import / def-use checks on the preset dispatch",
}
