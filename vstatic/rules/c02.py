"""C02 - SBC groups a single crystal (bulk or slab) into exactly one complete cluster (structural clauses only).

Whether the region search recognises a concrete crystal as one complete region is decided by floating-point geometry (span metrics,
angle / volume filters, adaptive tracking) and is NOT decided here. The statement also says that the answer is independent of rigid
rotation, translation, atom ordering and seed, and that the cluster reports dimensionality 3 (bulk) / 2 (slab). Those clauses rest on
mechanisms whose correctness is visible in the shape of the code, and each of them is a necessary condition: the genuine defects D16, D17,
D19 and D20 of DESIGN section 4 (an empty list of copies, a strict smallest-cell filter, a position in `cell[pbc]` used as an axis number,
a wrong corner of the searched cell) were all of this kind, and each of them made a pristine crystal come back as *no* cluster for some
orientation, seed or cell size. No rule of this check is its own: every one is a rule of C01 / C03 / C04 / C09 / C10 / C13 / C16 run
under this property's rule ids, restricted to the part that is necessary here.
"""
from . import c01, c03, c04, c13, c16
from . import shared as _sh

GC = c01.GC


def run(rep, ctx):
    M = ctx.model
    rep.explanation = ("borrowed structural rules: index bookkeeping of the search for the atoms inside a candidate cell, index spaces of the periodic "
                       "cell vectors, totality of the prototype-cell builders, containment of the working copy, path classification of the matching loop, "
                       "must-pass-through order of the post-processing stages, cache coherence and first evaluation of the clusters' dimensionality")
    rep.assumptions = ["whether the region search finds the crystal as one complete region (span selection, tolerances, tracking) is numeric and is not decided",
                       "the decided clauses are necessary, not sufficient, for the statement"]
    rep.rule("R02.1", "the search for the atoms inside a candidate cell covers every periodic image the cell reaches into, by floor image numbers, per periodic "
                      "axis (a crystal is found from every seed atom and for every cell size; shared with C04)")
    with rep.guard("R02.1"):
        c04.within_basis(rep, M, "R02.1")
    rep.rule("R02.2", "the counter of the periodic cell vectors is not used as a cell-axis number (a slab is found whichever cell axis is the vacuum axis; shared with C04)")
    with rep.guard("R02.2"):
        c04.masked_index_spaces(rep, M, "R02.2")
    rep.rule("R02.3", "both prototype-cell builders are total on what the span search can hand them: an empty list of copies is skipped, the smallest-cell filter "
                      "keeps the smallest cell, image factors are converted with the cell as the right operand (any cell shape / orientation; shared with C01 / C04 / C17)")
    with rep.guard("R02.3"):
        c04.builders_total(rep, M, "R02.3")
        c04.factors_times_cell(rep, M, "R02.3")
        c04.both_directions_alike(rep, M, "R02.3")
        c04.image_labels_add(rep, M, "R02.3")
        c04.span_through_minus_neighbour(rep, M, "R02.3")
        c04.correction_orientation(rep, M, "R02.3")
        c04.builders_pick_alike(rep, M, "R02.3")
        c04.per_copy_distance(rep, M, "R02.3")
        c04.span_2d_form(rep, M, "R02.3")
    rep.rule("R02.4", "the crystal is searched on a working copy whose atoms are inside the cell: missing cell vectors completed, atoms outside along a non-periodic "
                      "axis always trigger enlargement and centring, the copy is wrapped (translated and unwrapped descriptions give the same answer; shared with C01 / C04)")
    with rep.guard("R02.4"):
        c01.r01_14(rep, M, "R02.4")
        c01.r01_13(rep, M, "R02.4")
        c01.r01_6(rep, M, "R02.4")
        c04.axis_index_typing(rep, M, "R02.4", GC)
    rep.rule("R02.5", "an atom is a member of the region exactly when it is matched within the tolerance with the right species; members are the matched basis atoms "
                      "(region-search view of the matching loop; shared with C03 / C16)")
    with rep.guard("R02.5"):
        c16.r16_1(rep, M, "R02.5", region=True)
        c16.r16_2(rep, M, "R02.5", region=True)
        c03.r03_2(rep, M, "R02.5")
    rep.rule("R02.6", "merge -> localise -> clean run in this order on every path, thresholds reach their consumers, cleaning keeps one bonded component of the "
                      "cluster's own matrix (a complete cluster is not split or emptied afterwards; shared with C01 / C03)")
    with rep.guard("R02.6"):
        c01.r01_3(rep, M, "R02.6")
        c01.r01_9(rep, M, "R02.6", cluster_context=True)
        c01.r01_8(rep, M, "R02.6")
        c03.merged_not_kept_twice(rep, M, "R02.6")
    rep.rule("R02.7", "the dimensionality the cluster reports is that of its current atoms with the clustering radii and threshold: cache dropped when the indices "
                      "change, context forwarded, first evaluation wrapped / cut off / in the cell of the same object (3 for bulk, 2 for slabs; shared with C13 / C09)")
    with rep.guard("R02.7"):
        c13.r13_1(rep, M, "R02.7")
        c13.r13_2(rep, M, "R02.7")
        c13.r13_4(rep, M, "R02.7")
        _sh.dimensionality(rep, M, "R02.7")
    rep.rule("R02.8", "the distance tables the bonding criterion reads are genuine minimum-image tables (shared with C10)")
    with rep.guard("R02.8"):
        _sh.distances(rep, M, "R02.8")
    rep.rule("R02.9", "get_clusters derives everything it uses from this call's arguments (the statement holds for any seed, so the generator itself is exempt; "
                      "shared with C01)")
    with rep.guard("R02.9"):
        c01.call_local_state(rep, M, "R02.9", GC, generators_exempt=True)
    rep.floor("R02.1", 9)
    rep.floor("R02.2", 3)
    rep.floor("R02.3", 2)
    rep.floor("R02.4", 8)
    rep.floor("R02.5", 10)
    rep.floor("R02.6", 10)
    rep.floor("R02.7", 15)
    rep.floor("R02.8", 7)


META = {
    "level": "other",
    "text": "PARTIAL: decides only structural necessary conditions of the invariance and dimensionality clauses - image-range bookkeeping of the search "
            "inside a candidate cell (corners, floor image numbers, per-axis periodicity filter), index spaces of the periodic cell vectors (independence of "
            "which axis is the vacuum axis), totality of both prototype-cell builders, containment and wrapping of the working copy (translation / unwrapped "
            "input), species-strict matching and members = matched basis atoms, order and parameter forwarding of merge / localise / clean, cache coherence "
            "and first evaluation of Cluster.get_dimensionality, minimum-image tables, call-local state. Whether a concrete crystal is recognised as exactly "
            "one complete cluster (span selection, tolerances, adaptive tracking, noise up to 0.05 A) is floating-point behaviour and is NOT decided.",
    "note": "trusted: CPython ast; every rule is a rule of C01/C03/C04/C09/C10/C13/C16 run under this property's rule ids (DESIGN section 3, C02).",
    "technique": "borrowed index-space typing, image-range bookkeeping, must-pass-through and guard rules on the CFG, path classification of the matching loop",
}
