"""C04 - a cluster's prototype cell identifies the material it was cut from (structural clauses only).

Equality of material ids between the prototype cell and the source crystal composes numeric
averaging, span selection and spglib detection at a tolerance; that relation is NOT decided.
Decided are the mechanisms the statement anchors, each a necessary condition: the cell handed out
by Cluster.get_cell is the prototype cell the region search built (nobody rewrites it on the way),
its periodicity flags are literal (three directions for 3D, exactly two for 2D), the copies of a
basis atom are brought to one periodic image before they are combined and position / element lists
stay in step, a layered cell found as 3D is reduced with the two kept vectors plus the normal and
minimised along the last axis, and the id is the normal-form hash of the SymmetryAnalyzer.
"""
import ast

from .. import tableobl as TO
from ..dataflow import Flow
from ..effects import Effects
from ..model import norm
from ..report import AnalysisError
from . import c01, c20
from . import shared as _sh

PF = "matid.core.periodicfinder.PeriodicFinder"
LUC = "matid.core.linkedunits.LinkedUnitCollection"
CLUSTER = "matid.clustering.cluster.Cluster"
GEO = "matid.geometry.geometry"
SA = "matid.symmetry.symmetryanalyzer.SymmetryAnalyzer"


# ----------------------------------------------------------------------------- R04.1 provenance of the handed-out cell
def r04_1(rep, M, rid):
    # Cluster.get_cell
    fq = CLUSTER + ".get_cell"
    fn = M.func(fq)
    rets = [r for r in ast.walk(fn) if isinstance(r, ast.Return) and r.value is not None and not (isinstance(r.value, ast.Constant) and r.value.value is None)]
    texts = sorted(norm(r.value) for r in rets)
    if "self._region.cell" in texts and set(texts) <= {"self._region.cell", "self._cell"}:
        rep.ok(rid, f"Cluster.get_cell returns {texts}")
    else:
        rep.violation(rid, "Cluster.get_cell: returned object", f"returns {texts}; required the prototype cell of the cluster's region (`self._region.cell`)", M.where(fq))
    # LinkedUnitCollection stores the constructor argument
    init = M.func(LUC + ".__init__")
    st = [s for s in ast.walk(init) if isinstance(s, ast.Assign) and norm(s.targets[0]) == "self.cell"]
    if len(st) == 1 and norm(st[0].value) == "cell":
        rep.ok(rid, "LinkedUnitCollection.__init__ stores its `cell` argument unchanged")
    else:
        rep.violation(rid, "LinkedUnitCollection.__init__: cell", f"self.cell <- {[norm(s.value) for s in st]}; required the `cell` argument itself", M.where(LUC + ".__init__"))
    # who may write: no other store into `<collection>.cell`
    writers = []
    for q, d in M.functions().items():
        if q in (LUC + ".__init__", "matid.core.linkedunits.LinkedUnit.__init__", CLUSTER + ".__init__"):
            continue
        for s in ast.walk(d):
            if isinstance(s, (ast.Assign, ast.AugAssign)):
                for t in (s.targets if isinstance(s, ast.Assign) else [s.target]):
                    if isinstance(t, ast.Attribute) and t.attr in ("cell", "_cell") and isinstance(t.ctx, ast.Store):
                        recv = M.types_of(q, t.value) if hasattr(M, "types_of") else set()
                        if any(x.endswith("LinkedUnitCollection") or x.endswith(".Cluster") for x in (recv or ())) or norm(t.value) in ("region", "collection", "unit_collection", "cluster", "i_grain"):
                            writers.append((q, s))
    if writers:
        q, s = writers[0]
        rep.violation(rid, f"{q.replace('matid.', '')}: `{norm(s)[:60]}`", "rewrites the prototype cell of a region / cluster after it has been built", M.where(q, s))
    else:
        rep.ok(rid, "no function rewrites the cell of a region or cluster after construction")
    # the cell of a region's units may change while tracking, the collection keeps the prototype: get_region wiring
    gr = PF + ".get_region"
    fn = M.func(gr)
    fl = Flow(fn)
    pc = M.calls_to(gr, PF + "._find_proto_cell")
    fr = M.calls_to(gr, PF + "._find_periodic_region")
    if not pc or not fr:
        raise AnalysisError("get_region: _find_proto_cell / _find_periodic_region calls not found")
    unpack = [s for s in ast.walk(fn) if isinstance(s, ast.Assign) and s.value is pc[0] and isinstance(s.targets[0], ast.Tuple)]
    if not unpack:
        raise AnalysisError("get_region: result of _find_proto_cell is not unpacked")
    names = [norm(e) for e in unpack[0].targets[0].elts]
    b = M.bind_args(PF + "._find_periodic_region", fr[0])
    cell_arg, is2d = b.get("unit_cell"), b.get("is_2d")
    if cell_arg is not None and norm(cell_arg) == names[0] and len(fl.rd[fl.node_of(fr[0])].get(names[0], ())) == 1:
        rep.ok(rid, f"get_region tracks the region with the prototype cell `{names[0]}` returned by _find_proto_cell")
    else:
        rep.violation(rid, "get_region: cell given to the region tracking", f"`{norm(cell_arg) if cell_arg is not None else None}` is not (only) the prototype cell "
                      f"`{names[0]}` returned by _find_proto_cell", M.where(gr, fr[0]))
    if is2d is not None and isinstance(is2d, ast.Compare) and norm(is2d.left) == names[2] and isinstance(is2d.ops[0], ast.Eq) and norm(is2d.comparators[0]) == "2":
        rep.ok(rid, f"get_region: the region is two-dimensional exactly when `{names[2]} == 2`")
    else:
        rep.violation(rid, "get_region: is_2d of the region", f"`{norm(is2d) if is2d is not None else None}`; required `{names[2]} == 2` (the number of spans of the "
                      "prototype cell)", M.where(gr, fr[0]))
    frq = PF + "._find_periodic_region"
    cons = M.calls_to(frq, LUC + ".__init__")
    if cons and norm(M.bind_args(LUC + ".__init__", cons[0]).get("cell")) == "unit_cell":
        rep.ok(rid, "_find_periodic_region builds the collection with the prototype cell it was given")
    else:
        rep.violation(rid, "_find_periodic_region: cell of the collection", "the LinkedUnitCollection is not built with `unit_cell`", M.where(frq))


# ----------------------------------------------------------------------------- R04.3 combination of the copies of a basis atom
def r04_3(rep, M, rid):
    for name in ("_find_proto_cell_3d", "_find_proto_cell_2d"):
        fq = PF + "." + name
        fn = M.func(fq)
        fl = Flow(fn)
        res = lambda f, fq=fq: M.ext_name(fq, f)
        rints = [s for s in ast.walk(fn) if isinstance(s, ast.Assign) and isinstance(s.value, ast.Call) and res(s.value.func) in ("numpy.rint", "numpy.round", "numpy.around")]
        means = [c for c in ast.walk(fn) if isinstance(c, ast.Call) and res(c.func) in ("numpy.mean", "numpy.average", "numpy.median")
                 or (isinstance(c, ast.Call) and isinstance(c.func, ast.Attribute) and c.func.attr == "mean" and res(c.func) is None)]
        appends = [c for c in ast.walk(fn) if isinstance(c, ast.Call) and isinstance(c.func, ast.Attribute) and c.func.attr == "append"
                   and isinstance(c.func.value, ast.Name)]
        atoms = [c for c in ast.walk(fn) if isinstance(c, ast.Call) and (res(c.func) or "").endswith("Atoms")]
        if not atoms:
            raise AnalysisError(f"{name}: construction of the prototype cell (Atoms) not found")
        kw = {k.arg: k.value for k in atoms[0].keywords}
        pos_list = next((x.id for x in ast.walk(kw.get("scaled_positions", ast.Constant(None))) if isinstance(x, ast.Name)), None)
        num_list = next((x.id for x in ast.walk(kw.get("symbols", kw.get("numbers", ast.Constant(None)))) if isinstance(x, ast.Name)), None)
        if pos_list is None or num_list is None:
            raise AnalysisError(f"{name}: the prototype cell is not built from scaled_positions= / symbols= lists")
        # follow `x = np.array(x_list)`
        def origin(nm):
            for s in ast.walk(fn):
                if isinstance(s, ast.Assign) and norm(s.targets[0]) == nm and isinstance(s.value, ast.Call) and res(s.value.func) in ("numpy.array", "numpy.asarray") \
                        and s.value.args and isinstance(s.value.args[0], ast.Name):
                    return s.value.args[0].id
            return nm
        pos_list, num_list = origin(pos_list), origin(num_list)
        pa = [c for c in appends if c.func.value.id == pos_list]
        na = [c for c in appends if c.func.value.id == num_list]
        if not pa or not na:
            raise AnalysisError(f"{name}: appends to `{pos_list}` / `{num_list}` not found")
        # (c) lockstep: both appends under the same branch conditions, once each
        same = len(pa) == len(na) == 1 and [(id(t), p) for t, p in fl.cfg.branch_conditions(fl.node_of(pa[0]))] == [(id(t), p) for t, p in fl.cfg.branch_conditions(fl.node_of(na[0]))]
        if same:
            rep.ok(rid, f"{name}: position and element of a basis atom are appended together (`{pos_list}`, `{num_list}`)")
        else:
            rep.violation(rid, f"{name}: position / element lists", f"`{pos_list}` and `{num_list}` are not appended under the same conditions: positions and elements of the "
                          "prototype cell get out of step (an atom is listed with the element of another)", M.where(fq, pa[0]))
        # the reductions over the copies (norm / argmin / mean) need at least one copy: the guard must imply non-emptiness
        nonempty_guard(rep, M, rid, fq, name, fl, pa[0])
        # (a)+(b): the appended position combines copies that were first brought to one periodic image
        val = pa[0].args[0]
        sl = fl.slice(val, fl.node_of(pa[0]))
        rint_in = [s for s in rints if any(s.value is x for e in sl["exprs"] for x in ast.walk(e))]
        if not rint_in:
            rep.violation(rid, f"{name}: combination of the copies of a basis atom", f"`{norm(val)}` combines the relative positions found in different cells without first moving "
                          "them to one periodic image (integer shift np.rint(position - reference)): for a basis atom near a cell face the copies at x ~ 0 and x ~ 1 "
                          "average to the middle of the cell, i.e. the prototype cell shows an atom where the crystal has none", M.where(fq, pa[0]))
        else:
            r = rint_in[0]
            arg = r.value.args[0]
            # argument is a difference copies - reference, reference being one of the copies
            d = arg
            if isinstance(d, ast.Name):
                dd = [s.value for s in ast.walk(fn) if isinstance(s, ast.Assign) and norm(s.targets[0]) == d.id]
                cand = [x for x in dd if isinstance(x, ast.BinOp) and isinstance(x.op, ast.Sub)]
                d = cand[-1] if cand else d
            if isinstance(d, ast.BinOp) and isinstance(d.op, ast.Sub):
                ref = fl.slice(d.right, fl.node_of(r))
                from_copies = any(isinstance(x, ast.Subscript) for e in ref["exprs"] for x in ast.walk(e))
                shifted = [x for x in ast.walk(fn) if isinstance(x, ast.BinOp) and isinstance(x.op, ast.Sub)
                           and norm(x.right) == norm(r.targets[0]) and norm(x.left) == norm(d.left)]
                if from_copies and shifted:
                    rep.ok(rid, f"{name}: copies are shifted by rint(copy - reference copy) to one periodic image before they are combined")
                else:
                    rep.violation(rid, f"{name}: unwrapping of the copies", f"the integer shift `{norm(r)}` is not subtracted from the copies it was computed for "
                                  f"(reference taken from the copies: {from_copies}; `copies - shift` found: {bool(shifted)})", M.where(fq, r))
            else:
                raise AnalysisError(f"{name}: argument of `{norm(r)}` is not a difference to a reference copy")
        if not any(any(m is x for e in sl["exprs"] + [val] for x in ast.walk(e)) for m in means):
            raise AnalysisError(f"{name}: the appended position `{norm(val)}` is not a mean/median of the copies (combination not modelled)")
        m = next(m for m in means if any(m is x for e in sl["exprs"] + [val] for x in ast.walk(e)))
        ax = next((k.value for k in m.keywords if k.arg == "axis"), m.args[1] if len(m.args) > 1 else None)
        if ax is not None and isinstance(ax, ast.Constant) and ax.value == 0:
            rep.ok(rid, f"{name}: copies are combined component-wise over the copies (axis 0)")
        else:
            rep.violation(rid, f"{name}: `{norm(m)}`", "the copies are not combined per coordinate over the copies (axis=0): the result is not a position", M.where(fq, m))
        # (e) cell of the prototype
        spans = M.params(fq)[1]
        cell = kw.get("cell")
        csl = fl.slice(cell, fl.node_of(atoms[0])) if cell is not None else {"params": set()}
        if cell is not None and spans in csl["params"]:
            rep.ok(rid, f"{name}: the prototype cell is spanned by the selected spans (`{norm(cell)}` <- `{spans}`)")
        else:
            rep.violation(rid, f"{name}: cell of the prototype", f"`{norm(cell) if cell is not None else None}` does not derive from the selected spans `{spans}`", M.where(fq, atoms[0]))


def nonempty_guard(rep, M, rid, fq, name, fl, site):
    conds = [t for t, pol in fl.cfg.branch_conditions(fl.node_of(site)) if isinstance(t, ast.If) and pol is True]
    implied = False
    weak = None
    for t in conds:
        for c in ([t.test] if not (isinstance(t.test, ast.BoolOp) and isinstance(t.test.op, ast.And)) else t.test.values):
            if isinstance(c, ast.Name):
                implied = True
            if isinstance(c, ast.Compare) and len(c.ops) == 1 and isinstance(c.left, ast.Call) and isinstance(c.left.func, ast.Name) and c.left.func.id == "len":
                k = c.comparators[0]
                if isinstance(k, ast.Constant) and isinstance(k.value, (int, float)):
                    if (isinstance(c.ops[0], ast.NotEq) and k.value == 0) or (isinstance(c.ops[0], ast.Gt) and k.value >= 0) or (isinstance(c.ops[0], ast.GtE) and k.value >= 1):
                        implied = True
                else:
                    weak = c
    if implied:
        rep.ok(rid, f"{name}: the copies of a basis atom are combined only when at least one copy was found")
    elif weak is not None:
        rep.violation(rid, f"{name}: guard `{norm(weak)}` of the combination", f"`{norm(weak)}` compares the number of copies with a run-time quantity that can be 0 (when no "
                      "group has any copy - e.g. every atom lies outside the cell along a non-periodic direction - it reads `0 >= 0`), so an empty list reaches "
                      "np.linalg.norm(..., axis=1) / argmin: AxisError instead of 'no prototype cell'; the sibling builder tests `len(...) != 0`", M.where(fq, weak))
    else:
        raise AnalysisError(f"{name}: guard of the combination of copies not recognised")


def builders_total(rep, M, rid):
    """failure-freedom clauses of the prototype-cell search (used by C01 / C17: 'returns normally')"""
    # the candidates kept by the metric filter include the one with the maximal metric: `metric == max` (or `>=`), never `!=` / `<`
    nmax = 0
    for fqm in (PF + "._find_best_basis", PF + "._find_best_2d_basis"):
        fnm = M.func(fqm)
        maxes = {s2.targets[0].id for s2 in ast.walk(fnm) if isinstance(s2, ast.Assign) and isinstance(s2.targets[0], ast.Name) and isinstance(s2.value, ast.Call)
                 and isinstance(s2.value.func, ast.Attribute) and s2.value.func.attr == "max" and not s2.value.args}
        for c in [x for x in ast.walk(fnm) if isinstance(x, ast.Compare) and len(x.ops) == 1
                  and ((isinstance(x.comparators[0], ast.Name) and x.comparators[0].id in maxes) or (isinstance(x.left, ast.Name) and x.left.id in maxes))]:
            nmax += 1
            right = isinstance(c.comparators[0], ast.Name) and c.comparators[0].id in maxes
            if isinstance(c.ops[0], ast.Eq) or (isinstance(c.ops[0], ast.GtE) and right) or (isinstance(c.ops[0], ast.LtE) and not right):
                rep.ok(rid, f"{fqm.split('.')[-1]}: `{norm(c)}` keeps the candidates with the maximal metric")
            else:
                rep.violation(rid, f"{fqm.split('.')[-1]}: `{norm(c)}`", "the filter on the summed metric drops the candidates with the *maximal* metric and keeps the others: "
                              "the basis is chosen among span combinations that repeat less often than the best one (or among none)", M.where(fqm, c))
    if nmax < 2:
        raise AnalysisError(f"metric filters against the maximum recognised at {nmax} site(s); both basis searches have one")

    for name in ("_find_proto_cell_3d", "_find_proto_cell_2d"):
        fq = PF + "." + name
        fn = M.func(fq)
        fl = Flow(fn)
        atoms = [c for c in ast.walk(fn) if isinstance(c, ast.Call) and (M.ext_name(fq, c.func) or "").endswith("Atoms")]
        kw = {k.arg: k.value for k in atoms[0].keywords} if atoms else {}
        pos_list = next((x.id for x in ast.walk(kw.get("scaled_positions", ast.Constant(None))) if isinstance(x, ast.Name)), None)
        for s2 in ast.walk(fn):
            if isinstance(s2, ast.Assign) and pos_list and norm(s2.targets[0]) == pos_list and isinstance(s2.value, ast.Call) and s2.value.args and isinstance(s2.value.args[0], ast.Name):
                pos_list = s2.value.args[0].id
        pa = [c for c in ast.walk(fn) if isinstance(c, ast.Call) and isinstance(c.func, ast.Attribute) and c.func.attr == "append" and norm(c.func.value) == pos_list]
        if not pa:
            raise AnalysisError(f"{name}: append of the combined position not found")
        nonempty_guard(rep, M, rid, fq, name, fl, pa[0])
    # the smallest-cell filters keep the smallest cell itself for every tolerance >= 0 (siblings must agree on a non-strict comparison)
    n = 0
    for q, d in M.functions().items():
        if M.parent.get(q) != PF:
            continue
        for c in ast.walk(d):
            if isinstance(c, ast.Compare) and len(c.ops) == 1 and any(isinstance(x, ast.Attribute) and x.attr == "cell_size_tol" for x in ast.walk(c)):
                n += 1
                tol_right = any(isinstance(x, ast.Attribute) and x.attr == "cell_size_tol" for x in ast.walk(c.comparators[0]))
                nonstrict = isinstance(c.ops[0], ast.LtE) if tol_right else isinstance(c.ops[0], ast.GtE)
                if nonstrict:
                    rep.ok(rid, f"{d.name}: `{norm(c)[:70]}` keeps the smallest cell for every tolerance >= 0")
                else:
                    rep.violation(rid, f"{d.name}: `{norm(c)[:70]}`", "strict comparison with (1 + cell_size_tol) * smallest: for cell_size_tol = 0 not even the smallest cell "
                                  "passes, the candidate list is empty and np.argmax raises ValueError; the sibling filter uses <=", M.where(q, c))
    if n < 2:
        raise AnalysisError(f"only {n} smallest-cell filter(s) found in PeriodicFinder (2 siblings expected)")


def masked_index_spaces(rep, M, rid):
    """index-space typing in PeriodicFinder._find_proto_cell: the position of a vector inside `cell[pbc]` (the list of *periodic* cell vectors) is
    not a cell-axis number; it may only index arrays filtered by the same mask, never a full three-component array"""
    fq = PF + "._find_proto_cell"
    fn = M.func(fq)
    masked = {}     # name -> mask text
    for s2 in ast.walk(fn):
        if isinstance(s2, ast.Assign) and len(s2.targets) == 1 and isinstance(s2.targets[0], ast.Name) and isinstance(s2.value, ast.Subscript):
            sl0 = s2.value.slice
            if isinstance(sl0, (ast.Call, ast.Name)) and "pbc" in norm(sl0) and "get_cell" in norm(s2.value.value):
                masked[s2.targets[0].id] = norm(sl0)
    changed = True
    while changed:
        changed = False
        for s2 in ast.walk(fn):
            if isinstance(s2, ast.Assign) and len(s2.targets) == 1 and isinstance(s2.targets[0], ast.Name) and s2.targets[0].id not in masked:
                used = {x.id for x in ast.walk(s2.value) if isinstance(x, ast.Name)} & set(masked)
                elementwise = isinstance(s2.value, ast.Compare) or (isinstance(s2.value, ast.Call) and (M.ext_name(fq, s2.value.func) or "") in ("numpy.linalg.norm", "numpy.abs"))
                if used and elementwise:
                    masked[s2.targets[0].id] = masked[next(iter(used))]
                    changed = True
                    if isinstance(s2.value, ast.Call) and (M.ext_name(fq, s2.value.func) or "") == "numpy.linalg.norm":
                        ax = next((k.value for k in s2.value.keywords if k.arg == "axis"), None)
                        if not (isinstance(ax, ast.Constant) and ax.value in (1, -1)):
                            rep.violation(rid, f"_find_proto_cell: `{norm(s2)[:60]}`", "the length of each periodic cell vector is a norm over axis 1 of the (vectors x 3) array; "
                                          "over another axis the result has one entry per Cartesian component, and the filter built from it no longer lines up with the vectors",
                                          M.where(fq, s2))
    full = {norm(s2.targets[0]) for s2 in ast.walk(fn) if isinstance(s2, ast.Assign) and isinstance(s2.value, ast.Call)
            and (M.ext_name(fq, s2.value.func) or "") in ("numpy.array", "numpy.zeros", "numpy.ones") and s2.value.args
            and ((isinstance(s2.value.args[0], (ast.Tuple, ast.List)) and len(s2.value.args[0].elts) == 3) or (isinstance(s2.value.args[0], ast.Constant) and s2.value.args[0].value == 3))}
    # maps from the position among the periodic vectors to the cell-axis number: np.where(pbc)[0] and the like
    axis_maps = {norm(s2.targets[0]) for s2 in ast.walk(fn) if isinstance(s2, ast.Assign) and len(s2.targets) == 1 and isinstance(s2.targets[0], ast.Name)
                 and any(isinstance(c, ast.Call) and (M.ext_name(fq, c.func) or "") in ("numpy.where", "numpy.nonzero", "numpy.flatnonzero", "numpy.argwhere")
                         and c.args and "pbc" in norm(c.args[0]) for c in ast.walk(s2.value))}
    # second index space of the function: the *valid* spans (np.where filter) - the chosen basis indexes that filtered list, so counts compared
    # with it must be counts of the filtered list, not of the full list of possible spans
    wh = [s2 for s2 in ast.walk(fn) if isinstance(s2, ast.Assign) and isinstance(s2.targets[0], ast.Name) and isinstance(s2.value, ast.Subscript)
          and isinstance(s2.value.value, ast.Call) and (M.ext_name(fq, s2.value.value.func) or "") in ("numpy.where", "numpy.nonzero", "numpy.flatnonzero")]
    retn = [r for r in fn.body if isinstance(r, ast.Return) and isinstance(r.value, ast.Tuple) and len(r.value.elts) == 4]
    if wh and retn and isinstance(retn[-1].value.elts[3], ast.Name):
        W = None
        for w0 in wh:
            if any(isinstance(x, ast.Subscript) and norm(x.slice) == w0.targets[0].id for x in ast.walk(fn)):
                W = w0.targets[0].id
        if W is None:
            raise AnalysisError("_find_proto_cell: the filter of the valid spans (np.where(...)[0] used as an index) was not found")
        unfiltered = {norm(x.value) for x in ast.walk(fn) if isinstance(x, ast.Subscript) and norm(x.slice) == W}
        nsel = retn[-1].value.elts[3].id
        flp = Flow(fn)
        d0 = [s2 for s2 in ast.walk(fn) if isinstance(s2, ast.Assign) and norm(s2.targets[0]) == nsel and not isinstance(s2.value, ast.Constant)]
        if not d0:
            raise AnalysisError(f"_find_proto_cell: definition of `{nsel}` (periodic spans selected) not found")
        # counts only: follow names whose definition is itself a count (len / range / arithmetic / comparison), never into the arrays
        sdefs = {}
        for s2 in ast.walk(fn):
            if isinstance(s2, ast.Assign) and len(s2.targets) == 1 and isinstance(s2.targets[0], ast.Name):
                sdefs.setdefault(s2.targets[0].id, []).append(s2.value)
        seen, todo, lens = set(), [d0[-1].value], []
        while todo:
            e = todo.pop()
            for x in ast.walk(e):
                if isinstance(x, ast.Call) and isinstance(x.func, ast.Name) and x.func.id == "len" and x.args:
                    lens.append(x)
                if isinstance(x, ast.Name) and x.id not in seen:
                    seen.add(x.id)
                    for v in sdefs.get(x.id, []):
                        countlike = isinstance(v, (ast.BinOp, ast.Compare, ast.Constant)) or (isinstance(v, ast.Call) and isinstance(v.func, ast.Name)
                                                                                                 and v.func.id in ("len", "range", "int", "sum", "min", "max"))
                        if countlike:
                            todo.append(v)
        # the size guard for cells made of simulation-cell vectors applies when *both* chosen spans are periodic cell vectors: `<count> == 2`
        sz = [t for t in ast.walk(fn) if isinstance(t, ast.If) and any(isinstance(x, ast.Attribute) and x.attr == "max_2d_single_cell_size" for x in ast.walk(t.test))]
        for t in sz:
            members = []
            for c, pol in flp.cfg.branch_conditions(flp.node_of(t)):
                tt = getattr(c, "test", None)
                if pol and isinstance(tt, ast.BoolOp) and isinstance(tt.op, ast.And):      # nested ifs are read as a conjunction by the model
                    members += [(m, True, c) for m in tt.values]
                elif tt is not None:
                    members.append((tt, pol, c))
            conds = [(m, pol, c) for m, pol, c in members if isinstance(m, ast.Compare) and isinstance(m.left, ast.Name) and m.left.id == nsel
                     and isinstance(m.comparators[0], ast.Constant) and m.comparators[0].value == 2]
            if not conds:
                continue
            m, pol, c = conds[-1]
            if (isinstance(m.ops[0], ast.Eq) and pol) or (isinstance(m.ops[0], ast.NotEq) and not pol):
                rep.ok(rid, f"_find_proto_cell: the size guard of cells made of simulation-cell vectors runs under `{norm(m)}`")
            else:
                rep.violation(rid, f"_find_proto_cell: `{norm(m)}`", "the size guard for 2D cells made of simulation-cell vectors runs when the chosen spans are *not* both "
                              "cell vectors, and is skipped when they are: a slab with its adsorbates is accepted as one 2D unit cell", M.where(fq, c))
        bad = [c for c in lens if norm(c.args[0]) in unfiltered]
        good = [c for c in lens if norm(c.args[0]) == W]
        if bad:
            rep.violation(rid, f"_find_proto_cell: `{nsel}`", f"the number of periodic spans among the chosen basis is computed from `{norm(bad[0])}`, the length of the *unfiltered* span "
                          f"list, while the chosen basis indexes the list filtered by `{W}`: as soon as one neighbour span is filtered out the count is too low, the guard on the size "
                          "of cells made of simulation-cell vectors is skipped and a whole slab with its adsorbates is accepted as one 2D cell", M.where(fq, bad[0]))
        elif good:
            rep.ok(rid, f"_find_proto_cell: `{nsel}` counts positions of the filtered span list (`len({W})`), the list the chosen basis indexes")
        else:
            raise AnalysisError(f"_find_proto_cell: `{nsel}` is not computed from the number of valid spans")
    if not masked:
        raise AnalysisError("_find_proto_cell: list of periodic cell vectors (`cell[pbc]`) not found")
    n = 0
    for lp in ast.walk(fn):
        if not (isinstance(lp, ast.For) and isinstance(lp.iter, ast.Call) and isinstance(lp.iter.func, ast.Name) and lp.iter.func.id == "enumerate"
                and lp.iter.args and isinstance(lp.iter.args[0], ast.Name) and lp.iter.args[0].id in masked and isinstance(lp.target, ast.Tuple)):
            continue
        ivar = norm(lp.target.elts[0])
        for x in ast.walk(lp):
            # the converse confusion: a cell-axis number (counter translated through np.where(pbc)[0]) indexing an array over the periodic vectors
            if isinstance(x, ast.Subscript) and isinstance(x.value, ast.Name) and x.value.id in masked and isinstance(x.slice, ast.Subscript) \
                    and isinstance(x.slice.value, ast.Name) and x.slice.value.id in axis_maps and norm(x.slice.slice) == ivar:
                n += 1
                rep.violation(rid, f"_find_proto_cell: `{norm(x)}`", f"`{norm(x.slice)}` is a cell-axis number (0..2) but indexes `{x.value.id}`, which has one entry per *periodic* "
                              f"cell vector (cell[{masked[x.value.id]}]): with two periodic directions and the vacuum along a or b the index is out of range (IndexError escapes "
                              "from get_clusters / classify), with one it reads the entry of another vector", M.where(fq, x))
            if isinstance(x, ast.Subscript) and norm(x.slice) == ivar and isinstance(x.value, ast.Name):
                n += 1
                if x.value.id in masked:
                    rep.ok(rid, f"_find_proto_cell: `{norm(x)}` - position among the periodic vectors indexes an array over the periodic vectors")
                elif x.value.id in axis_maps:
                    rep.ok(rid, f"_find_proto_cell: `{norm(x)}` translates the position among the periodic vectors into the cell-axis number")
                elif x.value.id in full:
                    rep.violation(rid, f"_find_proto_cell: `{norm(x)}`", f"`{ivar}` counts the *periodic* cell vectors (`{lp.iter.args[0].id}` = cell[{masked[lp.iter.args[0].id]}]) but "
                                  f"indexes the three-component array `{x.value.id}` as if it were the cell-axis number: with pbc = [False, True, True] the first periodic "
                                  "vector is axis 1 but gets the factor (1, 0, 0), the adjacency of the periodic spans points to the wrong images and the region search finds nothing "
                                  "(a primitive-cell monolayer whose vacuum axis is a or b gets no cluster)", M.where(fq, x))
                else:
                    raise AnalysisError(f"_find_proto_cell: index space of `{x.value.id}` in `{norm(x)}` not known")
    if n < 1:
        raise AnalysisError("_find_proto_cell: no use of the periodic-vector counter found")


def within_basis(rep, M, rid):
    """index bookkeeping of get_positions_within_basis (the search for the atoms inside a candidate cell, used for every prototype cell
    and every unit of a region): the image range along each cell axis must cover all corners of the searched cell"""
    fq = GEO + ".get_positions_within_basis"
    fn = M.func(fq)
    ps = M.params(fq)
    basis, origin = ps[1], ps[2]
    # (1) the corners: origin + every non-empty subset of {basis[0], basis[1], basis[2]}, each exactly once
    corners = {}
    # a corner is either a named local or an element written directly inside the collection literal the corners are gathered in
    cands = [(s2.targets[0].id, s2.value, s2) for s2 in ast.walk(fn) if isinstance(s2, ast.Assign) and len(s2.targets) == 1 and isinstance(s2.targets[0], ast.Name)]
    for lit in [x for x in ast.walk(fn) if isinstance(x, (ast.Tuple, ast.List)) and isinstance(x.ctx, ast.Load) and len(x.elts) >= 6]:
        cands += [(f"<element {k}>", e, e) for k, e in enumerate(lit.elts) if not isinstance(e, ast.Name)]
    for cname, cval, s2 in cands:
        if True:
            terms = []
            stack = [cval]
            okexpr = True
            while stack:
                e = stack.pop()
                if isinstance(e, ast.BinOp) and isinstance(e.op, ast.Add):
                    stack += [e.left, e.right]
                else:
                    terms.append(e)
            idx = []
            has_origin = False
            for t in terms:
                if isinstance(t, ast.Name) and t.id == origin:
                    has_origin = True
                elif isinstance(t, ast.Subscript) and norm(t.value) == basis and isinstance(t.slice, ast.Tuple) and isinstance(t.slice.elts[0], ast.Constant):
                    idx.append(t.slice.elts[0].value)
                elif isinstance(t, ast.Subscript) and norm(t.value) == basis and isinstance(t.slice, ast.Constant):
                    idx.append(t.slice.value)
                else:
                    okexpr = False
            if okexpr and has_origin and idx:
                corners[cname] = (tuple(sorted(idx)), s2)
    if len(corners) < 6:
        raise AnalysisError(f"get_positions_within_basis: corner vectors of the searched cell not recognised ({len(corners)} found)")
    want = {(0,), (1,), (2,), (0, 1), (0, 2), (1, 2), (0, 1, 2)}
    got = [v[0] for v in corners.values()]
    dup = sorted({g for g in got if got.count(g) > 1})
    missing = sorted(want - set(got))
    if not dup and not missing:
        rep.ok(rid, "get_positions_within_basis: the seven corners origin + (subset of the basis vectors) are each listed once")
    else:
        first = next(v[1] for k, v in corners.items() if v[0] in dup) if dup else fn
        names = [k for k, v in corners.items() if v[0] in dup]
        rep.violation(rid, "get_positions_within_basis: corners of the searched cell", f"corner(s) {['+'.join('abc'[i] for i in m) for m in missing]} missing, "
                      f"{['+'.join('abc'[i] for i in d) for d in dup]} listed twice (`{'`, `'.join(names)}`): the image range along an axis is computed without the corner "
                      "origin + c, so when only that corner reaches into the neighbouring image (seed half-way up a cell that is one unit cell thick along c) the periodic copies "
                      "there are never searched and no region is found from that seed", M.where(fq, first))
    # (2) the ranges: range(min[k], max[k] + 1) with one k per range, k = 0, 1, 2 in this order
    rngs = []
    for s2 in ast.walk(fn):
        if isinstance(s2, ast.Assign) and isinstance(s2.value, ast.Call) and isinstance(s2.value.func, ast.Name) and s2.value.func.id == "range" and len(s2.value.args) == 2:
            lo, hi = s2.value.args
            ki = [x.slice.value for x in ast.walk(lo) if isinstance(x, ast.Subscript) and isinstance(x.slice, ast.Constant)]
            kj = [x.slice.value for x in ast.walk(hi) if isinstance(x, ast.Subscript) and isinstance(x.slice, ast.Constant)]
            plus1 = isinstance(hi, ast.BinOp) and isinstance(hi.op, ast.Add) and isinstance(hi.right, ast.Constant) and hi.right.value == 1
            rngs.append((norm(s2.targets[0]), ki, kj, plus1, s2))
    if len(rngs) != 3:
        raise AnalysisError(f"get_positions_within_basis: the three image ranges were not recognised ({len(rngs)})")
    rngs.sort(key=lambda r: r[4].lineno)
    for want_k, (nm, ki, kj, plus1, node) in enumerate(rngs):
        if ki == [want_k] and kj == [want_k] and plus1:
            rep.ok(rid, f"get_positions_within_basis: `{norm(node)}` covers the images of axis {want_k}")
        else:
            rep.violation(rid, f"get_positions_within_basis: `{norm(node)}`", f"the image range of axis {want_k} runs from component {ki} of the minimum to component {kj} of the "
                          f"maximum{'' if plus1 else ' (upper end not included)'}: periodic copies along that axis are missed or the range is empty, so atoms near a cell face fail "
                          "as seeds and whole slabs are dropped", M.where(fq, node))
    # (2b) the bounds are image numbers = floor of the (unwrapped, possibly negative) scaled corner coordinates; a bare integer cast truncates
    #      towards zero and loses the lowest image
    fl = Flow(fn)
    for nm, ki, kj, plus1, node in rngs:
        sl = fl.slice(node.value.args[0], fl.node_of(node))
        calls = [c for e in sl["exprs"] for c in ast.walk(e) if isinstance(c, ast.Call)]
        floors = [c for c in calls if (M.ext_name(fq, c.func) or "") in ("numpy.floor", "math.floor", "numpy.floor_divide")] + \
                 [x for e in sl["exprs"] for x in ast.walk(e) if isinstance(x, ast.BinOp) and isinstance(x.op, ast.FloorDiv)]
        casts = [c for c in calls if (isinstance(c.func, ast.Attribute) and c.func.attr == "astype") or (isinstance(c.func, ast.Name) and c.func.id == "int")
                 or (M.ext_name(fq, c.func) or "") in ("numpy.trunc", "numpy.rint", "numpy.round", "numpy.around", "numpy.fix")]
        scaled = any(GEO + ".to_scaled" in M.callees_of_call(fq, c) for c in calls)
        if not scaled:
            raise AnalysisError(f"get_positions_within_basis: the bound of `{nm}` is not derived from scaled corner coordinates")
        if floors:
            rep.ok(rid, f"get_positions_within_basis: the lower bound of `{nm}` is a floor of the scaled corner coordinates")
        else:
            rep.violation(rid, f"get_positions_within_basis: image numbers of `{nm}`", f"the scaled corner coordinates become image numbers through "
                          f"`{norm(casts[0])[:50] if casts else 'no rounding'}` without a floor: a cast truncates towards zero, so a corner at -0.3 is put into image 0 "
                          "instead of -1 and the periodic copies in the lowest image are never searched (atoms near the lower cell faces lose their occurrences)",
                          M.where(fq, casts[0] if casts else node))
    cart = [c for c in ast.walk(fn) if isinstance(c, ast.Call) and norm(c.func).endswith("cartesian") and c.args and isinstance(c.args[0], (ast.Tuple, ast.List))]
    if cart and [norm(e) for e in cart[0].args[0].elts] == [r[0] for r in rngs]:
        rep.ok(rid, "get_positions_within_basis: the image offsets are the product of the three ranges in axis order")
    else:
        rep.violation(rid, "get_positions_within_basis: product of the ranges", "the ranges are not combined in axis order (a, b, c)", M.where(fq, cart[0] if cart else fn))
    # (3) offsets along non-periodic axes are dropped: per axis `factor[k] != 0 and not pbc[k]`
    tests = [t for t in ast.walk(fn) if isinstance(t, ast.If) and isinstance(t.test, ast.BoolOp) and isinstance(t.test.op, ast.And)
             and any(isinstance(v, ast.UnaryOp) and isinstance(v.op, ast.Not) and "pbc" in norm(v) for v in t.test.values)]
    ks = []
    for t in tests:
        pk = [x.slice.value for v in t.test.values for x in ast.walk(v) if isinstance(x, ast.Subscript) and isinstance(x.slice, ast.Constant) and "pbc" in norm(x.value)]
        ks += pk
    if sorted(ks) == [0, 1, 2]:
        rep.ok(rid, "get_positions_within_basis: image offsets are only allowed along periodic axes (one test per axis)")
    else:
        rep.violation(rid, "get_positions_within_basis: periodicity filter", f"the per-axis tests cover pbc components {sorted(ks)}; required 0, 1 and 2 once each", M.where(fq))


# ----------------------------------------------------------------------------- R04.4 reduction of a layered 3D cell
def r04_4(rep, M, rid):
    fq = PF + "._find_proto_cell"
    fn = M.func(fq)
    fl = Flow(fn)
    cc = M.calls_to(fq, GEO + ".complete_cell")
    mins = M.calls_to(fq, GEO + ".get_minimized_cell")
    if not cc or not mins:
        raise AnalysisError("_find_proto_cell: complete_cell / get_minimized_cell calls not found")
    # the kept vectors are those != reduced dimension, the normal is appended last
    loop = [lp for lp in ast.walk(fn) if isinstance(lp, ast.For) and any(isinstance(t, ast.If) and isinstance(t.test, ast.Compare) and isinstance(t.test.ops[0], ast.NotEq)
            for t in lp.body)]
    red = None
    for lp in loop:
        t = next(t for t in lp.body if isinstance(t, ast.If) and isinstance(t.test, ast.Compare) and isinstance(t.test.ops[0], ast.NotEq))
        other = t.test.comparators[0] if norm(t.test.left) == norm(lp.target) else t.test.left
        sl = fl.slice(other, fl.node_of(t))
        if any(isinstance(c, ast.Call) and M.ext_name(fq, c.func) == "numpy.argmin" for e in sl["exprs"] for c in ast.walk(e)) and \
                any(isinstance(c, ast.Call) and GEO + ".get_thickness" in M.callees_of_call(fq, c) for e in sl["exprs"] for c in ast.walk(e)):
            red = norm(other)
    kept = [lp for lp in loop if any(isinstance(c, ast.Call) and isinstance(c.func, ast.Attribute) and c.func.attr == "append" and c.args
                                     and isinstance(c.args[0], ast.Subscript) and norm(lp.target) in norm(c.args[0].slice) for c in ast.walk(lp))]
    if red and not kept:
        rep.violation(rid, "_find_proto_cell: vectors kept by the reduction", "the two cell vectors other than the reduced one are not carried over into the new basis: the "
                      "2D cell is built from the normal alone", M.where(fq, cc[0]))
    if red:
        rep.ok(rid, f"_find_proto_cell: the reduced direction `{red}` is the thinnest one (argmin of get_thickness); the other two vectors are kept")
    else:
        rep.violation(rid, "_find_proto_cell: choice of the reduced direction", "the basis vector dropped from a layered 3D cell is not the argmin of the thicknesses",
                      M.where(fq, cc[0]))
    a = cc[0].args
    if len(a) >= 2 and norm(a[0]) != norm(a[1]) and all(isinstance(x, ast.Subscript) for x in a[:2]) and norm(a[0].value) == norm(a[1].value):
        rep.ok(rid, f"_find_proto_cell: the new third vector is complete_cell({norm(a[0])}, {norm(a[1])}, ...) of the two kept vectors")
    else:
        rep.violation(rid, "_find_proto_cell: new third vector", f"`{norm(cc[0])[:70]}` is not the normal of the two kept vectors", M.where(fq, cc[0]))
    pb = [c for c in ast.walk(fn) if isinstance(c, ast.Call) and isinstance(c.func, ast.Attribute) and c.func.attr == "set_pbc"]
    lit = [c01.bool_literal(c.args[0]) if c.args else None for c in pb]
    if pb and all(v == [True, True, False] for v in lit):
        rep.ok(rid, "_find_proto_cell: the reduced cell is periodic in (a, b) only")
    else:
        rep.violation(rid, "_find_proto_cell: periodicity of the reduced cell", f"set_pbc({lit}); required [True, True, False] (non-periodic vector last)", M.where(fq, pb[0] if pb else cc[0]))
    # the number of spans reported for a reduced cell is 2 (it decides is_2d of the region, hence Material2D vs Surface)
    rets = [r for r in fn.body if isinstance(r, ast.Return) and isinstance(r.value, ast.Tuple) and len(r.value.elts) == 4]
    if not rets or not isinstance(rets[-1].value.elts[2], ast.Name):
        raise AnalysisError("_find_proto_cell: final `return proto_cell, offset, <spans>, <periodic spans>` not recognised")
    nvar = rets[-1].value.elts[2].id
    branch = None
    for t in ast.walk(fn):
        if isinstance(t, ast.If) and any(c2 is pb[0] for s2 in t.body for c2 in ast.walk(s2)) if pb else False:
            branch = t          # innermost If whose body holds the set_pbc([True, True, False]) of the reduction (walk order: outer first)
    if branch is None:
        raise AnalysisError("_find_proto_cell: branch of the 3D -> 2D reduction not found")
    # the reduction is attempted for cells whose own dimensionality is 2 (stacked sheets), nothing else
    bt = branch.test
    if isinstance(bt, ast.Compare) and len(bt.ops) == 1 and isinstance(bt.comparators[0], ast.Constant) and bt.comparators[0].value == 2:
        if isinstance(bt.ops[0], ast.Eq):
            rep.ok(rid, f"_find_proto_cell: the 3D -> 2D reduction runs under `{norm(bt)}`")
        else:
            rep.violation(rid, f"_find_proto_cell: `{norm(bt)}`", "the reduction to a 2D cell runs for every dimensionality *except* 2: chains and finite fragments are turned "
                          "into 2D cells while stacked sheets are rejected", M.where(fq, branch))
    upd = [s2 for s2 in ast.walk(branch) if isinstance(s2, ast.Assign) and norm(s2.targets[0]) == nvar]
    two = [s2 for s2 in upd if (isinstance(s2.value, ast.Constant) and s2.value.value == 2)
           or (isinstance(s2.value, ast.Call) and isinstance(s2.value.func, ast.Name) and s2.value.func.id == "len")]
    if two:
        rep.ok(rid, f"_find_proto_cell: a reduced cell is reported with `{norm(two[0])}` spans")
    else:
        rep.violation(rid, "_find_proto_cell: number of spans of a reduced cell", f"`{nvar}` (returned as the number of spans) is not updated in the branch that reduces a "
                      "layered 3D cell to two dimensions: the cell is periodic in (a, b) only but is reported with three spans, the region is built with is_2d=False and a "
                      "monolayer is classified as Surface instead of Material2D", M.where(fq, branch))
    # a reduced cell goes through the checks of two-span cells (size guard for cells made of simulation-cell vectors, dimensionality of the cell):
    # the flag that guards that block is raised in the reduction branch
    guard2d = [t for t in ast.walk(fn) if isinstance(t, ast.If) and isinstance(t.test, ast.Name)
               and any(isinstance(x, ast.Attribute) and x.attr == "max_2d_single_cell_size" for x in ast.walk(t))]
    if not guard2d:
        raise AnalysisError("_find_proto_cell: the block of checks for two-span cells (guarded by a flag, containing the max_2d_single_cell_size test) was not found")
    flag = guard2d[0].test.id
    raised = [s2 for s2 in ast.walk(branch) if isinstance(s2, ast.Assign) and norm(s2.targets[0]) == flag]
    if raised and all(isinstance(s2.value, ast.Constant) and s2.value.value is True for s2 in raised):
        rep.ok(rid, f"_find_proto_cell: a reduced cell raises `{flag}` and goes through the checks of two-span cells")
    else:
        rep.violation(rid, f"_find_proto_cell: `{flag}` in the reduction branch", f"a layered 3D cell reduced to two dimensions does not set `{flag}` to True "
                      f"({[norm(s2) for s2 in raised] or 'not assigned'}): it skips the size guard and the dimensionality / stacked-sheet handling of two-span cells and is returned "
                      "unchecked (or with atoms of several sheets)", M.where(fq, branch))
    for c in mins:
        b = M.bind_args(GEO + ".get_minimized_cell", c)
        ax = b.get("axis")
        if isinstance(ax, ast.Constant) and ax.value == 2:
            rep.ok(rid, f"_find_proto_cell: `{norm(c)[:60]}` minimises the non-periodic (last) axis")
        else:
            rep.violation(rid, f"_find_proto_cell: `{norm(c)[:60]}`", f"minimises axis `{norm(ax) if ax is not None else None}`; the non-periodic vector is the last one (2)", M.where(fq, c))
        tgt = [s for s in ast.walk(fn) if isinstance(s, ast.Assign) and s.value is c]
        if tgt and isinstance(b.get("system"), ast.Name) and norm(tgt[0].targets[0]) == b["system"].id:
            rep.ok(rid, "_find_proto_cell: the minimised cell replaces the prototype cell")
        else:
            rep.violation(rid, f"_find_proto_cell: result of `{norm(c)[:50]}`", "the minimised cell is computed but the prototype cell keeps its vacuum", M.where(fq, c))


def r04_flag(rep, M, rid):
    fn = M.func(SA + ".get_material_id")
    flag = [t for t in ast.walk(fn) if isinstance(t, ast.If) and "n_pbc" in norm(t.test) and "2" in norm(t.test) and any("2D" in norm(s) for s in t.body)]
    if flag:
        rep.ok(rid, "get_material_id prefixes '2D' exactly under n_pbc == 2")
    else:
        rep.violation(rid, "get_material_id: 2D prefix", "the id of a monolayer equals the id of the same cell treated as a 3D crystal", M.where(SA + ".get_material_id"))


def run(rep, ctx):
    M = ctx.model
    E = Effects(M)
    rep.explanation = ("provenance chain of the cell handed out by Cluster.get_cell, literal periodicity flags, shape of the combination of the copies "
                       "of a basis atom in both prototype-cell builders, reduction of layered 3D cells, and the normal-form machinery of the analyzer the id comes from")
    rep.assumptions = ["which spans are selected, which atoms are found in which cell and what spglib detects at a tolerance are run-time quantities and are not decided",
                       "the decided clauses are necessary, not sufficient, for the statement"]
    rep.rule("R04.1", "Cluster.get_cell hands out the prototype cell built by the region search; nobody rewrites it; the region is 2D exactly when the cell has two spans")
    with rep.guard("R04.1"):
        r04_1(rep, M, "R04.1")
        merged_region_is_larger(rep, M, "R04.1")
        from .. import sigs as _sigs
        _sigs.run(rep, M, "R04.1", scope={q for q in M.reachable([c01.GC]) if q.startswith(("matid.core.", "matid.clustering."))})
        from . import c03 as _c03m
        _c03m.merged_not_kept_twice(rep, M, "R04.1")
    rep.rule("R04.2", "prototype cells are periodic in three directions (3D builder) or exactly (a, b) (2D builder, reduced cells) (shared with C01)")
    with rep.guard("R04.2"):
        c01.r01_5(rep, M, "R04.2")
    rep.rule("R04.3", "copies of a basis atom are moved to one periodic image before they are combined; position and element lists stay in step; the cell is spanned by the selected spans")
    with rep.guard("R04.3"):
        r04_3(rep, M, "R04.3")
        factors_times_cell(rep, M, "R04.3")
        both_directions_alike(rep, M, "R04.3")
        image_labels_add(rep, M, "R04.3")
        span_through_minus_neighbour(rep, M, "R04.3")
        correction_orientation(rep, M, "R04.3")
        builders_pick_alike(rep, M, "R04.3")
        per_copy_distance(rep, M, "R04.3")
        span_2d_form(rep, M, "R04.3")
    rep.rule("R04.4", "a layered cell found as 3D keeps its two thick vectors, gets the normal as third, is periodic in (a, b) and is minimised along the last axis")
    with rep.guard("R04.4"):
        r04_4(rep, M, "R04.4")
    rep.rule("R04.5", "complete_cell / get_minimized_cell keep atoms and displacements (shared with C20)")
    with rep.guard("R04.5"):
        from ..report import Filtered
        cell_only = Filtered(rep, lambda construct: "complete_cell" in construct or "minimized" in construct or "get_minimized_cell" in construct)
        c20.r20_6(cell_only, M, "R04.5")
        c20.r20_4(cell_only, M, E, "R04.5")
        c20.r20_7(cell_only, M, "R04.5")
        c20.r20_units(cell_only, M, "R04.5")
    rep.rule("R04.6", "the id is the hash of normal-form data (number, letters, species, multiplicities, 2D flag) produced by the order-stable ranking (shared with C06/C07/C11)")
    with rep.guard("R04.6"):
        _sh.normal_form(rep, M, "R04.6")
        r04_flag(rep, M, "R04.6")
        from . import c11 as _c11i
        _c11i.id_without_parameters(rep, M, "R04.6")
    rep.rule("R04.14", "a monolayer's prototype cell goes through the 2D branch of the conventional cell: the non-periodic axis is located by magnitude, with a "
                       "tolerance, in the rows of spglib's transformation matrix, whatever the orientation of the cell's basis (shared with C11)")
    with rep.guard("R04.14"):
        from . import c11 as _c11
        from ..report import Filtered as _Fl
        # only what can make the analysis of a prototype cell fail or change its id: how the non-periodic axis is located. Centring, wrapping and the
        # thickness of the conventional cell move atoms, which the id, the space group and the Wyckoff occupation do not see (they are C11's)
        _axis = _Fl(rep, lambda c: "axis" in c)
        _obj, _br = _c11.r11_1(_Fl(rep, lambda c: False), M, "R04.14")
        if _obj is not None:
            _c11.r11_2(_axis, M, "R04.14", _obj, _br)
    rep.floor("R04.14", 2)
    rep.rule("R04.7", "every tabulated letter permutation is the bijection its normalizer induces (the same material described from another origin gets the same letters)")
    TO.norm_perm(rep, ctx.tables, "R04.7")
    rep.rule("R04.9", "the structure is searched on a working copy whose atoms are inside the cell: atoms outside along a non-periodic axis always trigger "
             "enlargement and centring, periodic axes are wrapped (a monolayer stored outside its cell still gets a region and hence a prototype cell; shared with C01)")
    with rep.guard("R04.9"):
        axis_index_typing(rep, M, "R04.9", c01.GC)
        c01.r01_14(rep, M, "R04.9")
        c01.r01_13(rep, M, "R04.9")
    rep.rule("R04.10", "the counter of the periodic cell vectors is not used as a cell-axis number (monolayers are found whichever axis is the vacuum axis)")
    with rep.guard("R04.10"):
        masked_index_spaces(rep, M, "R04.10")
    rep.rule("R04.11", "the search for the atoms inside a candidate cell covers every periodic image the cell reaches into (corner and range bookkeeping of get_positions_within_basis)")
    with rep.guard("R04.11"):
        within_basis(rep, M, "R04.11")
    rep.rule("R04.12", "get_clusters derives everything it uses from this call's arguments: no finder, cell list or table is carried over from a previous call (shared with C01)")
    with rep.guard("R04.12"):
        c01.call_local_state(rep, M, "R04.12", c01.GC, generators_exempt=True)
    rep.rule("R04.13", "no function keeps results in module-level state or functools caches (answers do not depend on what the process analysed before)")
    with rep.guard("R04.13"):
        from .. import symrules as _SRms
        _SRms.module_state(rep, ctx.model, "R04.13", tuple(sorted(set(_SRms.GEOMETRY_SIDE) | set(_SRms.SYMMETRY_SIDE))))
    rep.floor("R04.1", 6)
    rep.floor("R04.2", 6)
    rep.floor("R04.3", 8)
    rep.floor("R04.4", 5)
    rep.floor("R04.5", 6)
    rep.floor("R04.6", 10)
    rep.floor("R04.7", 6000)


META = {
    "level": "other",
    "text": "PARTIAL: decides only the structural mechanisms the statement anchors, each a necessary condition - provenance of the cell handed out by "
            "Cluster.get_cell (prototype cell of _find_proto_cell -> region tracking -> LinkedUnitCollection.cell, no other writer), literal periodicity flags "
            "of the prototype cells, unwrap-before-combine and lockstep of positions / elements in both prototype-cell builders, reduction and minimisation of "
            "layered 3D cells (with the C20 helper rules), and the normal-form id machinery (C06/C07/C11 rules, normalizer permutations). Round-trip equality of "
            "ids / space groups / Wyckoff occupation with the source crystal composes numeric averaging, span selection and spglib detection at a tolerance and is "
            "NOT decided.",
    "note": "trusted: CPython ast; spglib Hall database for the normalizer obligations; shared rules are the same code run under this property's rule ids.",
    "technique": "provenance (def-use) chain + who-may-write + idiom-shape rules for the averaging code + shared helper / table obligations",
}


# ----------------------------------------------------------------------------- axis counters index cells by row, per-atom arrays by column
def axis_index_typing(rep, M, rid, fq):
    """inside a loop over the three cell axes (the counter also selects `pbc[i]`), the counter names a *lattice vector*: a cell matrix
    (rows = lattice vectors) is indexed with it in the first position, a per-atom coordinate array (atoms x axes) in the second"""
    fn = M.func(fq)
    fl = Flow(fn)
    n = 0
    for lp in [x for x in ast.walk(fn) if isinstance(x, ast.For)]:
        cnt = None
        if isinstance(lp.target, ast.Name) and isinstance(lp.iter, ast.Call) and isinstance(lp.iter.func, ast.Name) and lp.iter.func.id == "range" \
                and len(lp.iter.args) == 1 and isinstance(lp.iter.args[0], ast.Constant) and lp.iter.args[0].value == 3:
            cnt = lp.target.id
        elif isinstance(lp.target, ast.Tuple) and isinstance(lp.iter, ast.Call) and isinstance(lp.iter.func, ast.Name) and lp.iter.func.id == "enumerate" \
                and lp.iter.args and "pbc" in norm(lp.iter.args[0]) and isinstance(lp.target.elts[0], ast.Name):
            cnt = lp.target.elts[0].id
        if cnt is None:
            continue
        if not any(isinstance(s, ast.Subscript) and "pbc" in norm(s.value) and norm(s.slice) == cnt for s in ast.walk(lp)) and "enumerate" not in norm(lp.iter):
            continue

        def kind(e, at, depth=0):
            """CELL / PERATOM for a name bound (through aliases, np.array(...), .copy()) to get_cell() / get_(scaled_)positions()"""
            if depth > 4:
                return None
            if isinstance(e, ast.Call) and isinstance(e.func, ast.Attribute) and e.func.attr == "get_cell":
                return "CELL"
            if isinstance(e, ast.Call) and isinstance(e.func, ast.Attribute) and e.func.attr in ("get_scaled_positions", "get_positions"):
                return "PERATOM"
            if isinstance(e, ast.Call) and ((M.ext_name(fq, e.func) or "") in ("numpy.array", "numpy.asarray", "numpy.copy") and e.args):
                return kind(e.args[0], at, depth + 1)
            if isinstance(e, ast.Call) and isinstance(e.func, ast.Attribute) and e.func.attr == "copy" and not e.args:
                return kind(e.func.value, at, depth + 1)
            if isinstance(e, ast.Name):
                ks = set()
                for d in fl.rd[at].get(e.id, ()):
                    if d == fl.cfg.entry:
                        return None
                    for v in fl.def_value(d, e.id):
                        if v[0] == "expr":
                            ks.add(kind(v[1], d, depth + 1))
                        elif v[0] != "prev":
                            return None
                return ks.pop() if len(ks) == 1 else None
            return None
        for node, data in fl.cfg.g.nodes(data=True):
            st = data["ast"]
            if st is None or not any(st is x or any(st is y for y in ast.walk(x)) for x in lp.body):
                continue
            from ..cfg import walk_own
            for sub in walk_own(st):
                if not (isinstance(sub, ast.Subscript) and isinstance(sub.value, ast.Name)):
                    continue
                k = kind(sub.value, node)
                if k is None:
                    continue
                sl = sub.slice
                pos = None
                if isinstance(sl, ast.Name) and sl.id == cnt:
                    pos = 0
                elif isinstance(sl, ast.Tuple):
                    for j, el in enumerate(sl.elts):
                        if isinstance(el, ast.Name) and el.id == cnt:
                            pos = j
                if pos is None:
                    continue
                n += 1
                want = 0 if k == "CELL" else 1
                if pos == want:
                    rep.ok(rid, f"{fq.split('.')[-1]}: `{norm(sub)}` indexes a {'cell matrix by lattice vector' if k == 'CELL' else 'per-atom array by axis'}")
                elif k == "CELL":
                    rep.violation(rid, f"{fq.split('.')[-1]}: `{norm(sub)}`", f"`{norm(sub.value)}` is a cell matrix (rows = lattice vectors) and `{cnt}` counts cell axes: "
                                  f"`{norm(sub)}` selects Cartesian component {cnt} of all three lattice vectors instead of lattice vector {cnt}; the two coincide only for "
                                  "axis-aligned cells, so a rotated slab gets its in-plane vectors stretched and is no longer found", M.where(fq, sub))
                else:
                    rep.violation(rid, f"{fq.split('.')[-1]}: `{norm(sub)}`", f"`{norm(sub.value)}` is a per-atom coordinate array (atoms x axes) and `{cnt}` counts cell axes: "
                                  f"`{norm(sub)}` selects atom {cnt}, not the coordinates along axis {cnt}", M.where(fq, sub))
    if n == 0:
        raise AnalysisError(f"{fq.split('.')[-1]}: no cell / per-atom array indexed by an axis counter was recognised")


# ----------------------------------------------------------------------------- integer image factors times the cell: row vectors
def factors_times_cell(rep, M, rid):
    """the periodic-image correction of a per-node cell vector is (integer image factors) . cell with the cell matrix (rows = lattice vectors) as
    the RIGHT operand; `cell . factors` is factors . cell^T, which coincides only for symmetric (axis-aligned orthorhombic) cell matrices"""
    n = 0
    for fq in (PF + "._find_proto_cell_3d", PF + "._find_proto_cell_2d"):
        fn = M.func(fq)
        cells = {s.targets[0].id for s in ast.walk(fn) if isinstance(s, ast.Assign) and len(s.targets) == 1 and isinstance(s.targets[0], ast.Name)
                 and isinstance(s.value, ast.Call) and isinstance(s.value.func, ast.Attribute) and s.value.func.attr == "get_cell"}
        prods = [(c, c.args[0], c.args[1]) for c in ast.walk(fn) if isinstance(c, ast.Call) and (M.ext_name(fq, c.func) or "") in ("numpy.dot", "numpy.matmul") and len(c.args) == 2]
        prods += [(b, b.left, b.right) for b in ast.walk(fn) if isinstance(b, ast.BinOp) and isinstance(b.op, ast.MatMult)]
        for node, left, right in prods:
            def is_cell(e):
                t = False
                while isinstance(e, ast.Attribute) and e.attr == "T":
                    e, t = e.value, not t
                return (isinstance(e, ast.Name) and e.id in cells), t
            lc, lt = is_cell(left)
            rc, rt = is_cell(right)
            if lc == rc:
                continue
            n += 1
            if (rc and not rt) or (lc and lt):
                rep.ok(rid, f"{fq.split('.')[-1]}: image factors are converted with the cell on the right (`{norm(node)[:50]}`)")
            else:
                rep.violation(rid, f"{fq.split('.')[-1]}: `{norm(node)[:60]}`", "the cell matrix is the left operand: this is factors . cell^T, equal to factors . cell only for a "
                              "symmetric cell matrix (axis-aligned orthorhombic); in a rotated or hexagonal cell every per-node vector that crosses a periodic boundary is "
                              "corrected by the wrong lattice translation, the prototype cell is polluted and the crystal is returned incomplete or not at all",
                              M.where(fq, node))
    if n < 2:
        raise AnalysisError(f"periodic-image correction (factors . cell) found at {n} site(s); both prototype-cell builders have one")


# ----------------------------------------------------------------------------- +span and -span matches are recorded alike
def _shape(stmts, shared):
    """structure of a statement list with the names that are private to it numbered by first occurrence"""
    num = {}
    out = []
    for st in stmts:
        for x in ast.walk(st):
            if isinstance(x, ast.Name):
                out.append(("name", x.id if x.id in shared else num.setdefault(x.id, len(num)), type(x.ctx).__name__))
            elif isinstance(x, ast.Attribute):
                out.append(("attr", x.attr))
            elif isinstance(x, ast.Constant):
                out.append(("const", repr(x.value)))
            else:
                out.append((type(x).__name__,))
    return out


def both_directions_alike(rep, M, rid):
    """_find_proto_cell records the neighbour found at +span and the one found at -span in the same way (combined adjacency list, per-direction
    list, metric count): the two sibling branches are equal up to a renaming of their private names. The combined list is the periodicity graph;
    without the backward edges the graphs of the sub-lattices shrink and whole sub-lattices fall below the size filter"""
    fq = PF + "._find_proto_cell"
    fn = M.func(fq)
    pairs = []
    for node in ast.walk(fn):
        for f in ("body", "orelse"):
            blk = getattr(node, f, None)
            if not isinstance(blk, list):
                continue
            for a, b in zip(blk, blk[1:]):
                if isinstance(a, ast.If) and isinstance(b, ast.If) and not a.orelse and not b.orelse \
                        and all(isinstance(t.test, ast.Compare) and isinstance(t.test.ops[0], ast.IsNot) and isinstance(t.test.left, ast.Name)
                                and isinstance(t.test.comparators[0], ast.Constant) and t.test.comparators[0].value is None for t in (a, b)) \
                        and a.test.left.id != b.test.left.id:
                    pairs.append((a, b))
    if not pairs:
        raise AnalysisError("_find_proto_cell: the sibling branches for the +span / -span matches were not recognised")
    for a, b in pairs:
        na = {x.id for s in a.body for x in ast.walk(s) if isinstance(x, ast.Name)} | {a.test.left.id}
        nb = {x.id for s in b.body for x in ast.walk(s) if isinstance(x, ast.Name)} | {b.test.left.id}
        shared = (na & nb)
        if _shape(a.body, shared) == _shape(b.body, shared):
            rep.ok(rid, f"_find_proto_cell: the matches `{a.test.left.id}` and `{b.test.left.id}` are recorded alike ({len(a.body)} statements each)")
        else:
            rep.violation(rid, f"_find_proto_cell: handling of `{b.test.left.id}` against `{a.test.left.id}`", f"the two sibling branches differ beyond a renaming of their "
                          f"private names ({len(a.body)} against {len(b.body)} statements): a neighbour found in one direction is not entered into the same lists as a neighbour "
                          "found in the other, so the periodicity graph loses its backward (or forward) edges, sub-lattice graphs shrink below the size filter and the "
                          "prototype cell loses whole sub-lattices", M.where(fq, b))


# ----------------------------------------------------------------------------- image label of a found atom = label of the seed + offset found
def image_labels_add(rep, M, rid):
    """both prototype-cell builders label an atom found through a periodic image with (image label of the seed) + (offset at which it was found);
    the labels are compared with the nodes of the periodicity graph, which were built with the same sum - a difference mirrors the label and a basis
    atom found through an image no longer matches its own occurrences"""
    n = 0
    for fq in (PF + "._find_proto_cell_3d", PF + "._find_proto_cell_2d"):
        fn = M.func(fq)
        for lp in [x for x in ast.walk(fn) if isinstance(x, ast.For) and isinstance(x.target, ast.Name)]:
            var = lp.target.id
            def label(e):
                return e.args[0] if isinstance(e, ast.Call) and isinstance(e.func, ast.Name) and e.func.id == "tuple" and e.args and isinstance(e.args[0], ast.BinOp) else None
            for st in lp.body:
                b = None
                if isinstance(st, ast.Assign) and label(st.value) is not None:
                    # `label = tuple(seed + offset)` followed by `....append(label)`
                    if any(isinstance(c, ast.Call) and isinstance(c.func, ast.Attribute) and c.func.attr == "append" and c.args and norm(c.args[0]) == norm(st.targets[0])
                           for s2 in lp.body for c in ast.walk(s2)):
                        b = label(st.value)
                elif isinstance(st, ast.Expr) and isinstance(st.value, ast.Call) and isinstance(st.value.func, ast.Attribute) and st.value.func.attr == "append" \
                        and st.value.args and label(st.value.args[0]) is not None:
                    b = label(st.value.args[0])     # `....append(tuple(seed + offset))`
                if b is None or not any(isinstance(x, ast.Name) and x.id == var for x in ast.walk(b)):
                    continue
                n += 1
                if isinstance(b.op, ast.Add):
                    rep.ok(rid, f"{fq.split('.')[-1]}: `{norm(st)[:60]}` adds the offset to the seed's image label")
                else:
                    rep.violation(rid, f"{fq.split('.')[-1]}: `{norm(st)[:60]}`", f"the image label of a found atom is not seed label + offset (`{type(b.op).__name__}`): the label is "
                                  "mirrored, so an atom that was found through a periodic image (sheet or slab straddling a cell face) never matches the nodes of the periodicity "
                                  "graph, loses its occurrences and is dropped from the prototype cell (e.g. `MoS` instead of `MoS2`)", M.where(fq, st))
    if n < 2:
        raise AnalysisError(f"image labels of found atoms recognised at {n} site(s); both prototype-cell builders have one")


# ----------------------------------------------------------------------------- 3D builder: the span seen from a node, through its -span neighbour
def _poly_of(e, env):
    """tiny polynomial evaluation: expression -> {monomial (sorted tuple of symbols): coefficient}; None if not polynomial in the known symbols"""
    if isinstance(e, ast.Name):
        return env.get(e.id)
    if isinstance(e, ast.Constant) and isinstance(e.value, (int, float)):
        return {(): e.value}
    if isinstance(e, ast.UnaryOp) and isinstance(e.op, ast.USub):
        a = _poly_of(e.operand, env)
        return None if a is None else {k: -v for k, v in a.items()}
    if isinstance(e, ast.BinOp):
        a, b = _poly_of(e.left, env), _poly_of(e.right, env)
        if a is None or b is None:
            return None
        if isinstance(e.op, (ast.Add, ast.Sub)):
            sg = 1 if isinstance(e.op, ast.Add) else -1
            r = dict(a)
            for k, v in b.items():
                r[k] = r.get(k, 0) + sg * v
            return {k: v for k, v in r.items() if v}
        if isinstance(e.op, ast.Mult):
            r = {}
            for k1, v1 in a.items():
                for k2, v2 in b.items():
                    k = tuple(sorted(k1 + k2))
                    r[k] = r.get(k, 0) + v1 * v2
            return {k: v for k, v in r.items() if v}
    return None


def span_through_minus_neighbour(rep, M, rid):
    """_find_proto_cell_3d: the cell vector seen from a node is multiplier * (displacement to the neighbour + periodic-image correction); the
    multiplier (-1 when only the neighbour at -span exists) applies to the corrected displacement as a whole. The 2D builder writes
    `multiplier * displacement + correction`; there the -span branch was never taken in 5184 probed executions (DESIGN section 3, C02), so no
    obligation is put on it - a change of the 3D builder to that form is reported (slabs whose surface atoms only have a -span neighbour across a
    lateral periodic boundary get a distorted prototype cell)"""
    fq = PF + "._find_proto_cell_3d"
    fn = M.func(fq)
    corr = [s for s in ast.walk(fn) if isinstance(s, ast.Assign) and isinstance(s.targets[0], ast.Name)
            and ((isinstance(s.value, ast.Call) and (M.ext_name(fq, s.value.func) or "") in ("numpy.dot", "numpy.matmul"))
                 or (isinstance(s.value, ast.BinOp) and isinstance(s.value.op, ast.MatMult)))]
    if not corr:
        raise AnalysisError("_find_proto_cell_3d: periodic-image correction not found")
    cname = corr[0].targets[0].id
    # the block that holds the correction
    blk = None
    for node in ast.walk(fn):
        for f in ("body", "orelse"):
            b = getattr(node, f, None)
            if isinstance(b, list) and corr[0] in b:
                blk = b
    if blk is None:
        raise AnalysisError("_find_proto_cell_3d: block of the periodic-image correction not found")
    mults = {s.targets[0].id for s in ast.walk(fn) if isinstance(s, ast.Assign) and isinstance(s.targets[0], ast.Name)
             and ((isinstance(s.value, ast.Constant) and s.value.value in (1, -1)) or (isinstance(s.value, ast.UnaryOp) and isinstance(s.value.operand, ast.Constant)
                                                                                    and s.value.operand.value == 1))}
    disp = [s for s in blk if isinstance(s, ast.Assign) and isinstance(s.targets[0], ast.Name) and isinstance(s.value, ast.BinOp) and isinstance(s.value.op, ast.Sub)
            and all(isinstance(x, ast.Subscript) for x in (s.value.left, s.value.right))]
    if not disp or not mults:
        raise AnalysisError("_find_proto_cell_3d: displacement / multiplier of the per-node cell vector not recognised")
    env = {cname: {("c",): 1}, disp[0].targets[0].id: {("d",): 1}}
    for mname in mults:
        env[mname] = {("m",): 1}
    stored = [s for s in ast.walk(fn) if isinstance(s, ast.Assign) and isinstance(s.targets[0], ast.Subscript) and isinstance(s.value, ast.Name)]
    target = None
    for s in blk[blk.index(corr[0]) + 1:]:
        if isinstance(s, ast.Assign) and isinstance(s.targets[0], ast.Name) and s not in disp:
            p = _poly_of(s.value, env)
            if p is not None:
                env[s.targets[0].id] = p
                target = s.targets[0].id
        elif isinstance(s, ast.AugAssign) and isinstance(s.target, ast.Name) and s.target.id in env:
            op = {ast.Mult: ast.Mult, ast.Add: ast.Add, ast.Sub: ast.Sub}.get(type(s.op))
            p = _poly_of(ast.BinOp(left=ast.Name(id=s.target.id, ctx=ast.Load()), op=op(), right=s.value), env) if op else None
            if p is None:
                raise AnalysisError(f"_find_proto_cell_3d: `{norm(s)}` not modelled")
            env[s.target.id] = p
            target = s.target.id
    if target is None or not any(norm(s.value) == target for s in stored):
        raise AnalysisError("_find_proto_cell_3d: the per-node cell vector stored into the cell array was not recognised")
    got = env[target]
    want = {("d", "m"): 1, ("c", "m"): 1}
    shown = " + ".join(f"{v}*{'*'.join(k)}" for k, v in sorted(got.items()))
    if got == want:
        rep.ok(rid, f"_find_proto_cell_3d: per-node cell vector = multiplier * (displacement + image correction)  [{shown}]")
    else:
        rep.violation(rid, "_find_proto_cell_3d: per-node cell vector", f"`{target}` = {shown} (m multiplier, d displacement, c periodic-image correction); required m*d + m*c: "
                      "with the correction outside the multiplier a node whose only neighbour is the one at -span across a periodic boundary gets a vector that is off by "
                      "twice a lattice translation, its cell collects wrong relative positions and the averaged prototype cell is distorted (rutile (110) slabs: space group 6 or "
                      "38 instead of 136)", M.where(fq, corr[0]))


# ----------------------------------------------------------------------------- a merged cluster keeps the larger of the two regions
def merged_region_is_larger(rep, M, rid):
    """SBC._merge_clusters.merge: the region (hence the prototype cell Cluster.get_cell() hands out) of the merged cluster is the one with more basis
    atoms; the smaller region usually stems from a surface seed and lacks basis atoms"""
    fq = c01.SBC + "._merge_clusters.merge"
    if fq not in M.defs:
        fq = next((q for q in M.defs if q.startswith(c01.SBC + "._merge_clusters") and q.endswith(".merge")), None)
    if fq is None:
        raise AnalysisError("_merge_clusters: inner merge() not found")
    fn = M.func(fq)
    cinit = M.find_method("matid.clustering.cluster.Cluster", "__init__")
    ctor = [c for c in ast.walk(fn) if isinstance(c, ast.Call) and cinit in M.callees_of_call(fq, c)]
    if not ctor:
        raise AnalysisError("_merge_clusters.merge: construction of the merged Cluster not found")
    reg = M.bind_args(cinit, ctor[0]).get("region")
    defs = {s.targets[0].id: s.value for s in ast.walk(fn) if isinstance(s, ast.Assign) and len(s.targets) == 1 and isinstance(s.targets[0], ast.Name)}
    e = reg
    for _ in range(3):
        if isinstance(e, ast.Name) and e.id in defs:
            e = defs[e.id]

    def by_size(call):
        k = next((kw.value for kw in call.keywords if kw.arg == "key"), None)
        if k is None or not any(isinstance(x, ast.Call) and isinstance(x.func, ast.Name) and x.func.id == "len" for x in ast.walk(k)):
            return None
        neg = isinstance(k, ast.Lambda) and isinstance(k.body, ast.UnaryOp) and isinstance(k.body.op, ast.USub)
        rev = any(kw.arg == "reverse" and isinstance(kw.value, ast.Constant) and kw.value.value is True for kw in call.keywords)
        return "descending" if (neg != rev) else "ascending"
    verdict = None
    if isinstance(e, ast.Call) and isinstance(e.func, ast.Name) and e.func.id in ("max", "min") and by_size(e):
        verdict = (e.func.id == "max") == (by_size(e) == "ascending")
    elif isinstance(e, ast.Subscript):
        base = e.value
        for _ in range(3):
            if isinstance(base, ast.Name) and base.id in defs:
                base = defs[base.id]
        idx = e.slice
        iv = idx.value if isinstance(idx, ast.Constant) else (-idx.operand.value if isinstance(idx, ast.UnaryOp) and isinstance(idx.op, ast.USub)
                                                             and isinstance(idx.operand, ast.Constant) else None)
        if isinstance(base, ast.Call) and isinstance(base.func, ast.Name) and base.func.id == "sorted" and by_size(base) and iv in (0, -1, 1):
            last = iv in (-1, 1)
            verdict = last == (by_size(base) == "ascending")
    if verdict is None:
        raise AnalysisError(f"_merge_clusters.merge: how the region of the merged cluster is chosen (`{norm(reg) if reg is not None else None}`) was not recognised")
    if verdict:
        rep.ok(rid, "_merge_clusters.merge: the merged cluster keeps the region with more basis atoms")
    else:
        rep.violation(rid, "_merge_clusters.merge: region of the merged cluster", f"`{norm(reg)}` is the *smaller* of the two regions: Cluster.get_cell() of a merged cluster then "
                      "hands out the prototype cell of the region that usually stems from a surface seed and lacks basis atoms (Ti2O3 instead of TiO2: not a whole number of "
                      "formula units, wrong space group)", M.where(fq, ctor[0]))


# ----------------------------------------------------------------------------- orientation of the periodic-image correction
def correction_orientation(rep, M, rid):
    """both builders: displacement = positions[neighbour] - positions[node] is completed by (image label of the NEIGHBOUR - image label of the NODE) . cell.
    Node index and node label are read from the same node tuple (`node[0]`, `node[1]`); neighbour index and neighbour label are assigned side by side in
    every branch that picks the neighbour. The reversed difference is off by twice a lattice translation for every link across a periodic boundary"""
    n = 0
    for fq in (PF + "._find_proto_cell_3d", PF + "._find_proto_cell_2d"):
        fn = M.func(fq)
        disp = [s for s in ast.walk(fn) if isinstance(s, ast.Assign) and isinstance(s.value, ast.BinOp) and isinstance(s.value.op, ast.Sub)
                and all(isinstance(x, ast.Subscript) and isinstance(x.slice, ast.Name) for x in (s.value.left, s.value.right))
                and norm(s.value.left.value) == norm(s.value.right.value)]
        prods = [c for c in ast.walk(fn) if (isinstance(c, ast.Call) and (M.ext_name(fq, c.func) or "") in ("numpy.dot", "numpy.matmul") and len(c.args) == 2)
                 or (isinstance(c, ast.BinOp) and isinstance(c.op, ast.MatMult))]
        if not disp or not prods:
            raise AnalysisError(f"{fq.split('.')[-1]}: displacement / correction not recognised")
        neigh, node = disp[0].value.left.slice.id, disp[0].value.right.slice.id
        # owner of a label: the index name it is bound together with
        owner = {}
        for s in ast.walk(fn):
            if isinstance(s, ast.Assign) and len(s.targets) == 1 and isinstance(s.targets[0], ast.Name) and isinstance(s.value, ast.Subscript) \
                    and isinstance(s.value.slice, ast.Constant) and s.value.slice.value == 1:
                src = norm(s.value.value)
                for s2 in ast.walk(fn):
                    if isinstance(s2, ast.Assign) and len(s2.targets) == 1 and isinstance(s2.targets[0], ast.Name) and isinstance(s2.value, ast.Subscript) \
                            and isinstance(s2.value.slice, ast.Constant) and s2.value.slice.value == 0 and norm(s2.value.value) == src:
                        owner[s.targets[0].id] = s2.targets[0].id
        for blk_owner in ast.walk(fn):
            for f in ("body", "orelse"):
                blk = getattr(blk_owner, f, None)
                if not isinstance(blk, list):
                    continue
                for a, b in zip(blk, blk[1:]):
                    if all(isinstance(x, ast.Assign) and len(x.targets) == 1 and isinstance(x.targets[0], ast.Name) and isinstance(x.value, ast.Name) for x in (a, b)):
                        # `a_final_neighbour = a_add_neighbour` next to `i_factor = i_add_factor`, in either order
                        for lab, idx in ((b.targets[0].id, a.targets[0].id), (a.targets[0].id, b.targets[0].id)):
                            if idx in (neigh, node) and lab not in (neigh, node):
                                owner.setdefault(lab, idx)
        for pr in prods:
            args = pr.args if isinstance(pr, ast.Call) else [pr.left, pr.right]
            fac = next((x for x in args if isinstance(x, (ast.BinOp, ast.UnaryOp))), None)
            if fac is None:
                continue

            def lin(e):
                if isinstance(e, ast.Call) and e.args and (M.ext_name(fq, e.func) or "") in ("numpy.array", "numpy.asarray"):
                    return lin(e.args[0])
                if isinstance(e, ast.Name):
                    return {e.id: 1}
                if isinstance(e, ast.UnaryOp) and isinstance(e.op, ast.USub):
                    r = lin(e.operand)
                    return None if r is None else {k: -v for k, v in r.items()}
                if isinstance(e, ast.BinOp) and isinstance(e.op, (ast.Add, ast.Sub)):
                    a, b = lin(e.left), lin(e.right)
                    if a is None or b is None:
                        return None
                    sg = 1 if isinstance(e.op, ast.Add) else -1
                    r = dict(a)
                    for k, v in b.items():
                        r[k] = r.get(k, 0) + sg * v
                    return r
                return None
            lf = lin(fac)
            if lf is None or len(lf) != 2:
                raise AnalysisError(f"{fq.split('.')[-1]}: image-label difference `{norm(fac)[:50]}` not recognised")
            by_owner = {owner.get(k): v for k, v in lf.items()}
            if set(by_owner) != {neigh, node}:
                raise AnalysisError(f"{fq.split('.')[-1]}: the labels in `{norm(fac)[:50]}` could not be attributed to `{neigh}` / `{node}` ({owner})")
            n += 1
            if by_owner[neigh] == 1 and by_owner[node] == -1:
                rep.ok(rid, f"{fq.split('.')[-1]}: correction = (label of `{neigh}` - label of `{node}`) . cell, oriented like the displacement")
            else:
                rep.violation(rid, f"{fq.split('.')[-1]}: `{norm(fac)[:60]}`", f"the image-label difference is oriented against the displacement `{norm(disp[0].value)}` "
                              f"(coefficients: label of `{neigh}` {by_owner[neigh]:+d}, label of `{node}` {by_owner[node]:+d}): every link across a periodic boundary is off by twice "
                              "a lattice translation; in a single material the oversized cells are harmless, at an interface they enclose atoms of the other slab, the cell is "
                              "rejected and a whole slab is lost", M.where(fq, pr))
    if n < 2:
        raise AnalysisError(f"orientation of the periodic-image correction decided at {n} site(s); both builders have one")


# ----------------------------------------------------------------------------- the two builders pick the neighbour of a node in the same way
def builders_pick_alike(rep, M, rid):
    """the block that picks, for a node and a basis direction, the neighbour at +span (else the one at -span, multiplier -1; never the node itself) is the
    same code in the 3D and the 2D builder: equal up to a renaming of private names. A test flipped in one of them (`!=` to `==`) makes that builder
    use only self-neighbours and fall back to the averaged spans everywhere"""
    blocks = {}
    for fq in (PF + "._find_proto_cell_3d", PF + "._find_proto_cell_2d"):
        fn = M.func(fq)
        # the chain `if <add>: ... ; if <sub>: ...` (an elif chain in the source) that assigns a constant multiplier in both arms
        found = None
        for node in ast.walk(fn):
            for f in ("body", "orelse"):
                blk = getattr(node, f, None)
                if not isinstance(blk, list):
                    continue
                for t in blk:
                    if isinstance(t, ast.If) and isinstance(t.test, ast.Name) and t.orelse and len(t.orelse) == 1 and isinstance(t.orelse[0], ast.If) \
                            and isinstance(t.orelse[0].test, ast.Name) and any(isinstance(x, ast.Constant) and x.value == -1 or
                                                                               (isinstance(x, ast.UnaryOp) and isinstance(x.op, ast.USub)) for x in ast.walk(t.orelse[0])):
                        found = t
        if found is None:
            raise AnalysisError(f"{fq.split('.')[-1]}: the block that picks the +span / -span neighbour of a node was not recognised")
        blocks[fq] = found
    a, b = blocks.values()
    na = {x.id for x in ast.walk(a) if isinstance(x, ast.Name)}
    nb = {x.id for x in ast.walk(b) if isinstance(x, ast.Name)}
    if _shape([a], na & nb) == _shape([b], na & nb):
        rep.ok(rid, "both prototype-cell builders pick the neighbour of a node alike (+span first, else -span with multiplier -1, never the node itself)")
    else:
        rep.violation(rid, "_find_proto_cell_3d / _find_proto_cell_2d: choice of a node's neighbour", "the two builders differ in the block that picks the neighbour at +span / "
                      "-span (a flipped test, another multiplier, a missing arm): one of them builds its per-node cells from the wrong neighbours", M.where(PF + "._find_proto_cell_3d", a))


def per_copy_distance(rep, M, rid):
    """both builders choose the reference copy of a basis atom as the argmin of a per-copy norm: the norm is taken over axis 1 of the (copies x 3) array,
    so that the argmin is a copy number"""
    n = 0
    for fq in (PF + "._find_proto_cell_3d", PF + "._find_proto_cell_2d"):
        fn = M.func(fq)
        for s2 in ast.walk(fn):
            if not (isinstance(s2, ast.Assign) and isinstance(s2.value, ast.Call) and (M.ext_name(fq, s2.value.func) or "") == "numpy.argmin" and s2.value.args
                    and isinstance(s2.value.args[0], ast.Name)):
                continue
            dname, iname = s2.value.args[0].id, norm(s2.targets[0])
            ddef = [s3 for s3 in ast.walk(fn) if isinstance(s3, ast.Assign) and norm(s3.targets[0]) == dname and isinstance(s3.value, ast.Call)
                    and (M.ext_name(fq, s3.value.func) or "") == "numpy.linalg.norm"]
            if not ddef:
                continue
            arr = norm(ddef[-1].value.args[0]) if ddef[-1].value.args else None
            used = any(isinstance(x, ast.Subscript) and norm(x.value) == arr and norm(x.slice) == iname for x in ast.walk(fn))
            if not used:
                continue
            n += 1
            ax = next((k.value for k in ddef[-1].value.keywords if k.arg == "axis"), None)
            axv = ax.value if isinstance(ax, ast.Constant) else (-ax.operand.value if isinstance(ax, ast.UnaryOp) and isinstance(ax.operand, ast.Constant) else None)
            if axv in (1, -1):
                rep.ok(rid, f"{fq.split('.')[-1]}: `{norm(ddef[-1])[:60]}` is a per-copy norm; its argmin selects a row of `{arr}`")
            else:
                rep.violation(rid, f"{fq.split('.')[-1]}: `{norm(ddef[-1])[:60]}`", f"the norm is not taken over axis 1 (axis = {norm(ax) if ax is not None else 'all'}): its argmin is a "
                              f"component number (0..2), not a copy number, but it indexes the rows of `{arr}` - an arbitrary copy becomes the reference, or the index is out of "
                              "range when fewer than three copies exist", M.where(fq, ddef[-1]))
    if n < 2:
        raise AnalysisError(f"reference copy by argmin of a per-copy norm recognised at {n} site(s); both builders have one")


def span_2d_form(rep, M, rid):
    """_find_proto_cell_2d: the per-node vector is multiplier * displacement + correction (the form the 2D builder has; with multiplier = +1, the only value
    it was ever observed to take there, this equals the 3D form) or the 3D form multiplier * (displacement + correction); a correction that is subtracted,
    doubled or dropped is neither"""
    fq = PF + "._find_proto_cell_2d"
    fn = M.func(fq)
    corr = [s for s in ast.walk(fn) if isinstance(s, ast.Assign) and isinstance(s.targets[0], ast.Name)
            and ((isinstance(s.value, ast.Call) and (M.ext_name(fq, s.value.func) or "") in ("numpy.dot", "numpy.matmul"))
                 or (isinstance(s.value, ast.BinOp) and isinstance(s.value.op, ast.MatMult)))]
    blk = None
    for node in ast.walk(fn):
        for f in ("body", "orelse"):
            b = getattr(node, f, None)
            if corr and isinstance(b, list) and corr[0] in b:
                blk = b
    if blk is None:
        raise AnalysisError("_find_proto_cell_2d: periodic-image correction not found")
    mults = {s.targets[0].id for s in ast.walk(fn) if isinstance(s, ast.Assign) and isinstance(s.targets[0], ast.Name)
             and ((isinstance(s.value, ast.Constant) and s.value.value in (1, -1)) or (isinstance(s.value, ast.UnaryOp) and isinstance(s.value.operand, ast.Constant)
                                                                                    and s.value.operand.value == 1))}
    disp = [s for s in blk if isinstance(s, ast.Assign) and isinstance(s.targets[0], ast.Name) and isinstance(s.value, ast.BinOp) and isinstance(s.value.op, ast.Sub)
            and all(isinstance(x, ast.Subscript) for x in (s.value.left, s.value.right))]
    if not disp or not mults:
        raise AnalysisError("_find_proto_cell_2d: displacement / multiplier of the per-node cell vector not recognised")
    env = {corr[0].targets[0].id: {("c",): 1}, disp[0].targets[0].id: {("d",): 1}}
    for mname in mults:
        env[mname] = {("m",): 1}
    target = None
    for s in blk[blk.index(corr[0]) + 1:]:
        if isinstance(s, ast.Assign) and isinstance(s.targets[0], ast.Name) and s not in disp:
            p = _poly_of(s.value, env)
            if p is not None:
                env[s.targets[0].id] = p
                target = s.targets[0].id
        elif isinstance(s, ast.AugAssign) and isinstance(s.target, ast.Name) and s.target.id in env and isinstance(s.op, (ast.Mult, ast.Add, ast.Sub)):
            p = _poly_of(ast.BinOp(left=ast.Name(id=s.target.id, ctx=ast.Load()), op=type(s.op)(), right=s.value), env)
            if p is None:
                raise AnalysisError(f"_find_proto_cell_2d: `{norm(s)}` not modelled")
            env[s.target.id] = p
            target = s.target.id
    if target is None:
        raise AnalysisError("_find_proto_cell_2d: per-node cell vector not recognised")
    got = env[target]
    shown = " + ".join(f"{v}*{'*'.join(k)}" for k, v in sorted(got.items()))
    if got in ({("d", "m"): 1, ("c",): 1}, {("d", "m"): 1, ("c", "m"): 1}):
        rep.ok(rid, f"_find_proto_cell_2d: per-node cell vector = {shown}")
    else:
        rep.violation(rid, "_find_proto_cell_2d: per-node cell vector", f"`{target}` = {shown} (m multiplier, d displacement, c periodic-image correction); required m*d + c "
                      "(or the 3D form m*d + m*c): every link across a periodic boundary gets the wrong lattice translation and the monolayer's prototype cell is distorted",
                      M.where(fq, corr[0]))
