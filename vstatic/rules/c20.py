"""C20 - cell and frame helpers preserve the physical structure (structural clauses)."""
import ast

from .. import linalg, sigs
from ..cfg import CFG, walk_own
from ..dataflow import Flow
from ..effects import Effects
from ..model import norm
from ..report import AnalysisError

GEO = "matid.geometry.geometry"
POSITION_MUTATORS = {"set_positions", "set_scaled_positions", "translate", "wrap", "center", "rotate", "rattle"}


def resolver(M, fq):
    def r(f):
        x = M.resolve(fq, f)
        if isinstance(x, tuple) and x[0] == "ext":
            return x[1]
        return None
    return r


def single_defs(fn):
    """name -> value expression for names assigned exactly once (plain `name = expr`)"""
    cnt, val = {}, {}
    for n in ast.walk(fn):
        if isinstance(n, ast.Assign):
            for t in n.targets:
                if isinstance(t, ast.Name):
                    cnt[t.id] = cnt.get(t.id, 0) + 1
                    val[t.id] = n.value
                elif isinstance(t, (ast.Tuple, ast.List)):
                    for x in ast.walk(t):
                        if isinstance(x, ast.Name):
                            cnt[x.id] = cnt.get(x.id, 0) + 2
        elif isinstance(n, (ast.AugAssign, ast.For, ast.AnnAssign)):
            tg = n.target
            for x in ([tg] if isinstance(tg, ast.Name) else tg.elts if isinstance(tg, (ast.Tuple, ast.List)) else []):
                for y in ast.walk(x):
                    if isinstance(y, ast.Name):
                        cnt[y.id] = cnt.get(y.id, 0) + 2
    params = {a.arg for a in fn.args.args + fn.args.kwonlyargs + fn.args.posonlyargs}
    return {k: v for k, v in val.items() if cnt[k] == 1 and k not in params}


# ----------------------------------------------------------------------------- R20.2
def r20_2(rep, M, rid):
    for name in ("to_scaled", "to_cartesian"):
        fq = GEO + "." + name
        fn = M.func(fq)
        fl = Flow(fn)
        cfg = fl.cfg
        wraps = []
        # the array whose entries may be changed: the returned fractional array (to_scaled) / the scaled input (to_cartesian)
        rets = [r for r in ast.walk(fn) if isinstance(r, ast.Return) and r.value is not None]
        arrays = set()
        for r in rets:
            sl = fl.slice(r.value, fl.node_of(r))
            arrays |= {x.id for e in sl["exprs"] for x in ast.walk(e) if isinstance(x, ast.Name)}
        for n, d in cfg.g.nodes(data=True):
            s = d["ast"]
            if isinstance(s, (ast.AugAssign, ast.Assign)):
                tgts = [s.target] if isinstance(s, ast.AugAssign) else s.targets
                for tgt in tgts:
                    if isinstance(tgt, ast.Subscript) and isinstance(tgt.value, ast.Name) and tgt.value.id in arrays:
                        # stores that only reshape (positions[None, :]) are assignments to the Name, not subscript stores
                        wraps.append((n, s, tgt))
            elif isinstance(s, ast.Expr) and isinstance(s.value, ast.Call) and resolver(M, fq)(s.value.func) in (
                    "numpy.mod", "numpy.remainder", "numpy.put", "numpy.place", "numpy.putmask") and (
                    any(k.arg == "out" for k in s.value.keywords) or resolver(M, fq)(s.value.func).split(".")[-1] in ("put", "place", "putmask")):
                tgt = next((k.value for k in s.value.keywords if k.arg == "out"), s.value.args[0] if s.value.args else None)
                wraps.append((n, s, tgt))
        if not wraps:
            raise AnalysisError(f"{name}: no statement that modifies the coordinates (wrapping) found")
        for n, s, tgt in wraps:
            conds = cfg.branch_conditions(n)
            construct = f"{name}: `{norm(s)}`"
            # under `wrap`
            under_wrap = any(pol is True and isinstance(t, ast.If) and "wrap" in {x.id for x in ast.walk(t.test) if isinstance(x, ast.Name)}
                             for t, pol in conds)
            # per-component periodicity
            per_pbc = False
            why = "no test of the periodicity of the wrapped component dominates it"
            idx = tgt.slice if isinstance(tgt, ast.Subscript) else None
            col = None
            if isinstance(idx, ast.Tuple) and len(idx.elts) == 2:
                col = idx.elts[1]
            for t, pol in conds:
                if not (pol is True and isinstance(t, ast.If)):
                    continue
                test = t.test
                # `if periodic:` with `for i, periodic in enumerate(pbc)` and column index i
                if isinstance(test, ast.Name):
                    for t2, pol2 in conds:
                        if isinstance(t2, ast.For) and isinstance(t2.target, ast.Tuple) and len(t2.target.elts) == 2 \
                                and isinstance(t2.iter, ast.Call) and isinstance(t2.iter.func, ast.Name) \
                                and t2.iter.func.id == "enumerate" and norm(t2.target.elts[1]) == test.id:
                            src = fl.slice(t2.iter.args[0], fl.node_of(t2))
                            from_pbc = "pbc" in src["params"]
                            if col is not None and norm(col) == norm(t2.target.elts[0]) and from_pbc:
                                per_pbc = True
                            elif not from_pbc:
                                why = f"the loop ranges over `{norm(t2.iter.args[0])}`, which is not derived from `pbc`"
                            else:
                                why = f"column index `{norm(col) if col is not None else '?'}` is not the index of the tested flag"
                # `if pbc[i]:`
                if isinstance(test, ast.Subscript) and col is not None and norm(test.slice) == norm(col):
                    src = fl.slice(test.value, fl.node_of(t))
                    if "pbc" in src["params"]:
                        per_pbc = True
            # vectorised: X[:, pbc] %= 1
            if col is not None and not per_pbc:
                src = fl.slice(col, n)
                if "pbc" in src["params"] and not isinstance(col, ast.Constant):
                    loopvars = [t2 for t2, _ in conds if isinstance(t2, ast.For)]
                    if not loopvars:
                        # a mask selects columns only if it is boolean: ASE also accepts 0/1 flags, and an integer array in this position is a
                        # list of column *numbers* ((0, 0, 1) wraps columns 0, 0 and 1)
                        def boolish(exprs, q):
                            for e2 in exprs:
                                for x in ast.walk(e2):
                                    if isinstance(x, ast.Call):
                                        if isinstance(x.func, ast.Attribute) and x.func.attr == "astype" and x.args and norm(x.args[0]) in ("bool", "'bool'", "np.bool_", "numpy.bool_"):
                                            return True
                                        if any(k.arg == "dtype" and norm(k.value) in ("bool", "'bool'", "np.bool_", "numpy.bool_") for k in x.keywords):
                                            return True
                                        if isinstance(x.func, ast.Name) and x.func.id == "bool":
                                            return True
                                    if isinstance(x, ast.Compare) or (isinstance(x, ast.UnaryOp) and isinstance(x.op, ast.Not)):
                                        return True
                            return False
                        exp = GEO + ".expand_pbc"
                        erets = [r2.value for r2 in ast.walk(M.func(exp)) if isinstance(r2, ast.Return) and r2.value is not None]
                        efl = Flow(M.func(exp))
                        via_expand = any(isinstance(c2, ast.Call) and exp in M.callees_of_call(fq, c2) for e2 in src["exprs"] for c2 in ast.walk(e2))
                        exp_bool = bool(erets) and all(boolish(efl.slice(r2, efl.node_of(next(rr for rr in ast.walk(M.func(exp)) if isinstance(rr, ast.Return) and rr.value is r2)))["exprs"] + [r2], exp) for r2 in erets)
                        if boolish(src["exprs"] + [col], fq) or (via_expand and exp_bool):
                            per_pbc = True
                        else:
                            why = (f"`{norm(col)}` is used as a column mask but is never converted to a boolean array (expand_pbc returns np.array(flags) of whatever "
                                   "type the caller passed): with the 0/1 spelling of pbc that ASE accepts, the flags are taken as column numbers")
            if under_wrap and per_pbc:
                rep.ok(rid, construct + " only under `wrap` and the component's own pbc flag")
            elif not under_wrap:
                rep.violation(rid, construct, "wrapping is not conditional on the `wrap` argument", M.where(fq, s))
            else:
                rep.violation(rid, construct, f"wraps a component regardless of its periodicity: {why}", M.where(fq, s))
        # pbc goes through expand_pbc
        if any(isinstance(c, ast.Call) and (GEO + ".expand_pbc") in M.callees_of_call(fq, c) for c in ast.walk(fn)):
            rep.ok(rid, f"{name}: pbc normalised by expand_pbc")
        else:
            rep.violation(rid, f"{name}: expand_pbc", "pbc is not normalised by expand_pbc (a scalar True/False would be iterated)",
                          M.where(fq))


# ----------------------------------------------------------------------------- R20.5 conventions
def r20_5(rep, M, rid, sites_in=None, sites_not_in=()):
    """sites_in / sites_not_in: functions whose wrapping conversion *call sites* are this property's business (the normal forms of the conversions
    themselves are always checked)"""
    fq = GEO + ".to_cartesian"
    fn = M.func(fq)
    env = single_defs(fn)
    rets = [s for s in M.own_nodes(fq) if isinstance(s, ast.Return)]
    ps = M.params(fq)
    for r in rets:
        f = linalg.nf(r.value, resolver(M, fq), env)
        want = [(ps[1], False, False), (ps[0], False, False)]
        if f == want:
            rep.ok(rid, f"to_cartesian = {linalg.show(f)}")
        else:
            rep.violation(rid, "to_cartesian product", f"returns {linalg.show(f)}; row-vector convention requires "
                          f"{linalg.show(want)} (cell vectors are rows)", M.where(fq, r))
    fq = GEO + ".to_scaled"
    fn = M.func(fq)
    env = single_defs(fn)
    ps = M.params(fq)
    rets = [s for s in M.own_nodes(fq) if isinstance(s, ast.Return)]
    for r in rets:
        f = linalg.nf(r.value, resolver(M, fq), env)
        want = [(ps[1], False, False), (ps[0], True, False)]
        if f == want:
            rep.ok(rid, f"to_scaled = {linalg.show(f)}")
        else:
            rep.violation(rid, "to_scaled product", f"returns {linalg.show(f)}; the inverse of to_cartesian is "
                          f"{linalg.show(want)}", M.where(fq, r))
    rep.floor(rid, 2)
    # who may wrap: a conversion that folds coordinates into the cell does so only along the system's own periodic directions
    nsites = 0
    for conv in (GEO + ".to_cartesian", GEO + ".to_scaled"):
        cps = M.params(conv)
        for q in M.functions():
            if (sites_in is not None and q not in sites_in) or q in sites_not_in:
                continue
            for c in M.calls_to(q, conv):
                b = dict(zip(cps, c.args))
                b.update({k.arg: k.value for k in c.keywords if k.arg})
                w = b.get("wrap")
                if w is None or (isinstance(w, ast.Constant) and not w.value):
                    continue
                nsites += 1
                pb = b.get("pbc")
                construct = f"{q.split('.')[-1]}: `{norm(c)[:70]}`"
                if pb is None:
                    rep.violation(rid, construct, "wrap requested without the periodicity flags: the default pbc=False wraps nothing", M.where(q, c))
                    continue
                flq = Flow(M.func(q))
                sl = flq.slice(pb, flq.node_of(c))
                from_sys = any(isinstance(x, ast.Call) and isinstance(x.func, ast.Attribute) and x.func.attr == "get_pbc" for e in sl["exprs"] for x in ast.walk(e)) \
                    or any("pbc" in p for p in sl["params"])
                if from_sys and not isinstance(pb, ast.Constant):
                    rep.ok(rid, construct + " wraps along the system's periodic directions")
                else:
                    rep.violation(rid, construct, f"coordinates are folded into the cell with pbc=`{norm(pb)}` instead of the periodicity of the system: "
                                  "along a non-periodic direction a point outside the cell (unwrapped molecule, slab) jumps by a lattice vector, so results "
                                  "no longer follow a rigid translation", M.where(q, c))
    rep.count("wrapping_conversion_sites", nsites)


# ----------------------------------------------------------------------------- R20.3 swap_basis
def r20_3(rep, M, E, rid):
    fq = GEO + ".swap_basis"
    fn = M.func(fq)
    p0 = M.params(fq)[0]
    cfg = CFG(fn)
    st = E.states(fq)
    muts, reads = [], []
    for n, d in cfg.g.nodes(data=True):
        s = d["ast"]
        if s is None:
            continue
        for sub in walk_own(s):
            if isinstance(sub, ast.Call) and isinstance(sub.func, ast.Attribute) and p0 in E.alias_of(fq, sub.func.value, st[n] or {}):
                if sub.func.attr.startswith("set_") or sub.func.attr in POSITION_MUTATORS:
                    muts.append((n, sub))
                elif sub.func.attr.startswith("get_"):
                    reads.append((n, sub))
    names = sorted(c.func.attr for _, c in muts)
    if names == ["set_cell", "set_pbc"]:
        rep.ok(rid, "swap_basis mutates exactly cell and pbc")
    else:
        rep.violation(rid, "swap_basis mutators", f"calls {names} on its argument; exchanging two basis vectors must change "
                      "the cell and the pbc flags and nothing else", M.where(fq))
    for n, c in muts:
        if c.func.attr == "set_cell":
            sa = [k for k in c.keywords if k.arg == "scale_atoms"]
            if (sa and not (isinstance(sa[0].value, ast.Constant) and sa[0].value.value is False)) or len(c.args) > 1:
                rep.violation(rid, "swap_basis set_cell", f"`{norm(c)}` rescales the atoms: positions move", M.where(fq, c))
            else:
                rep.ok(rid, "swap_basis set_cell leaves positions alone")
    # reads precede writes
    if all(cfg.reaches(rn, mn) and not cfg.reaches(mn, rn) for rn, _ in reads for mn, _ in muts) and len(reads) >= 2:
        rep.ok(rid, "swap_basis reads cell and pbc before writing either")
    else:
        rep.violation(rid, "swap_basis read/write order", "cell/pbc are not both read before the first write", M.where(fq))
    # the swap itself: new[a] = old[b]; new[b] = old[a] on a fresh copy
    a, b = M.params(fq)[1:3]
    for what, setter in (("cell", "set_cell"), ("pbc", "set_pbc")):
        call = next((c for _, c in muts if c.func.attr == setter), None)
        if call is None or not call.args or not isinstance(call.args[0], ast.Name):
            rep.violation(rid, f"swap_basis {what} swap", "new value is not a local array", M.where(fq))
            continue
        new = call.args[0].id
        stores = [s for s in fn.body if isinstance(s, ast.Assign) and isinstance(s.targets[0], ast.Subscript)
                  and norm(s.targets[0].value) == new]
        init = [s for s in fn.body if isinstance(s, ast.Assign) and norm(s.targets[0]) == new]
        pairs = {(norm(s.targets[0].slice), norm(s.value.slice) if isinstance(s.value, ast.Subscript) else "?") for s in stores}
        srcs = {norm(s.value.value) for s in stores if isinstance(s.value, ast.Subscript)}
        fresh = init and isinstance(init[0].value, ast.Call) and (
            resolver(M, fq)(init[0].value.func) in ("numpy.array", "numpy.copy") or
            (isinstance(init[0].value.func, ast.Attribute) and init[0].value.func.attr == "copy"))
        if pairs == {(a, b), (b, a)} and len(srcs) == 1 and new not in srcs and fresh:
            old = srcs.pop()
            # old must be the getter result of the argument, new a copy of it
            rep.ok(rid, f"swap_basis {what}: {new}[{a}] = {old}[{b}], {new}[{b}] = {old}[{a}] on a copy")
        else:
            rep.violation(rid, f"swap_basis {what} swap", f"stores {sorted(pairs)} from {sorted(srcs)} (fresh copy: {bool(fresh)}); "
                          f"required {new}[{a}] <- old[{b}] and {new}[{b}] <- old[{a}] with old untouched", M.where(fq))


# ----------------------------------------------------------------------------- R20.4 get_minimized_cell
def r20_4(rep, M, E, rid):
    fq = GEO + ".get_minimized_cell"
    fn = M.func(fq)
    fl = Flow(fn)
    sysp, axis, min_size = M.params(fq)[:3]
    if sysp in E.mut[fq]:
        rep.violation(rid, "get_minimized_cell argument", f"mutates its argument: {E.why(fq, sysp)[:2]}", M.where(fq))
    else:
        rep.ok(rid, "get_minimized_cell does not mutate its argument")
    rets = [s for s in M.own_nodes(fq) if isinstance(s, ast.Return)]
    ctor = None
    for r in rets:
        for c in fl.calls_in_slice(r.value, fl.node_of(r)):
            x = M.resolve(fq, c.func)
            if x == ("ext", "ase.Atoms"):
                ctor = c
    if ctor is None or sysp in E.ret[fq]:
        rep.violation(rid, "get_minimized_cell result", "does not return a newly constructed ase.Atoms", M.where(fq))
        return
    rep.ok(rid, "get_minimized_cell returns a new Atoms")
    kws = {k.arg: k.value for k in ctor.keywords}

    def from_getter(expr, getter):
        sl = fl.slice(expr, fl.node_of(ctor))
        return any(isinstance(c, ast.Call) and isinstance(c.func, ast.Attribute) and c.func.attr == getter
                   and norm(c.func.value) == sysp for e in sl["exprs"] for c in ast.walk(e)) and \
            not any(isinstance(s, (ast.BinOp, ast.UnaryOp)) for e in sl["exprs"] for s in ast.walk(e))
    for kw, getter in (("pbc", "get_pbc"),):
        if kw in kws and from_getter(kws[kw], getter):
            rep.ok(rid, f"get_minimized_cell {kw} carried through from {getter}()")
        else:
            rep.violation(rid, f"get_minimized_cell {kw}", f"`{kw}` of the result is not the argument's {getter}() unchanged",
                          M.where(fq, ctor))
    numk = next((k for k in ("symbols", "numbers") if k in kws), None)
    if numk and from_getter(kws[numk], "get_atomic_numbers"):
        rep.ok(rid, "get_minimized_cell species carried through")
    else:
        rep.violation(rid, "get_minimized_cell species", "species of the result are not the argument's atomic numbers unchanged",
                      M.where(fq, ctor))
    # the new basis differs from the old one only in row `axis`
    cellk = kws.get("cell")
    if not isinstance(cellk, ast.Name):
        raise AnalysisError("get_minimized_cell: cell= argument is not a local name")
    nb = cellk.id
    stores = [s for s in ast.walk(fn) if isinstance(s, (ast.Assign, ast.AugAssign)) and any(
        isinstance(t, ast.Subscript) and norm(t.value) == nb for t in (s.targets if isinstance(s, ast.Assign) else [s.target]))]
    init = [s for s in ast.walk(fn) if isinstance(s, ast.Assign) and norm(s.targets[0]) == nb]
    ok_init = init and any(isinstance(c, ast.Call) and c.func and norm(c.func).endswith("get_cell")
                           for e in fl.slice(init[0].value, fl.node_of(init[0]))["exprs"] for c in ast.walk(e))
    fresh = init and isinstance(init[0].value, ast.Call) and resolver(M, fq)(init[0].value.func) in ("numpy.array", "numpy.copy")
    bad = [s for s in stores for t in (s.targets if isinstance(s, ast.Assign) else [s.target])
           if isinstance(t, ast.Subscript) and not (
               (isinstance(t.slice, ast.Tuple) and norm(t.slice.elts[0]) == axis) or norm(t.slice) == axis)]
    if ok_init and fresh and stores and not bad:
        rep.ok(rid, f"get_minimized_cell: new basis = copy of the old one with only row `{axis}` replaced")
    else:
        rep.violation(rid, "get_minimized_cell basis", f"the new basis is not the old basis with only row `{axis}` replaced "
                      f"(init from get_cell: {bool(ok_init)}, copy: {bool(fresh)}, foreign stores: {[norm(b)[:40] for b in bad]})",
                      M.where(fq))
    # min_size honoured
    tests = [t for t in ast.walk(fn) if isinstance(t, ast.If) and min_size in {x.id for x in ast.walk(t.test) if isinstance(x, ast.Name)}]
    row_store = [s for s in stores if s not in bad]
    dep = row_store and fl.depends_on_param(row_store[0].value, fl.node_of(row_store[0]), min_size)
    if tests and dep:
        rep.ok(rid, f"get_minimized_cell: `{min_size}` is compared with the atomic extent and reaches the new basis vector")
    else:
        rep.violation(rid, "get_minimized_cell min_size", f"parameter `{min_size}` does not reach the new basis vector",
                      M.where(fq))


# ----------------------------------------------------------------------------- R20.7 wrappedness consistency / COM
def scaled_position_calls(M, fq, seen=None):
    """[(call, wrapped?)] of get_scaled_positions reachable from fq (through repo callees)"""
    seen = seen if seen is not None else set()
    if fq in seen:
        return []
    seen.add(fq)
    out = []
    for n in M.own_nodes(fq):
        if isinstance(n, ast.Call):
            if isinstance(n.func, ast.Attribute) and n.func.attr == "get_scaled_positions":
                kw = {k.arg: k.value for k in n.keywords}
                w = kw.get("wrap", n.args[0] if n.args else None)
                wrapped = not (isinstance(w, ast.Constant) and w.value is False)
                out.append((fq, n, wrapped))
            for c in M.callees_of_call(fq, n):
                out += scaled_position_calls(M, c, seen)
    return out


def r20_7(rep, M, rid):
    fq = GEO + ".get_minimized_cell"
    fn = M.func(fq)
    fl = Flow(fn)
    # the extent that decides the new cell length and the new positions must come from the same, unwrapped coordinates
    calls = scaled_position_calls(M, fq)
    bad = [(f, c) for f, c, w in calls if w]
    if not calls:
        raise AnalysisError("get_minimized_cell: get_scaled_positions not found")
    if bad:
        f, c = bad[0]
        rep.violation(rid, f"get_minimized_cell: `{norm(c)}` in {f.split('.')[-1]}", "the atomic extent / new coordinates are computed from *wrapped* "
                      "scaled positions while the function has to work for atoms outside the cell (it uses wrap=False elsewhere): for a periodic "
                      "axis with atoms outside [0,1) the new cell length is not the atomic extent and atoms end up outside the cell", M.where(f, c))
    else:
        rep.ok(rid, f"get_minimized_cell: all {len(calls)} scaled-position reads (incl. callees) are unwrapped")
    # centre of mass: circular mean exactly on the periodic components
    fq = GEO + ".get_center_of_mass"
    fn = M.func(fq)
    fl = Flow(fn)
    loops = [n for n in fn.body if isinstance(n, ast.For)]
    if len(loops) != 1 or not isinstance(loops[0].target, ast.Name):
        raise AnalysisError("get_center_of_mass: loop over the three components not found")
    lv = loops[0].target.id
    branches = [t for t in ast.walk(loops[0]) if isinstance(t, ast.If) and any(
        isinstance(c, ast.Call) and (M.ext_name(fq, c.func) or "").endswith("arctan2") for s2 in t.body for c in ast.walk(s2))]
    if not branches:
        raise AnalysisError("get_center_of_mass: circular-mean branch not found")
    t = branches[0]
    at = fl.node_of(t)
    sl = fl.slice(t.test, at)
    per_comp = any(isinstance(x, ast.Subscript) and norm(x.slice) == lv and any(
        isinstance(c, ast.Call) and isinstance(c.func, ast.Attribute) and c.func.attr == "get_pbc" for e2 in fl.slice(x.value, at)["exprs"] for c in ast.walk(e2))
        for e in sl["exprs"] for x in ast.walk(e))
    inside_loop = all(d != fl.cfg.entry and fl.cfg.reaches(fl.cfg.node_of[id(loops[0])], d) for v in [x.id for x in ast.walk(t.test) if isinstance(x, ast.Name)]
                      for d in fl.rd[at].get(v, ()))
    if per_comp and inside_loop:
        rep.ok(rid, f"get_center_of_mass: circular mean exactly where pbc[{lv}] of the same component is set")
    else:
        rep.violation(rid, "get_center_of_mass: periodic branch", f"the choice between circular mean and plain mean does not test the pbc flag of the "
                      f"component being computed (`{norm(t.test)}`): with mixed periodicity non-periodic components are folded into the cell",
                      M.where(fq, t))
    pos = [s2 for s2 in ast.walk(loops[0]) if isinstance(s2, ast.Assign) and isinstance(s2.value, ast.Subscript) and "[:, " in norm(s2.value)]
    stores = [s2 for s2 in ast.walk(loops[0]) if isinstance(s2, ast.Assign) and isinstance(s2.targets[0], ast.Subscript)]
    ok_idx = pos and all(norm(s2.value).endswith(f"[:, {lv}]") for s2 in pos) and stores and all(norm(s2.targets[0].slice) == lv for s2 in stores)
    orelse_mass = any("masses" in norm(s2) and "total_mass" in norm(s2) for s2 in t.orelse)
    body_mass = any("masses" in norm(s2) for s2 in t.body)
    if ok_idx and orelse_mass and body_mass:
        rep.ok(rid, "get_center_of_mass: component i reads column i and writes entry i; both branches are mass weighted")
    else:
        rep.violation(rid, "get_center_of_mass: component bookkeeping", f"column/entry index consistent: {bool(ok_idx)}; non-periodic branch mass weighted: "
                      f"{orelse_mass}; periodic branch mass weighted: {body_mass}", M.where(fq))


# ----------------------------------------------------------------------------- units: fractional vs length
def unit_of(M, fq, fl, e, at, depth=0):
    """'frac' (scaled coordinate), 'len' (cartesian length / vector), 'num' (pure number), 'proj' (orthogonal projection), None (unknown)"""
    if depth > 20:
        return None
    if isinstance(e, ast.Constant) and isinstance(e.value, (int, float)):
        return "num"
    if isinstance(e, ast.Name):
        if fl.cfg.entry in fl.rd[at].get(e.id, ()) and e.id in ("min_size",):
            return "len"
        us = set()
        for d in fl.rd[at].get(e.id, ()):
            if d == fl.cfg.entry:
                return None
            for kind, *rest in fl.def_value(d, e.id):
                if kind != "expr":
                    return None
                us.add(unit_of(M, fq, fl, rest[0], d, depth + 1))
        return us.pop() if len(us) == 1 else None
    if isinstance(e, ast.Subscript):
        return unit_of(M, fq, fl, e.value, at, depth + 1)
    if isinstance(e, ast.Call):
        f = e.func
        if isinstance(f, ast.Attribute) and f.attr == "get_scaled_positions":
            return "frac"
        if isinstance(f, ast.Attribute) and f.attr in ("get_cell", "get_positions"):
            return "len"
        name = M.ext_name(fq, f)
        if name == "numpy.linalg.norm":
            return unit_of(M, fq, fl, e.args[0], at, depth + 1)
        if name in ("numpy.zeros", "numpy.ones"):
            return None
        if name in ("numpy.dot", "numpy.matmul", "numpy.inner") and len(e.args) == 2:
            # cartesian vectors dotted with a dimensionless direction: an *orthogonal projection* (not an oblique component)
            us = {unit_of(M, fq, fl, e.args[0], at, depth + 1), unit_of(M, fq, fl, e.args[1], at, depth + 1)}
            if us == {"len", "num"}:
                return "proj"
            return None
        if name in ("numpy.array", "numpy.asarray", "numpy.abs", "numpy.max", "numpy.min", "numpy.amax", "numpy.amin", "numpy.ptp") and e.args:
            return unit_of(M, fq, fl, e.args[0], at, depth + 1)
        callees = M.callees_of_call(fq, e)
        if GEO + ".to_cartesian" in callees:
            return "len"
        if GEO + ".to_scaled" in callees:
            return "frac"
        if GEO + ".get_thickness" in callees:
            return "len"
        if isinstance(f, ast.Attribute) and f.attr in ("max", "min", "ptp", "copy") and not e.args:
            return unit_of(M, fq, fl, f.value, at, depth + 1)
        return None
    if isinstance(e, ast.UnaryOp):
        return unit_of(M, fq, fl, e.operand, at, depth + 1)
    if isinstance(e, ast.BinOp):
        a, b = unit_of(M, fq, fl, e.left, at, depth + 1), unit_of(M, fq, fl, e.right, at, depth + 1)
        if isinstance(e.op, (ast.Add, ast.Sub)):
            if a == b:
                return a
            if "num" in (a, b):
                return a if b == "num" else b
            return None
        if isinstance(e.op, ast.MatMult):
            return "proj" if {a, b} == {"len", "num"} else None
        if isinstance(e.op, ast.Mult):
            if {a, b} == {"frac", "len"}:
                return "len"
            if "num" in (a, b):
                return a if b == "num" else b
            return None
        if isinstance(e.op, ast.Div):
            if a == b and a in ("len", "frac"):
                return "num" if a == "frac" else "num"
            if b == "num":
                return a
            if a == "len" and b == "len":
                return "num"
            return None
    return None


def r20_units(rep, M, rid):
    """the atomic extent compared with min_size (a length in angstrom) must itself be a length"""
    fq = GEO + ".get_minimized_cell"
    fn = M.func(fq)
    fl = Flow(fn)
    ms = M.params(fq)[2]
    tests = [t for t in ast.walk(fn) if isinstance(t, ast.If) and isinstance(t.test, ast.Compare) and ms in {x.id for x in ast.walk(t.test) if isinstance(x, ast.Name)}]
    if not tests:
        raise AnalysisError("get_minimized_cell: comparison with min_size not found")
    for t in tests:
        at = fl.node_of(t)
        other = t.test.left if norm(t.test.comparators[0]) == ms else t.test.comparators[0]
        u = unit_of(M, fq, fl, other, at)
        if u == "len":
            rep.ok(rid, f"get_minimized_cell: `{norm(other)}` compared with `{ms}` is a cartesian length")
        elif u == "frac":
            rep.violation(rid, f"get_minimized_cell: `{norm(t.test)}`", f"`{norm(other)}` is a *fractional* extent but `{ms}` is a length in angstrom: in the 2D "
                          "pipeline the cell is much longer than the layer, the fractional extent is always < 1, so the cell is always inflated to "
                          "min_size and thicker layers end up outside it", M.where(fq, t))
        elif u == "proj":
            rep.violation(rid, f"get_minimized_cell: `{norm(other)}`", f"`{norm(other)}` is an orthogonal projection of cartesian positions onto the axis "
                          "direction; the extent that the new basis vector must cover is the spread of the *fractional* coordinate along that "
                          "(generally oblique) axis times its length - the two differ whenever the axis is not perpendicular to the other two "
                          "basis vectors (monoclinic, triclinic, hexagonal a/b), so atoms end up outside the minimized cell", M.where(fq, t))
        else:
            raise AnalysisError(f"get_minimized_cell: unit of `{norm(other)}` could not be inferred")


# ----------------------------------------------------------------------------- R20.6 complete_cell / inertia
def r20_6(rep, M, rid):
    fq = GEO + ".complete_cell"
    fn = M.func(fq)
    fl = Flow(fn)
    a, b, length = M.params(fq)[:3]
    rets = [s for s in M.own_nodes(fq) if isinstance(s, ast.Return)]
    for r in rets:
        sl = fl.slice(r.value, fl.node_of(r))
        cross = [c for e in sl["exprs"] for c in ast.walk(e) if isinstance(c, ast.Call) and resolver(M, fq)(c.func) == "numpy.cross"]
        nrm = [c for e in sl["exprs"] for c in ast.walk(e) if isinstance(c, ast.Call) and resolver(M, fq)(c.func) == "numpy.linalg.norm"]
        ok = (cross and {norm(x) for x in cross[0].args[:2]} == {a, b} and nrm and length in sl["params"]
              and any(isinstance(d, ast.BinOp) and isinstance(d.op, ast.Div) for e in sl["exprs"] for d in ast.walk(e)))
        if ok:
            rep.ok(rid, "complete_cell = length * cross(a, b) / |cross(a, b)|")
        else:
            rep.violation(rid, "complete_cell", "result is not the normalised cross product of both inputs scaled by `length`",
                          M.where(fq, r))
    fq = GEO + ".get_moments_of_inertia"
    fn = M.func(fq)
    fl = Flow(fn)
    rets = [s for s in M.own_nodes(fq) if isinstance(s, ast.Return)]
    com = [c for c in ast.walk(fn) if isinstance(c, ast.Call) and (GEO + ".get_center_of_mass") in M.callees_of_call(fq, c)]
    eig = [c for c in ast.walk(fn) if isinstance(c, ast.Call) and resolver(M, fq)(c.func) in ("numpy.linalg.eigh", "numpy.linalg.eig")]
    if com and eig:
        rep.ok(rid, "get_moments_of_inertia: eigen-decomposition about get_center_of_mass")
    else:
        rep.violation(rid, "get_moments_of_inertia", "does not take the eigen-decomposition about the periodic centre of mass",
                      M.where(fq))
    wt = M.params(fq)[1] if len(M.params(fq)) > 1 else None
    tests = [t for t in ast.walk(fn) if isinstance(t, ast.If) and isinstance(t.test, ast.Name) and t.test.id == wt]
    if tests and any(isinstance(c, ast.Call) and isinstance(c.func, ast.Attribute) and c.func.attr == "get_masses"
                     for s in tests[0].body for c in ast.walk(s)) and \
            not any(isinstance(c, ast.Call) and isinstance(c.func, ast.Attribute) and c.func.attr == "get_masses"
                    for s in tests[0].orelse for c in ast.walk(s)):
        rep.ok(rid, "get_moments_of_inertia: masses used exactly when `weight` is set")
    else:
        rep.violation(rid, "get_moments_of_inertia weight", "mass weighting does not follow the `weight` flag", M.where(fq))
    # the matrix handed to eigh is the inertia tensor: entry (r, c) = -sum w x_r x_c off the diagonal, sum w (x_a^2 + x_b^2) with {a, b} = the other two on it
    defs = {}
    for s2 in ast.walk(fn):
        if isinstance(s2, ast.Assign) and len(s2.targets) == 1 and isinstance(s2.targets[0], ast.Name):
            defs.setdefault(s2.targets[0].id, s2.value)
    col = {}
    for nm, v in defs.items():
        if isinstance(v, ast.Subscript) and isinstance(v.slice, ast.Tuple) and len(v.slice.elts) == 2 and isinstance(v.slice.elts[0], ast.Slice) \
                and isinstance(v.slice.elts[1], ast.Constant) and isinstance(v.slice.elts[1].value, int):
            col[nm] = v.slice.elts[1].value
    mats = [v for v in ast.walk(fn) if isinstance(v, ast.Call) and resolver(M, fq)(v.func) in ("numpy.array", "numpy.asarray") and v.args
            and isinstance(v.args[0], ast.List) and len(v.args[0].elts) == 3 and all(isinstance(r, ast.List) and len(r.elts) == 3 for r in v.args[0].elts)]
    if not mats or len(col) < 3:
        raise AnalysisError("get_moments_of_inertia: 3x3 tensor literal / coordinate columns not recognised")

    def columns_of(e):
        """multiset of coordinate columns multiplied in the summand of entry e, squares counted twice; None if not understood"""
        if isinstance(e, ast.Name):
            if e.id in col:
                return [[col[e.id]]]
            d0 = defs.get(e.id)
            if isinstance(d0, (ast.BinOp, ast.UnaryOp)) or (isinstance(d0, ast.Call) and ((resolver(M, fq)(d0.func) or "") == "numpy.sum"
                                                                                       or (isinstance(d0.func, ast.Attribute) and d0.func.attr == "sum"))):
                return columns_of(d0)
            return [[]]          # weights and other factors that are not coordinate columns
        if isinstance(e, ast.Call) and (resolver(M, fq)(e.func) or "") == "numpy.sum" and e.args:
            return columns_of(e.args[0])
        if isinstance(e, ast.Call) and isinstance(e.func, ast.Attribute) and e.func.attr == "sum" and not e.args:
            return columns_of(e.func.value)
        if isinstance(e, ast.UnaryOp):
            return columns_of(e.operand)
        if isinstance(e, ast.BinOp) and isinstance(e.op, ast.Pow) and isinstance(e.right, ast.Constant) and e.right.value == 2:
            a = columns_of(e.left)
            return [t + t for t in a] if a is not None else None
        if isinstance(e, ast.BinOp) and isinstance(e.op, ast.Mult):
            a, b = columns_of(e.left), columns_of(e.right)
            return [x + y for x in a for y in b] if a is not None and b is not None else None
        if isinstance(e, ast.BinOp) and isinstance(e.op, (ast.Add, ast.Sub)):
            a, b = columns_of(e.left), columns_of(e.right)
            return a + b if a is not None and b is not None else None
        return None
    rows = mats[0].args[0].elts
    # exact polynomial of every entry in the symbols x0, x1, x2 (coordinate columns relative to the centre) and w (weights)
    wnames = {nm for nm, v in defs.items() if isinstance(v, ast.Call) and ((isinstance(v.func, ast.Attribute) and v.func.attr == "get_masses")
                                                                       or (resolver(M, fq)(v.func) or "") in ("numpy.ones", "numpy.ones_like"))}

    def poly(e, depth=0):
        if depth > 12:
            return None
        if isinstance(e, ast.Name):
            if e.id in col:
                return {(f"x{col[e.id]}",): 1}
            if e.id in wnames:
                return {("w",): 1}
            d0 = defs.get(e.id)
            return poly(d0, depth + 1) if d0 is not None else None
        if isinstance(e, ast.Constant) and isinstance(e.value, (int, float)):
            return {(): e.value}
        if isinstance(e, ast.Call) and (resolver(M, fq)(e.func) or "") == "numpy.sum" and e.args:
            return poly(e.args[0], depth + 1)
        if isinstance(e, ast.Call) and isinstance(e.func, ast.Attribute) and e.func.attr == "sum" and not e.args:
            return poly(e.func.value, depth + 1)
        if isinstance(e, ast.UnaryOp) and isinstance(e.op, ast.USub):
            a0 = poly(e.operand, depth + 1)
            return None if a0 is None else {k: -v for k, v in a0.items()}
        if isinstance(e, ast.BinOp) and isinstance(e.op, ast.Pow) and isinstance(e.right, ast.Constant) and e.right.value == 2:
            return poly(ast.BinOp(left=e.left, op=ast.Mult(), right=e.left), depth + 1)
        if isinstance(e, ast.BinOp) and isinstance(e.op, (ast.Add, ast.Sub, ast.Mult)):
            a0, b0 = poly(e.left, depth + 1), poly(e.right, depth + 1)
            if a0 is None or b0 is None:
                return None
            if isinstance(e.op, ast.Mult):
                r0 = {}
                for k1, v1 in a0.items():
                    for k2, v2 in b0.items():
                        k = tuple(sorted(k1 + k2))
                        r0[k] = r0.get(k, 0) + v1 * v2
                return {k: v for k, v in r0.items() if v}
            sg = 1 if isinstance(e.op, ast.Add) else -1
            r0 = dict(a0)
            for k, v in b0.items():
                r0[k] = r0.get(k, 0) + sg * v
            return {k: v for k, v in r0.items() if v}
        return None
    for r in range(3):
        for c in range(3):
            got = poly(rows[r].elts[c])
            if got is None:
                raise AnalysisError(f"get_moments_of_inertia: entry ({r + 1},{c + 1}) `{norm(rows[r].elts[c])}` not understood")
            others = sorted(set(range(3)) - {r})
            want = {tuple(sorted(("w", f"x{r}", f"x{c}"))): -1} if r != c else {tuple(sorted(("w", f"x{o}", f"x{o}"))): 1 for o in others}
            shown = " + ".join(f"{v}*{'*'.join(k)}" for k, v in sorted(got.items()))
            if got == want:
                rep.ok(rid, f"get_moments_of_inertia: tensor entry ({r + 1},{c + 1}) = sum of {shown}")
            else:
                rep.violation(rid, f"get_moments_of_inertia: tensor entry ({r + 1},{c + 1})", f"`{norm(rows[r].elts[c])}` is the sum of {shown or '(not a polynomial)'}; the inertia "
                              f"tensor has {'-w*x_r*x_c' if r != c else 'w*(x_a^2 + x_b^2) with a, b the other two axes'} there: the matrix given to eigh is not the inertia "
                              "tensor, so eigenvalues and axes are wrong", M.where(fq, rows[r].elts[c]))
    # the coordinates are taken relative to the centre: positions - centre
    rel = next((v for v in defs.values() if isinstance(v, ast.BinOp) and any(isinstance(x, ast.Name) and defs.get(x.id) is not None and isinstance(defs[x.id], ast.Call)
                                                                           and isinstance(defs[x.id].func, ast.Attribute) and defs[x.id].func.attr == "get_positions"
                                                                           for x in (v.left, v.right))), None)
    if rel is not None:
        if isinstance(rel.op, ast.Sub) and isinstance(rel.left, ast.Name) and isinstance(defs.get(rel.left.id), ast.Call) and defs[rel.left.id].func.attr == "get_positions":
            rep.ok(rid, f"get_moments_of_inertia: coordinates relative to the centre (`{norm(rel)}`)")
        else:
            rep.violation(rid, f"get_moments_of_inertia: `{norm(rel)}`", "the coordinates entering the tensor are not positions minus the centre", M.where(fq, rel))


def run(rep, ctx):
    M = ctx.model
    E = Effects(M)
    rep.explanation = ("call/return-shape conformance of every resolved intra-repo call; control dependence of the wrapping "
                       "statements on the per-component pbc flag; transpose/inverse convention normal forms of to_scaled / "
                       "to_cartesian; effect analysis of swap_basis and get_minimized_cell")
    rep.assumptions = ["numpy/ASE API tables in vstatic.effects", "algebraic identities on values are not decided"]
    rep.rule("R20.1", "every resolved call made from the geometry module conforms to its callee's signature (no TypeError on any path)")
    rep.rule("R20.2", "wrapping changes only periodic components, and only when asked")
    rep.rule("R20.3", "swap_basis exchanges cell vectors and pbc flags on copies and never moves atoms")
    rep.rule("R20.4", "get_minimized_cell returns new atoms, carries pbc/species, changes only the chosen basis row, honours min_size")
    rep.rule("R20.5", "to_cartesian = X.C and to_scaled = X.C^-1 (mutual inverses, row-vector convention)")
    rep.rule("R20.6", "complete_cell is the scaled unit normal; the inertia tensor is decomposed about the periodic centre of mass")
    rep.rule("R20.7", "get_minimized_cell works on unwrapped coordinates throughout; the centre of mass uses the circular mean exactly on periodic components")
    with rep.guard("R20.1"):
        n = sigs.run(rep, M, "R20.1", scope={q for q in M.functions() if q.startswith(GEO + ".")})
        rep.floor("R20.1", 30)
    with rep.guard("R20.2"):
        r20_2(rep, M, "R20.2")
    with rep.guard("R20.3"):
        r20_3(rep, M, E, "R20.3")
    with rep.guard("R20.4"):
        r20_4(rep, M, E, "R20.4")
    with rep.guard("R20.5"):
        r20_5(rep, M, "R20.5", sites_not_in=(GEO + ".get_matches", GEO + ".get_matches_simple"))      # those two sites are C16's
    with rep.guard("R20.6"):
        r20_6(rep, M, "R20.6")
    with rep.guard("R20.7"):
        r20_7(rep, M, "R20.7")
    with rep.guard("R20.4"):
        r20_units(rep, M, "R20.4")
    rep.rule("R20.8", "no function keeps results in module-level state or functools caches (answers do not depend on what the process analysed before)")
    with rep.guard("R20.8"):
        from .. import symrules as _SRms
        _SRms.module_state(rep, ctx.model, "R20.8", _SRms.GEOMETRY_SIDE)
    rep.floor("R20.7", 3)
    rep.floor("R20.2", 4)
    rep.floor("R20.3", 5)
    rep.floor("R20.4", 6)


META = {
    "level": "other",
    "text": "static rules on the helper functions: signature conformance of all resolved calls (the way "
            "get_moments_of_inertia failed for every input), control dependence of wrapping on the component's pbc flag, "
            "normal forms of the matrix conventions (to_scaled is the algebraic inverse of to_cartesian for every cell), "
            "effect/def-use rules for swap_basis and get_minimized_cell. Value-level identities (exact lengths, centring) "
            "are not decided."
            " Also: get_minimized_cell reads only unwrapped scaled positions (including through callees), the centre of mass uses the circular mean exactly on the component's own pbc flag, to_scaled/to_cartesian normal forms, complete_cell = scaled unit normal of the raw inputs.",
    "note": "trusted: CPython ast, the repository model's call resolution, the numpy/ASE API tables of the effect analysis; "
            "free-algebra normal forms assume np.dot/solve/inv/.T have their documented meaning.",
    "technique": "signature conformance over the resolved call graph + control-dependence + matrix-convention normal forms + effect analysis",
}
