"""C12 - original / primitive / conventional descriptions are mutually consistent (structural clauses)."""
import ast

from .. import symrules as SR
from ..dataflow import Flow
from ..model import norm
from ..report import AnalysisError

SA = SR.SA


def r12_4(rep, M, rid):
    """the three letter getters apply one and the same normalizer permutation"""
    fq = SA + ".get_wyckoff_letters_original"
    fn = M.func(fq)
    fl = Flow(fn)
    rets = [r for r in M.own_nodes(fq) if isinstance(r, ast.Return)]
    ok = False
    for r in rets:
        sl = fl.slice(r.value, fl.node_of(r))
        perm = any(isinstance(x, ast.Subscript) and isinstance(x.slice, ast.Constant) and x.slice.value == "permutations"
                   and isinstance(x.value, ast.Attribute) and x.value.attr == "_best_transform" for e in sl["exprs"] for x in ast.walk(e))
        src = any(isinstance(c, ast.Call) and isinstance(c.func, ast.Attribute) and c.func.attr == "_get_spglib_wyckoff_letters_original"
                  for e in sl["exprs"] for c in ast.walk(e))
        ok = ok or (perm and src)
    ensure = any(isinstance(t, ast.If) and "_best_transform" in norm(t.test) and any(
        isinstance(c, ast.Call) and isinstance(c.func, ast.Attribute) and c.func.attr == "get_conventional_system" for s in t.body for c in ast.walk(s))
        for t in ast.walk(fn))
    if ok and ensure:
        rep.ok(rid, "original letters = chosen permutation applied to spglib's letters (normalizer search forced first)")
    else:
        rep.violation(rid, "get_wyckoff_letters_original", "does not map spglib's letters of the original atoms through the permutation of "
                      "the chosen normalizer (self._best_transform)", M.where(fq))
    fq = SA + ".get_primitive_system"
    fn = M.func(fq)
    calls = M.calls_to(fq, SA + "._get_primitive_system")
    if not calls:
        raise AnalysisError("get_primitive_system: call of _get_primitive_system not found")
    fl = Flow(fn)
    b = M.bind_args(SA + "._get_primitive_system", calls[0])
    at = fl.node_of(calls[0])
    want = {"conv_system": "get_conventional_system", "conv_wyckoff": "get_wyckoff_letters_conventional",
            "conv_equivalent": "get_equivalent_atoms_conventional", "space_group_international_short": "get_space_group_international_short"}
    for p, getter in want.items():
        a = b.get(p)
        got = [c.func.attr for c in fl.calls_in_slice(a, at) if isinstance(c.func, ast.Attribute)] if a is not None else []
        if getter in got:
            rep.ok(rid, f"get_primitive_system: {p} <- self.{getter}()")
        else:
            rep.violation(rid, f"get_primitive_system: {p}", f"is fed by {got or None}, not by self.{getter}(): the primitive description "
                          "is not derived from the (normalizer-transformed) conventional one", M.where(fq, calls[0]))
    # which spglib field the equivalence classes come from is not part of C12: classes that are finer than the crystallographic orbits
    # still share element and letter and leave the (letter, element) counts alone (that clause belongs to C06/C07)


def run(rep, ctx):
    M, T = ctx.model, ctx.tables
    rep.explanation = ("exact evaluation of the centring transformation matrices from the AST against the centring vectors of all "
                       "230 groups; transpose/inverse normal forms of the cell conversion; index-space typing "
                       "{original, primitive, conventional} of the getters; provenance of the letter getters")
    rep.assumptions = ["spglib field semantics: mapping_to_primitive: original->primitive, std_mapping_to_primitive: conventional->primitive, "
                       "wyckoffs/crystallographic_orbits indexed by original atoms"]
    rep.rule("R12.1", "every centring matrix spans exactly the centred lattice of its groups with det = 1/multiplicity")
    rep.rule("R12.2", "cell and coordinate conversion follow the row-vector convention; primitive atoms are wrapped")
    rep.rule("R12.3", "every getter returns an array over the index space its name states; one mask slices all per-atom arrays")
    rep.rule("R12.4", "original, primitive and conventional letters carry the same normalizer permutation")
    with rep.guard("R12.1"):
        SR.centring_matrices(rep, M, T, "R12.1")
    with rep.guard("R12.2"):
        SR.primitive_conversion(rep, M, "R12.2")
        from . import c05 as _c05
        _c05.r05_5b(rep, M, "R12.2")
    with rep.guard("R12.3"):
        SR.index_spaces(rep, M, "R12.3")
    with rep.guard("R12.4"):
        r12_4(rep, M, "R12.4")
        from .. import symrules as _SRg
        _SRg.ground_state_consistency_raises(rep, M, "R12.4")
        _SRg.lazy_init_polarity(rep, M, "R12.4", ["get_wyckoff_letters_original"])
        SR.letter_spaces(rep, M, "R12.4")
    rep.rule("R12.5", "every memoised result of the analyzer is dropped by reset(), which set_system() calls (no answers for a previous structure)")
    with rep.guard("R12.5"):
        from .. import symrules as _SR
        _SR.reset_covers_caches(rep, ctx.model, "R12.5")
    rep.rule("R12.6", "cached systems handed out by the analyzer are never modified afterwards")
    with rep.guard("R12.6"):
        from .. import symrules as _SR3
        _SR3.handed_out_objects_not_mutated(rep, ctx.model, "R12.6", three_d_only=True)
    rep.rule("R12.7", "spglib is given the analysed structure unmodified with the analyzer's tolerance, and its standardised lattice / positions / types are used without a change of convention (shared with C05)")
    with rep.guard("R12.7"):
        from . import shared as _shb
        _shb.spglib_boundary(rep, ctx.model, "R12.7", order=True)
    rep.floor("R12.7", 7)
    rep.rule("R12.8", "every tabulated normalizer is an automorphism of its group and an isometry of the lattice (the normalised cell is the same crystal in the same space group; shared with C05/C14)")
    from . import shared as _shn
    _shn.normalizer_tables(rep, ctx.tables, "R12.8", perm=False)  # all three descriptions read one and the same permutation dict: its content cannot make them disagree
    rep.floor("R12.8", 2400)
    rep.floor("R12.1", 230)
    rep.floor("R12.2", 5)
    rep.floor("R12.3", 8)
    rep.floor("R12.4", 6)


META = {
    "level": "other",
    "text": "static rules: the five hand-written centring matrices are evaluated exactly and shown, for each of the 230 groups, "
            "to generate the centred lattice with the right covolume (so the primitive cell has volume and atom count divided by "
            "1, 2, 3 or 4); the coordinate conversion is checked by convention normal forms; the getters are typed in a "
            "three-space index discipline so a swapped spglib mapping is a type error. Per-atom consistency for a concrete "
            "crystal depends on spglib at run time and is not decided."
            " Also: the code path from centring letter to matrix is constant-folded (a remapping such as A->C is evaluated), the original letters are typed in a letter-space discipline (OLD/NEW) so an inverted permutation is a type error, orbits come from crystallographic_orbits, memo coherence with reset().",
    "note": "trusted: spglib's documented field semantics and Hall database; centring vectors as tabulated in WYCKOFF_SETS "
            "(themselves checked against the reference orbits under C14); CPython ast.",
    "technique": "exact evaluation of literal matrices + matrix-convention normal forms + index-space type discipline",
}
