"""Rule bundles for helper functions that several properties rest on (a change in a helper breaks every property built on it)."""
from . import c01, c09, c10, c19, c20


def radii(rep, M, rid):
    c19.r19_1_scan(rep, M, rid)
    c19.r19_presets(rep, M, rid, rid)
    c19.r19_3(rep, M, rid)


def dimensionality(rep, M, rid, caller_wraps=False):
    c09.r09_1(rep, M, rid, caller_wraps=caller_wraps)
    c09.r09_2(rep, M, rid)
    c09.r09_3(rep, M, rid)
    c09.r09_6(rep, M, rid)
    c01.r01_8_components(rep, M, rid, shortcut=False)


def distances(rep, M, rid):
    from .. import symrules as _SRm
    c10.r10_1(rep, M, rid)
    c10.r10_5(rep, M, rid)
    _SRm.module_state(rep, M, rid, _SRm.GEOMETRY_SIDE)


def frames(rep, M, rid):
    c20.r20_2(rep, M, rid)
    c20.r20_5(rep, M, rid)


def normal_form(rep, M, rid, ranking=True):
    """ranking=False: only the consistency of letters / positions / sets is needed by the borrowing property, not *which* of the equivalent
    candidates is chosen (canonical order of the ranking, id construction)"""
    from . import c05, c06, c07
    from .. import symrules as SR
    if ranking:
        c06.r06_2(rep, M, rid)
        c06.r06_3(rep, M, rid)
        for k, v in sorted(c05.first_wins_guard(M).items()):
            if v:
                rep.ok(rid, f"_find_wyckoff_ground_state: {k}")
            else:
                rep.violation(rid, f"_find_wyckoff_ground_state: {k}", "candidate construction / selection is not (identity first, table order, every candidate ranked, "
                              "first of equals chosen)", M.where(SR.GS))
    c07.r07_2(rep, M, rid)
    c07.r07_3(rep, M, rid, representative=not ranking)
    SR.ground_state_consistency_raises(rep, M, rid)
    SR.index_spaces(rep, M, rid)
    SR.orbit_source(rep, M, rid)


def spglib_boundary(rep, M, rid, back=True, order=False, tolerance=True):
    """what goes into spglib is the analysed structure unmodified (cell, scaled positions, numbers of one object), the analyzer's tolerance
    reaches it, and what comes back (std_lattice, std_positions, std_types) is used without a change of convention"""
    from . import c05
    from .. import symrules as SR
    c05.r05_5(rep, M, rid, order_matters=order)
    if back:
        # how the standardised lattice is turned into a system matters only where the geometry of the returned cells is observed
        c05.r05_5b(rep, M, rid)
    if tolerance:
        SR.tolerance_reaches_spglib(rep, M, rid)


def normalizer_tables(rep, T, rid, perm=True):
    """every tabulated normalizer is an integral affine map on the 1/24 grid, an automorphism of the reference group and an isometry of a
    generic lattice of the crystal system (so the normalised cell is the same crystal with the same space group); optionally also the
    induced letter permutation"""
    from .. import tableobl as TO
    TO.norm_shape(rep, T, rid)
    TO.norm_conjugation(rep, T, rid)
    TO.norm_metric(rep, T, rid)
    if perm:
        TO.norm_perm(rep, T, rid)


def dimensionality_first_evaluation(rep, M, rid):
    """the part of get_dimensionality that a caller with a precomputed 1x matrix skips: the 1x minimum-image evaluation (wrapped positions,
    cutoff, cell of the same object). Only this part can make the shortcut of a Cluster differ from the direct evaluation of its atoms -
    everything after it is shared by both."""
    c09.r09_1(rep, M, rid)
    c09.r09_2(rep, M, rid, only_first=True)
    c09.r09_6(rep, M, rid, only_first=True)
