"""Rule bundles for helper functions that several properties rest on (a change in a helper breaks every property built on it)."""
from . import c01, c09, c10, c19, c20


def radii(rep, M, rid):
    c19.r19_1_scan(rep, M, rid)
    c19.r19_presets(rep, M, rid, rid)
    c19.r19_3(rep, M, rid)


def dimensionality(rep, M, rid):
    c09.r09_1(rep, M, rid)
    c09.r09_2(rep, M, rid)
    c09.r09_3(rep, M, rid)
    c01.r01_8_components(rep, M, rid)


def distances(rep, M, rid):
    c10.r10_1(rep, M, rid)
    c10.r10_5(rep, M, rid)


def frames(rep, M, rid):
    c20.r20_2(rep, M, rid)
    c20.r20_5(rep, M, rid)


def normal_form(rep, M, rid):
    from . import c05, c06, c07
    from .. import symrules as SR
    c06.r06_2(rep, M, rid)
    c06.r06_3(rep, M, rid)
    for k, v in sorted(c05.first_wins_guard(M).items()):
        if v:
            rep.ok(rid, f"_find_wyckoff_ground_state: {k}")
        else:
            rep.violation(rid, f"_find_wyckoff_ground_state: {k}", "candidate construction / selection is not (identity first, table order, every candidate ranked, "
                          "first of equals chosen)", M.where(SR.GS))
    c07.r07_2(rep, M, rid)
    c07.r07_3(rep, M, rid)
    SR.index_spaces(rep, M, rid)
    SR.orbit_source(rep, M, rid)
