"""C08 - reported free Wyckoff parameters regenerate the atoms of their set."""
import ast
from fractions import Fraction as F

from .. import tableobl as TO
from ..dataflow import Flow
from ..model import norm
from ..report import AnalysisError
from ..tables import frac24, letters_of

SA = "matid.symmetry.symmetryanalyzer.SymmetryAnalyzer"
FQ = SA + "._get_wyckoff_sets"


# ----------------------------------------------------------------------------- R08.2
def find_solver(M):
    """recognise   for idx, var in variable_map.items(): for icomp in range(3): if GUARD: W[idx] = RHS; break
    -> dict(idx, icomp, guard=(kind, const), r_index, c_index, scaled(bool), has_break, stmt)"""
    fn = M.func(FQ)
    cands = []
    for outer in ast.walk(fn):
        if not (isinstance(outer, ast.For) and isinstance(outer.target, ast.Tuple) and len(outer.target.elts) == 2):
            continue
        if not (isinstance(outer.iter, ast.Call) and isinstance(outer.iter.func, ast.Attribute) and outer.iter.func.attr == "items"):
            continue
        idx = norm(outer.target.elts[0])
        for inner in outer.body:
            if not (isinstance(inner, ast.For) and isinstance(inner.target, ast.Name) and isinstance(inner.iter, ast.Call)
                    and isinstance(inner.iter.func, ast.Name) and inner.iter.func.id == "range"
                    and len(inner.iter.args) == 1 and isinstance(inner.iter.args[0], ast.Constant) and inner.iter.args[0].value == 3):
                continue
            icomp = inner.target.id
            for st in inner.body:
                if not isinstance(st, ast.If):
                    continue
                for s in st.body:
                    if isinstance(s, ast.Assign) and isinstance(s.targets[0], ast.Subscript) and norm(s.targets[0].slice) == idx:
                        cands.append((outer, inner, st, s, idx, icomp))
    if len(cands) != 1:
        raise AnalysisError(f"_get_wyckoff_sets: expected one variable-extraction statement `W[idx] = ...`, found {len(cands)}")
    outer, inner, st, s, idx, icomp = cands[0]
    wname = norm(s.targets[0].value)
    # guard: M[idx][icomp] == 1   or   M[idx][icomp] != 0
    g = st.test
    if not (isinstance(g, ast.Compare) and len(g.ops) == 1 and isinstance(g.comparators[0], ast.Constant)):
        raise AnalysisError(f"solver guard `{norm(g)}` not modelled")
    gl = g.left
    if not (isinstance(gl, ast.Subscript) and isinstance(gl.value, ast.Subscript)
            and norm(gl.value.slice) == idx and norm(gl.slice) == icomp):
        raise AnalysisError(f"solver guard `{norm(g)}` is not a test of M[{idx}][{icomp}]")
    mname = norm(gl.value.value)
    gop = type(g.ops[0]).__name__
    gconst = g.comparators[0].value
    if (gop, gconst) not in (("Eq", 1), ("Eq", 1.0), ("NotEq", 0), ("NotEq", 0.0)):
        raise AnalysisError(f"solver guard `{norm(g)}` not modelled")
    # RHS: (R[i] - C[j]) [/ M[idx][icomp]]
    rhs = s.value
    scaled = False
    if isinstance(rhs, ast.BinOp) and isinstance(rhs.op, ast.Div):
        if norm(rhs.right) != f"{mname}[{idx}][{icomp}]":
            raise AnalysisError(f"solver divides by `{norm(rhs.right)}`: not modelled")
        scaled = True
        rhs = rhs.left
    if not (isinstance(rhs, ast.BinOp) and isinstance(rhs.op, ast.Sub) and isinstance(rhs.left, ast.Subscript)
            and isinstance(rhs.right, ast.Subscript)):
        raise AnalysisError(f"solver right-hand side `{norm(s.value)}` is not of the form R[i] - C[j]")
    ri, ci = norm(rhs.left.slice), norm(rhs.right.slice)
    if ri not in (idx, icomp) or ci not in (idx, icomp):
        raise AnalysisError(f"solver indices `{ri}`, `{ci}` not modelled")
    rname, cname = norm(rhs.left.value), norm(rhs.right.value)
    has_break = any(isinstance(x, ast.Break) for x in st.body)
    # M, C must be the first representative: M = Ms[0], C = Cs[0]; Ms/Cs = wyckoff_info["matrices"/"constants"]
    fl = Flow(fn)
    at = fl.node_of(s)

    def first_of(name, key):
        sl = fl.slice(ast.Name(id=name, ctx=ast.Load()), at, follow_mutations=False)
        zero = any(isinstance(x, ast.Subscript) and isinstance(x.slice, ast.Constant) and x.slice.value == 0
                   for e in sl["exprs"] for x in ast.walk(e))
        k = any(isinstance(x, ast.Constant) and x.value == key for e in sl["exprs"] for x in ast.walk(e))
        return zero and k
    return dict(idx=idx, icomp=icomp, guard=(gop, gconst), r=("idx" if ri == idx else "icomp"),
                c=("idx" if ci == idx else "icomp"), scaled=scaled, has_break=has_break, stmt=s,
                first_M=first_of(mname, "matrices"), first_C=first_of(cname, "constants"),
                text=f"if {norm(g)}: {norm(s)}" + ("; break" if has_break else ""))


def r08_2(rep, M, T, rid):
    sv = find_solver(M)
    rep.note(f"solver recognised: {sv['text']}")
    if not (sv["first_M"] and sv["first_C"]):
        rep.violation(rid, "solver operands", "M / C used by the solver are not the first representative "
                      "(matrices[0], constants[0]) of the position", M.where(FQ, sv["stmt"]))
    W = T["WYCKOFF_SETS"]
    n = 0
    for g in range(1, 231):
        wg = W.get(g, {})
        for L in letters_of(wg):
            info = wg[L]
            try:
                M0 = [[F(x).limit_denominator(1000) for x in row] for row in info["matrices"][0]]
                C0 = [frac24(float(x)) for x in info["constants"][0]]
                variables = info["variables"]
            except (KeyError, IndexError, TypeError, ValueError):
                continue
            if any(c is None for c in C0):
                continue    # reported by R08.1
            for vi, v in enumerate("xyz"):
                if v not in variables:
                    continue
                n += 1
                key = f"WYCKOFF_SETS[{g}][{L!r}] variable {v}"
                # simulate the guard scan over the components (exact table values)
                fired = []
                for ic in range(3):
                    m = M0[vi][ic]
                    hit = (m == 1) if sv["guard"][0] == "Eq" else (m != 0)
                    if hit:
                        fired.append(ic)
                        if sv["has_break"]:
                            break
                if not fired:
                    rep.violation(rid, key, f"no component of the first expression {info['expressions'][0]} passes the solver's "
                                  f"guard: the variable is never extracted")
                    continue
                ic = fired[-1]
                a = vi if sv["r"] == "idx" else ic
                b = vi if sv["c"] == "idx" else ic
                scale = M0[vi][ic] if sv["scaled"] else F(1)
                probs = []
                if M0[vi][a] != scale:
                    probs.append(f"reads component {a} where the coefficient of {v} is {M0[vi][a]}, not {scale}")
                for ov, on in enumerate("xyz"):
                    if ov != vi and M0[ov][a] != 0:
                        probs.append(f"component {a} also depends on {on}")
                if (C0[a] - C0[b]).denominator != 1:
                    probs.append(f"subtracts the constant of component {b} ({C0[b]}) from component {a} (constant {C0[a]})")
                if probs:
                    rep.violation(rid, key, f"with R = W.M + C for the first expression {info['expressions'][0]} the solver "
                                  f"`{sv['text']}` does not return {v}: " + "; ".join(probs))
                else:
                    rep.ok(rid, key)
    rep.count("free_variables_checked", n)


# ----------------------------------------------------------------------------- R08.4
def r08_4(rep, M, rid):
    fn = M.func(FQ)
    fl = Flow(fn)
    sets = [c for c in ast.walk(fn) if isinstance(c, ast.Call) and isinstance(c.func, ast.Name) and c.func.id == "setattr"]
    if not sets:
        raise AnalysisError("_get_wyckoff_sets: setattr(wset, var, value) not found")
    for c in sets:
        at = fl.node_of(c)
        calls = fl.calls_in_slice(c.args[2], at)
        wrapped = any("matid.geometry.geometry.get_wrapped_positions" in M.callees_of_call(FQ, k) for k in calls)
        if wrapped:
            rep.ok(rid, "stored Wyckoff variables pass through get_wrapped_positions (values in [0, 1))")
        else:
            rep.violation(rid, "setattr(wset, var, value)", f"`{norm(c.args[2])}` is stored without passing through "
                          "get_wrapped_positions: reported parameters can lie outside [0, 1)", M.where(FQ, c))
        # only variables present in the position are stored
        conds = fl.cfg.branch_conditions(at)
        loop = [t for t, pol in conds if isinstance(t, ast.For) and pol is True and norm(c.args[1]) in
                [x.id for x in ast.walk(t.target) if isinstance(x, ast.Name)]]
        ok = False
        if loop:
            sl = fl.slice(loop[0].iter, fl.node_of(loop[0]))
            ok = any(isinstance(x, ast.Constant) and x.value == "variables" for e in sl["exprs"] for x in ast.walk(e))
            # the map is filled under a membership test in the tabulated variables
            fills = [s for s in ast.walk(fn) if isinstance(s, ast.Assign) and isinstance(s.targets[0], ast.Subscript)
                     and any(norm(s.targets[0].value) == norm(x) for x in ast.walk(loop[0].iter) if isinstance(x, ast.Name))]
            guarded = fills and all(any(isinstance(t, ast.If) and isinstance(t.test, ast.Compare) and isinstance(t.test.ops[0], ast.In)
                                        for t, pol in fl.cfg.branch_conditions(fl.node_of(s)) if pol is True) for s in fills)
            ok = ok or guarded
            if fills and not guarded:
                ok = False
        if ok:
            rep.ok(rid, "parameters are stored exactly for the variables tabulated as free in the position")
        else:
            rep.violation(rid, "setattr(wset, var, value) variable filter", "the stored attribute names are not restricted to the "
                          "position's tabulated `variables`", M.where(FQ, c))
    # verification of a candidate against all expressions and centring translations
    wf = [s for s in ast.walk(fn) if isinstance(s, ast.Assign) and norm(s.targets[0]) == "W_final" and not isinstance(s.value, ast.Constant)]
    srch = [c for c in ast.walk(fn) if isinstance(c, ast.Call) and isinstance(c.func, ast.Attribute) and c.func.attr == "_search_periodic_positions"]
    guarded = [s for s in wf if any(isinstance(t, ast.If) and pol is True and isinstance(t.test, ast.Name)
                                    for t, pol in fl.cfg.branch_conditions(fl.node_of(s)))]
    trans = any(isinstance(x, ast.Constant) and x.value == "translations" for x in ast.walk(fn))
    if len(srch) >= 2 and guarded and trans:
        rep.ok(rid, "a candidate is accepted only after all generated positions (incl. centring translations) were matched")
    else:
        rep.violation(rid, "candidate verification", "candidate variables are accepted without matching every generated position "
                      "against the structure", M.where(FQ))
    # the free-parameter flag
    f2 = SA + ".get_has_free_wyckoff_parameters"
    fn2 = M.func(f2)
    fl2 = Flow(fn2)
    loops = [n for n in ast.walk(fn2) if isinstance(n, ast.For)]
    if not loops:
        raise AnalysisError("get_has_free_wyckoff_parameters: loop over letters not found")
    sl = fl2.slice(loops[0].iter, fl2.node_of(loops[0]))
    perm = any(isinstance(c, ast.Call) and isinstance(c.func, ast.Attribute) and c.func.attr == "get_wyckoff_letters_original"
               for e in sl["exprs"] for c in ast.walk(e))
    var = any(isinstance(x, ast.Constant) and x.value == "variables" for x in ast.walk(fn2))
    rets = [r for r in ast.walk(fn2) if isinstance(r, ast.Return)]
    shape = any(isinstance(r.value, ast.Constant) and r.value.value is True for r in rets) and \
        any(isinstance(r.value, ast.Constant) and r.value.value is False for r in rets)
    if perm and var and shape:
        rep.ok(rid, "free-parameter flag: True iff a (permuted) occupied letter has tabulated variables")
    else:
        rep.violation(rid, "get_has_free_wyckoff_parameters", "does not read `variables` of the letters after the normalizer "
                      "permutation (get_wyckoff_letters_original)", M.where(f2))


def run(rep, ctx):
    M, T = ctx.model, ctx.tables
    rep.exhaustive = True
    rep.explanation = ("exhaustive exact comparison of expressions/matrices/constants (every component of every position), "
                       "algebraic validation of the recognised variable-extraction statement against the first representative "
                       "of all positions, orbit closure, and def-use rules for wrapping / storing the parameters")
    rep.assumptions = ["spglib Hall database = standard setting", "tolerance behaviour of _search_periodic_positions on noisy input is not decided"]
    rep.trusted_base = ["spglib Hall database", "fractions", "CPython ast"]
    rep.rule("R08.1", "expressions == matrices == constants == variables for every component (1731 positions)")
    rep.rule("R08.2", "the variable-extraction statement returns the variable for the first representative of every position")
    rep.rule("R08.3", "every position is one closed orbit of the reference group (so the generated test positions are the set)")
    rep.rule("R08.4", "parameters are wrapped into [0,1), stored only for tabulated variables, accepted only after full verification; flag reads the same table")
    TO.expr_matrices(rep, T, "R08.1")
    with rep.guard("R08.2"):
        r08_2(rep, M, T, "R08.2")
    TO.orbit_closure(rep, T, "R08.3")
    with rep.guard("R08.4"):
        r08_4(rep, M, "R08.4")
    rep.floor("R08.1", 26000)
    rep.floor("R08.2", 1500)
    rep.floor("R08.3", 1700)
    rep.floor("R08.4", 4)


META = {
    "level": "other",
    "text": "exhaustive static obligations over all 1731 tabulated Wyckoff positions (exact arithmetic): the numeric "
            "matrices/constants equal the algebraic expressions, each position is a closed orbit, and the parameter solver "
            "in _get_wyckoff_sets - recognised from its AST - provably inverts the first representative of every position; "
            "plus def-use rules for wrapping/storing. These are necessary for 'asking for the parameters succeeds and "
            "regenerates the atoms' for every (group, letter); tolerance behaviour on noisy input is not decided.",
    "note": "trusted: spglib Hall database (standard setting), fractions/numpy integer arithmetic, CPython ast; the solver is "
            "validated algebraically from its recognised index pattern, never executed.",
    "technique": "exact table obligations + algebraic validation of a recognised solver statement + def-use rules",
}
