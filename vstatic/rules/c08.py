"""C08 - reported free Wyckoff parameters regenerate the atoms of their set."""
import ast
import re
from fractions import Fraction as F

from .. import tableobl as TO
from ..dataflow import Flow
from ..model import norm
from ..report import AnalysisError
from ..tables import frac24, letters_of

SA = "matid.symmetry.symmetryanalyzer.SymmetryAnalyzer"
FQ = SA + "._get_wyckoff_sets"


class SolverSign(Exception):
    """the solver adds the constant of the expression instead of subtracting it"""


# ----------------------------------------------------------------------------- R08.2
def _parse_rhs(rhs, idx, icomp, stmt):
    """(R[i] - C[j]) [/ M[idx][icomp]] -> (r_role, c_role, scaled, Mname, Cname)"""
    scaled = False
    mname = None
    if isinstance(rhs, ast.BinOp) and isinstance(rhs.op, ast.Div):
        d = rhs.right
        if not (isinstance(d, ast.Subscript) and isinstance(d.value, ast.Subscript) and norm(d.value.slice) == idx and norm(d.slice) == icomp):
            raise AnalysisError(f"solver divides by `{norm(d)}`: not modelled")
        mname = norm(d.value.value)
        scaled = True
        rhs = rhs.left
    if isinstance(rhs, ast.BinOp) and isinstance(rhs.op, ast.Add) and isinstance(rhs.left, ast.Subscript) and isinstance(rhs.right, ast.Subscript):
        raise SolverSign(stmt)
    if not (isinstance(rhs, ast.BinOp) and isinstance(rhs.op, ast.Sub) and isinstance(rhs.left, ast.Subscript)
            and isinstance(rhs.right, ast.Subscript)):
        raise AnalysisError(f"solver right-hand side `{norm(stmt.value)}` is not of the form R[i] - C[j]")
    ri, ci = norm(rhs.left.slice), norm(rhs.right.slice)
    if ri not in (idx, icomp) or ci not in (idx, icomp):
        raise AnalysisError(f"solver indices `{ri}`, `{ci}` not modelled")
    return ("idx" if ri == idx else "icomp"), ("idx" if ci == idx else "icomp"), scaled, mname, norm(rhs.right.value)


def find_solver(M):
    """recognise the statement that extracts a free variable from the first representative. Two shapes:
      A  for idx, var in variable_map.items(): for icomp in range(3): if GUARD(M[idx][icomp]): W[idx] = RHS [; break]
      B  for idx in variable_map: icomp = SELECT(M[idx]); W[idx] = RHS
    -> dict(select=callable(row)->component or None, r, c, scaled, text, first_M, first_C, stmt)"""
    fn = M.func(FQ)
    fl = Flow(fn)
    cands = []
    for outer in ast.walk(fn):
        if not isinstance(outer, ast.For):
            continue
        it = outer.iter
        over_map = (isinstance(it, ast.Call) and isinstance(it.func, ast.Attribute) and it.func.attr in ("items", "keys") and "variable_map" in norm(it.func.value)) \
            or (isinstance(it, ast.Name) and it.id == "variable_map")
        if not over_map:
            continue
        idx = norm(outer.target.elts[0]) if isinstance(outer.target, ast.Tuple) else norm(outer.target)
        for st in outer.body:
            # shape A
            if isinstance(st, ast.For) and isinstance(st.target, ast.Name) and isinstance(st.iter, ast.Call) and isinstance(st.iter.func, ast.Name) \
                    and st.iter.func.id == "range" and len(st.iter.args) == 1 and isinstance(st.iter.args[0], ast.Constant) and st.iter.args[0].value == 3:
                icomp = st.target.id
                for g in st.body:
                    if isinstance(g, ast.If):
                        for s in g.body:
                            if isinstance(s, ast.Assign) and isinstance(s.targets[0], ast.Subscript) and norm(s.targets[0].slice) == idx:
                                cands.append(("A", outer, st, g, s, idx, icomp))
            # shape B
            if isinstance(st, ast.Assign) and isinstance(st.targets[0], ast.Subscript) and norm(st.targets[0].slice) == idx:
                names = {x.id for x in ast.walk(st.value) if isinstance(x, ast.Name)}
                sel = [a for a in outer.body if isinstance(a, ast.Assign) and isinstance(a.targets[0], ast.Name) and a.targets[0].id in names
                       and outer.body.index(a) < outer.body.index(st) and idx in {x.id for x in ast.walk(a.value) if isinstance(x, ast.Name)}]
                if sel:
                    cands.append(("B", outer, None, sel[-1], st, idx, sel[-1].targets[0].id))
    if len(cands) != 1:
        raise AnalysisError(f"_get_wyckoff_sets: expected one variable-extraction statement `W[idx] = ...`, found {len(cands)}")
    shape, outer, inner, g, s, idx, icomp = cands[0]
    r_role, c_role, scaled, mdiv, cname = _parse_rhs(s.value, idx, icomp, s)
    if shape == "A":
        test = g.test
        if not (isinstance(test, ast.Compare) and len(test.ops) == 1 and isinstance(test.comparators[0], ast.Constant)):
            raise AnalysisError(f"solver guard `{norm(test)}` not modelled")
        gl = test.left
        absolute = False
        if isinstance(gl, ast.Call) and norm(gl.func) in ("abs", "np.abs", "numpy.abs") and gl.args:
            gl, absolute = gl.args[0], True
        if not (isinstance(gl, ast.Subscript) and isinstance(gl.value, ast.Subscript) and norm(gl.value.slice) == idx and norm(gl.slice) == icomp):
            raise AnalysisError(f"solver guard `{norm(test)}` is not a test of M[{idx}][{icomp}]")
        mname = norm(gl.value.value)
        op, const = type(test.ops[0]).__name__, F(str(test.comparators[0].value))
        has_break = any(isinstance(x, ast.Break) for x in g.body)

        def hit(m):
            v = abs(m) if absolute else m
            return {"Eq": v == const, "NotEq": v != const, "Gt": v > const, "GtE": v >= const, "Lt": v < const, "LtE": v <= const}[op]

        def select(row):
            fired = [ic for ic in range(3) if hit(row[ic])]
            if not fired:
                return None
            return fired[0] if has_break else fired[-1]
        text = f"if {norm(test)}: {norm(s)}" + ("; break" if has_break else "")
    else:
        v = g.value
        t = norm(v).replace("numpy.", "np.")
        m = re.match(r"^np\.flatnonzero\((\w+)\[(\w+)\]\)\[0\]$", t) or re.match(r"^np\.nonzero\((\w+)\[(\w+)\]\)\[0\]\[0\]$", t) \
            or re.match(r"^np\.argmax\((\w+)\[(\w+)\] != 0\)$", t)
        m_abs = re.match(r"^np\.argmax\(np\.abs\((\w+)\[(\w+)\]\)\)$", t)
        m_max = re.match(r"^np\.argmax\((\w+)\[(\w+)\]\)$", t)
        m_one = re.match(r"^list\((\w+)\[(\w+)\]\)\.index\(1(?:\.0)?\)$", t) or re.match(r"^np\.flatnonzero\((\w+)\[(\w+)\] == 1\)\[0\]$", t)
        mm = m or m_abs or m_max or m_one
        if not mm or mm.group(2) != idx:
            raise AnalysisError(f"solver component selection `{t}` not modelled")
        mname = mm.group(1)
        if m:
            def select(row):
                nz = [ic for ic in range(3) if row[ic] != 0]
                return nz[0] if nz else None
        elif m_abs:
            def select(row):
                return max(range(3), key=lambda ic: (abs(row[ic]), -ic)) if any(row) else None
        elif m_max:
            def select(row):
                return max(range(3), key=lambda ic: (row[ic], -ic))
        else:
            def select(row):
                one = [ic for ic in range(3) if row[ic] == 1]
                return one[0] if one else None
        text = f"{norm(g)}; {norm(s)}"
    at = fl.node_of(s)

    def first_of(name, key):
        sl = fl.slice(ast.Name(id=name, ctx=ast.Load()), at, follow_mutations=False)
        zero = any(isinstance(x, ast.Subscript) and isinstance(x.slice, ast.Constant) and x.slice.value == 0
                   for e in sl["exprs"] for x in ast.walk(e))
        k = any(isinstance(x, ast.Constant) and x.value == key for e in sl["exprs"] for x in ast.walk(e))
        return zero and k
    return dict(select=select, r=r_role, c=c_role, scaled=scaled, stmt=s, text=text,
                first_M=first_of(mname, "matrices"), first_C=first_of(cname, "constants"))


def r08_2(rep, M, T, rid):
    try:
        sv = find_solver(M)
    except SolverSign as e:
        st = e.args[0]
        rep.violation(rid, f"_get_wyckoff_sets: `{norm(st)[:60]}`", "the variable is computed as coordinate *plus* the constant of the expression: for x' = x + c the parameter is "
                      "x' - c; every position whose representative carries a non-zero constant gets a parameter that is off by 2c, fails the plausibility test and the search "
                      "ends in ValueError", M.where(FQ, st))
        return
    rep.note(f"solver recognised: {sv['text']}")
    if not (sv["first_M"] and sv["first_C"]):
        rep.violation(rid, "solver operands", "M / C used by the solver are not the first representative "
                      "(matrices[0], constants[0]) of the position", M.where(FQ, sv["stmt"]))
    W = T["WYCKOFF_SETS"]
    n = 0
    for g in range(1, 231):
        wg = W.get(g, {})
        for L in letters_of(wg):
            info = wg[L]
            try:
                M0 = [[F(x).limit_denominator(1000) for x in row] for row in info["matrices"][0]]
                C0 = [frac24(float(x)) for x in info["constants"][0]]
                variables = info["variables"]
            except (KeyError, IndexError, TypeError, ValueError):
                continue
            if any(c is None for c in C0):
                continue    # reported by R08.1
            for vi, v in enumerate("xyz"):
                if v not in variables:
                    continue
                n += 1
                key = f"WYCKOFF_SETS[{g}][{L!r}] variable {v}"
                # evaluate the recognised component selection on the exact table row
                ic = sv["select"](M0[vi])
                if ic is None:
                    rep.violation(rid, key, f"no component of the first expression {info['expressions'][0]} is selected by the solver "
                                  f"`{sv['text']}`: the variable is never extracted")
                    continue
                a = vi if sv["r"] == "idx" else ic
                b = vi if sv["c"] == "idx" else ic
                scale = M0[vi][ic] if sv["scaled"] else F(1)
                probs = []
                if M0[vi][a] != scale:
                    probs.append(f"reads component {a} where the coefficient of {v} is {M0[vi][a]}, not {scale}")
                for ov, on in enumerate("xyz"):
                    if ov != vi and M0[ov][a] != 0:
                        probs.append(f"component {a} also depends on {on}")
                if (C0[a] - C0[b]).denominator != 1:
                    probs.append(f"subtracts the constant of component {b} ({C0[b]}) from component {a} (constant {C0[a]})")
                if probs:
                    rep.violation(rid, key, f"with R = W.M + C for the first expression {info['expressions'][0]} the solver "
                                  f"`{sv['text']}` does not return {v}: " + "; ".join(probs))
                else:
                    rep.ok(rid, key)
    rep.count("free_variables_checked", n)


# ----------------------------------------------------------------------------- R08.4
def r08_4(rep, M, rid):
    fn = M.func(FQ)
    fl = Flow(fn)
    sets = [c for c in ast.walk(fn) if isinstance(c, ast.Call) and isinstance(c.func, ast.Name) and c.func.id == "setattr"]
    if not sets:
        raise AnalysisError("_get_wyckoff_sets: setattr(wset, var, value) not found")
    for c in sets:
        at = fl.node_of(c)
        calls = fl.calls_in_slice(c.args[2], at)
        wrapped = any("matid.geometry.geometry.get_wrapped_positions" in M.callees_of_call(FQ, k) for k in calls)
        if wrapped:
            rep.ok(rid, "stored Wyckoff variables pass through get_wrapped_positions (values in [0, 1))")
        else:
            rep.violation(rid, "setattr(wset, var, value)", f"`{norm(c.args[2])}` is stored without passing through "
                          "get_wrapped_positions: reported parameters can lie outside [0, 1)", M.where(FQ, c))
        # only variables present in the position are stored
        conds = fl.cfg.branch_conditions(at)
        loop = [t for t, pol in conds if isinstance(t, ast.For) and pol is True and norm(c.args[1]) in
                [x.id for x in ast.walk(t.target) if isinstance(x, ast.Name)]]
        ok = False
        if loop:
            sl = fl.slice(loop[0].iter, fl.node_of(loop[0]))
            ok = any(isinstance(x, ast.Constant) and x.value == "variables" for e in sl["exprs"] for x in ast.walk(e))
            # the map is filled under a membership test in the tabulated variables
            fills = [s for s in ast.walk(fn) if isinstance(s, ast.Assign) and isinstance(s.targets[0], ast.Subscript)
                     and any(norm(s.targets[0].value) == norm(x) for x in ast.walk(loop[0].iter) if isinstance(x, ast.Name))]
            guarded = fills and all(any(isinstance(t, ast.If) and isinstance(t.test, ast.Compare) and isinstance(t.test.ops[0], ast.In)
                                        for t, pol in fl.cfg.branch_conditions(fl.node_of(s)) if pol is True) for s in fills)
            ok = ok or guarded
            if fills and not guarded:
                ok = False
        if ok:
            rep.ok(rid, "parameters are stored exactly for the variables tabulated as free in the position")
        else:
            rep.violation(rid, "setattr(wset, var, value) variable filter", "the stored attribute names are not restricted to the "
                          "position's tabulated `variables`", M.where(FQ, c))
    # verification of a candidate against all expressions and centring translations
    # the accepted candidate: the local whose entries are stored on the set with setattr(...)
    WF = None
    for c0 in sets:
        v0 = c0.args[2] if len(c0.args) > 2 else None
        while isinstance(v0, ast.Subscript):
            v0 = v0.value
        if isinstance(v0, ast.Name):
            WF = v0.id
    if WF is None:
        raise AnalysisError("_get_wyckoff_sets: the accepted candidate stored by setattr was not identified")
    wf = [s for s in ast.walk(fn) if isinstance(s, ast.Assign) and norm(s.targets[0]) == WF and not isinstance(s.value, ast.Constant)
          and not isinstance(s.value, ast.Call)]
    srch = [c for c in ast.walk(fn) if isinstance(c, ast.Call) and isinstance(c.func, ast.Attribute) and c.func.attr == "_search_periodic_positions"]
    guarded = [s for s in wf if any(isinstance(t, ast.If) and pol is True and isinstance(t.test, ast.Name)
                                    for t, pol in fl.cfg.branch_conditions(fl.node_of(s)))]
    trans = any(isinstance(x, ast.Constant) and x.value == "translations" for x in ast.walk(fn))
    if len(srch) >= 2 and guarded and trans:
        rep.ok(rid, "a candidate is accepted only after all generated positions (incl. centring translations) were matched")
    else:
        rep.violation(rid, "candidate verification", "candidate variables are accepted without matching every generated position "
                      "against the structure", M.where(FQ))
    # the public getter forwards its flag and the symmetry tolerance
    pub = SA + ".get_wyckoff_sets_conventional"
    for c in M.calls_to(pub, FQ):
        b = M.bind_args(FQ, c)
        rp, pr = b.get("return_parameters"), b.get("precision")
        if rp is not None and norm(rp) == "return_parameters":
            rep.ok(rid, "get_wyckoff_sets_conventional forwards return_parameters")
        else:
            rep.violation(rid, "get_wyckoff_sets_conventional: return_parameters", f"`{norm(rp) if rp is not None else None}` is passed instead of the caller's flag",
                          M.where(pub, c))
        if pr is not None and norm(pr) == "self.symmetry_tol":
            rep.ok(rid, "matching precision = the analyzer's symmetry tolerance")
        else:
            rep.violation(rid, "get_wyckoff_sets_conventional: precision", f"atoms are matched to generated positions with `{norm(pr) if pr is not None else None}`, "
                          "not with the symmetry tolerance the structure was analysed with", M.where(pub, c))
    guard_rp = [t for t in ast.walk(fn) if isinstance(t, ast.If) and norm(t.test) == "return_parameters"]
    if guard_rp:
        rep.ok(rid, "parameters are solved exactly when return_parameters is set")
    else:
        rep.violation(rid, "_get_wyckoff_sets: return_parameters", "the parameter solving is not controlled by the flag", M.where(FQ))
    # periodic matching: the helper may skip its own wrapping (wrap=False) only for arguments that are wrapped already
    sp = SA + "._search_periodic_positions"
    sparams = M.params(sp)
    for c in M.calls_to(FQ, sp):
        b = M.bind_args(sp, c)
        w = b.get("wrap")
        if w is None or (isinstance(w, ast.Constant) and w.value is True):
            rep.ok(rid, f"`{norm(c)[:60]}` lets the matcher wrap both arguments into [0, 1)")
            continue
        at = fl.node_of(c)
        unwrapped = []
        for pn in ("target_pos", "positions"):
            a = b.get(pn)
            sl = fl.slice(a, at)
            wrapped = any((isinstance(x, ast.BinOp) and isinstance(x.op, ast.Mod)) or
                          (isinstance(x, ast.Call) and (M.ext_name(FQ, x.func) in ("numpy.remainder", "numpy.mod") or
                                                        "matid.geometry.geometry.get_wrapped_positions" in M.callees_of_call(FQ, x)))
                          for e in sl["exprs"] for x in ast.walk(e)) or any(
                isinstance(s2, ast.Expr) and isinstance(s2.value, ast.Call) and M.ext_name(FQ, s2.value.func) in ("numpy.remainder", "numpy.mod")
                and any(k.arg == "out" and norm(k.value) == norm(a) for k in s2.value.keywords) for s2 in ast.walk(fn))
            if not wrapped:
                unwrapped.append(f"{pn}=`{norm(a)[:40]}`")
        if unwrapped:
            rep.violation(rid, f"`{norm(c)[:70]}`", f"passes wrap=False although {', '.join(unwrapped)} is not wrapped into [0, 1): the matcher folds a "
                          "displacement by a single lattice vector only, so a generated coordinate below -1 or >= 2 (multipliers 2x, -2x with x > 1/2) "
                          "never matches its atom and the parameters cannot be resolved", M.where(FQ, c))
        else:
            rep.ok(rid, f"`{norm(c)[:60]}`: wrap=False with both arguments wrapped beforehand")
    # the free-parameter flag
    f2 = SA + ".get_has_free_wyckoff_parameters"
    fn2 = M.func(f2)
    fl2 = Flow(fn2)
    loops = [n for n in ast.walk(fn2) if isinstance(n, ast.For)]
    if not loops:
        single = [c for c in ast.walk(fn2) if isinstance(c, ast.Call) and isinstance(c.func, ast.Name) and c.func.id in ("max", "min", "next")]
        single += [x for x in ast.walk(fn2) if isinstance(x, ast.Subscript) and isinstance(x.slice, ast.Constant) and isinstance(x.slice.value, int)
                   and any(isinstance(c, ast.Call) and isinstance(c.func, ast.Attribute) and c.func.attr == "get_wyckoff_letters_original" for c in ast.walk(x.value))]
        quant = [c for c in ast.walk(fn2) if isinstance(c, ast.Call) and isinstance(c.func, ast.Name) and c.func.id in ("any", "all")]
        if single and not quant:
            rep.violation(rid, "get_has_free_wyckoff_parameters: letters examined", f"the flag is decided from a single occupied letter (`{norm(single[0])[:60]}`) instead of from "
                          "every occupied letter: Wyckoff letters are not ordered by the number of free parameters (R-3m: 6c (0,0,z) comes before 9d / 9e without parameters), so a "
                          "structure occupying c and e reports no free parameter although its sets carry one", M.where(f2, single[0]))
            return
        raise AnalysisError("get_has_free_wyckoff_parameters: loop over letters not found")
    sl = fl2.slice(loops[0].iter, fl2.node_of(loops[0]))
    perm = any(isinstance(c, ast.Call) and isinstance(c.func, ast.Attribute) and c.func.attr == "get_wyckoff_letters_original"
               for e in sl["exprs"] for c in ast.walk(e))
    var = any(isinstance(x, ast.Constant) and x.value == "variables" for x in ast.walk(fn2))
    rets = [r for r in ast.walk(fn2) if isinstance(r, ast.Return)]
    shape = any(isinstance(r.value, ast.Constant) and r.value.value is True for r in rets) and \
        any(isinstance(r.value, ast.Constant) and r.value.value is False for r in rets)
    # polarity: True is returned when the variables of a letter are NOT empty
    pol_ok = None
    for r in rets:
        if isinstance(r.value, ast.Constant) and r.value.value is True:
            for t, pol in fl2.cfg.branch_conditions(fl2.node_of(r)):
                tt = getattr(t, "test", None)
                if isinstance(tt, ast.Compare) and isinstance(tt.left, ast.Call) and isinstance(tt.left.func, ast.Name) and tt.left.func.id == "len" \
                        and isinstance(tt.comparators[0], ast.Constant) and tt.comparators[0].value == 0:
                    pol_ok = (isinstance(tt.ops[0], ast.NotEq) and pol) or (isinstance(tt.ops[0], ast.Eq) and not pol)
                elif isinstance(tt, ast.Name):
                    pol_ok = bool(pol)
                elif isinstance(tt, ast.UnaryOp) and isinstance(tt.op, ast.Not) and isinstance(tt.operand, ast.Name):
                    pol_ok = not pol
    if pol_ok is False:
        rep.violation(rid, "get_has_free_wyckoff_parameters: polarity", "True is returned for a letter whose tabulated variables are *empty*: the flag is the negation of "
                      "'some occupied set carries a parameter'", M.where(f2))
        return
    if perm and var and shape:
        rep.ok(rid, "free-parameter flag: True iff a (permuted) occupied letter has tabulated variables")
    else:
        rep.violation(rid, "get_has_free_wyckoff_parameters", "does not read `variables` of the letters after the normalizer "
                      "permutation (get_wyckoff_letters_original)", M.where(f2))


def r08_8(rep, M, rid):
    """setting typestate: the tabulated expressions are in the standard setting, so the system whose positions are matched against
    them must be in the standard setting too. In the 2D branch get_conventional_system may swap two basis vectors."""
    GEO = "matid.geometry.geometry"
    gcs = SA + ".get_conventional_system"
    swaps = M.calls_to(gcs, GEO + ".swap_basis")
    pub = SA + ".get_wyckoff_sets_conventional"
    fn = M.func(pub)
    fl = Flow(fn)
    calls = M.calls_to(pub, FQ)
    if not calls:
        raise AnalysisError("get_wyckoff_sets_conventional: call of _get_wyckoff_sets not found")
    if not swaps:
        rep.ok(rid, "get_conventional_system never changes the axis order of the standardised cell")
        return
    # the swap must be recorded and undone (on a copy) before _get_wyckoff_sets sees the system
    rec = [s2 for s2 in ast.walk(M.func(gcs)) if isinstance(s2, ast.Assign) and isinstance(s2.targets[0], ast.Attribute)
           and isinstance(s2.value, ast.Tuple) and {norm(x) for x in s2.value.elts} == {norm(a) for a in swaps[0].args[1:3]}]
    undo = M.calls_to(pub, GEO + ".swap_basis")
    b = M.bind_args(FQ, calls[0])
    sysarg = b.get("system")
    ok = False
    why = "the swapped system is handed to _get_wyckoff_sets as it is"
    if rec and undo and isinstance(sysarg, ast.Name):
        attr = norm(rec[0].targets[0])
        at = fl.node_of(undo[0])
        conds = fl.cfg.branch_conditions(at)
        guarded = any(pol is True and isinstance(t, ast.If) and attr in norm(t.test) for t, pol in conds)
        same_obj = norm(undo[0].args[0]) == sysarg.id
        uses_rec = any(attr in norm(a) for a in undo[0].args[1:]) or any(attr in norm(k.value) for k in undo[0].keywords)
        copied = any(isinstance(s2, ast.Assign) and norm(s2.targets[0]) == sysarg.id and norm(s2.value) == f"{sysarg.id}.copy()" and
                     fl.cfg.reaches(fl.node_of(s2), at) for s2 in ast.walk(fn))
        reaches = fl.cfg.reaches(at, fl.node_of(calls[0]))
        ok = guarded and same_obj and uses_rec and copied and reaches
        why = f"guarded by the recorded swap: {guarded}; same object: {same_obj}; uses the recorded axes: {uses_rec}; on a copy: {copied}; before the matching: {reaches}"
    if ok:
        rep.ok(rid, "the 2D axis swap of the conventional system is recorded and undone on a copy before positions are matched with the standard-setting expressions")
    else:
        rep.violation(rid, "get_wyckoff_sets_conventional: setting of the matched system", "get_conventional_system can exchange two basis vectors of a 2D system "
                      "(non-periodic axis last), but the Wyckoff expressions are in the standard setting: " + why + ". With the axes permuted the generated "
                      "positions never match the atoms and the call fails with ValueError (e.g. a phosphorene-like Pmna layer)", M.where(pub, calls[0]))


def r08_tol(rep, M, rid):
    """tolerance agreement inside the solver: the letter of an atom was assigned by spglib within the symmetry tolerance, so every
    position comparison that accepts / rejects that atom for the letter's expressions must use the same tolerance"""
    fn = M.func(FQ)
    ps = M.params(FQ)
    if "precision" not in ps:
        raise AnalysisError("_get_wyckoff_sets: parameter `precision` not found")
    calls = [c for c in ast.walk(fn) if isinstance(c, ast.Call) and isinstance(c.func, ast.Attribute) and c.func.attr == "_search_periodic_positions"]
    if len(calls) < 2:
        raise AnalysisError("_get_wyckoff_sets: position comparisons (_search_periodic_positions) not found")
    sp = M.params(SA + "._search_periodic_positions")
    k = [x for x in sp if x != "self"].index("accuracy") if "accuracy" in sp else 3
    for c in calls:
        a = c.args[k] if len(c.args) > k else next((kw.value for kw in c.keywords if kw.arg == "accuracy"), None)
        if a is not None and norm(a) == "precision":
            rep.ok(rid, f"_get_wyckoff_sets: `{norm(c)[:50]}...` compares within the symmetry tolerance")
        elif isinstance(a, ast.Constant):
            rep.violation(rid, f"_get_wyckoff_sets: hard-coded tolerance {a.value!r} in `{norm(c)[:45]}`", f"this comparison uses the literal {a.value!r} while the letters were "
                          "assigned (by spglib) and the final verification is done within `precision` = symmetry_tol: an atom that lies within the symmetry tolerance of a "
                          "neighbouring position of equal multiplicity gets that letter, is then rejected here, and the call fails with ValueError although a parameter "
                          "reproducing the atom within the tolerance exists", M.where(FQ, c))
        else:
            rep.violation(rid, f"_get_wyckoff_sets: tolerance of `{norm(c)[:45]}`", f"compares within `{norm(a) if a is not None else None}`, not within `precision`", M.where(FQ, c))


def r08_8b(rep, M, rid):
    """second half of the setting typestate: besides the axis order, the origin and the scale along the non-periodic axis of a 2D
    system are changed after the letters have been fixed (centring translation, cell minimisation); a letter whose expression has
    a *constant* coordinate along that axis (a flat layer on the plane z = 0 of the standard setting) then no longer describes
    the shifted atoms"""
    GEO = "matid.geometry.geometry"
    gcs = SA + ".get_conventional_system"
    pub = SA + ".get_wyckoff_sets_conventional"
    fn = M.func(gcs)
    gs = M.calls_to(gcs, SA + "._find_wyckoff_ground_state")
    if not gs:
        raise AnalysisError("get_conventional_system: _find_wyckoff_ground_state not called")
    fl = Flow(fn)
    moved = []
    for c in [x for x in ast.walk(fn) if isinstance(x, ast.Call)]:
        after = any(fl.cfg.reaches(fl.node_of(g), fl.node_of(c)) and fl.node_of(g) != fl.node_of(c) for g in gs)
        if not after:
            continue
        if isinstance(c.func, ast.Attribute) and c.func.attr in ("translate", "set_positions", "set_scaled_positions", "set_cell", "rattle"):
            moved.append((c, f".{c.func.attr}()"))
        elif GEO + ".get_minimized_cell" in M.callees_of_call(gcs, c):
            moved.append((c, "get_minimized_cell()"))
        elif GEO + ".translate" in M.callees_of_call(gcs, c):
            moved.append((c, "translate()"))
    pubfn = M.func(pub)
    src = ast.unparse(pubfn)
    # an undo would have to restore origin and cell before _get_wyckoff_sets: a recorded standard-setting copy, or inverse operations
    restores = any(isinstance(a, ast.Attribute) and isinstance(a.value, ast.Name) and a.value.id == "self" and "standard" in a.attr for a in ast.walk(pubfn)) \
        or ("translate" in src and "set_cell" in src)
    rep.count("coordinate_changes_after_letters_are_fixed", len(moved))
    if not moved:
        rep.ok(rid, "the conventional system keeps the coordinates of the standard setting along every axis")
    elif restores:
        rep.ok(rid, "origin / scale changes of the 2D conventional system are undone (or a standard-setting copy is used) before the parameters are resolved")
    else:
        what = ", ".join(sorted({w for _, w in moved}))
        rep.violation(rid, "get_wyckoff_sets_conventional: origin and scale along the non-periodic axis of a 2D system",
                      f"after the Wyckoff letters are fixed get_conventional_system changes the coordinates along the non-periodic axis ({what}: centring "
                      "by a non-lattice translation, then rescaling the cell) and get_wyckoff_sets_conventional matches the moved atoms against the "
                      "standard-setting expressions. Letters whose expression has a constant along that axis (e.g. Pmmm 2m (0,y,0) for a flat layer lying "
                      "on z = 0, which is centred to z = 1/2) can no longer be matched: ValueError 'Could not resolve the free Wyckoff parameters' although "
                      "has_free_wyckoff_parameters is True", M.where(gcs, moved[0][0]))


def run(rep, ctx):
    M, T = ctx.model, ctx.tables
    rep.exhaustive = True
    rep.explanation = ("exhaustive exact comparison of expressions/matrices/constants (every component of every position), "
                       "algebraic validation of the recognised variable-extraction statement against the first representative "
                       "of all positions, orbit closure, and def-use rules for wrapping / storing the parameters")
    rep.assumptions = ["spglib Hall database = standard setting", "tolerance behaviour of _search_periodic_positions on noisy input is not decided"]
    rep.trusted_base = ["spglib Hall database", "fractions", "CPython ast"]
    rep.rule("R08.1", "expressions == matrices == constants == variables for every component (1731 positions)")
    rep.rule("R08.2", "the variable-extraction statement returns the variable for the first representative of every position")
    rep.rule("R08.3", "every position is one closed orbit of the reference group (so the generated test positions are the set)")
    rep.rule("R08.4", "parameters are wrapped into [0,1), stored only for tabulated variables, accepted only after full verification; flag reads the same table")
    TO.expr_matrices(rep, T, "R08.1")
    with rep.guard("R08.2"):
        search_norm_axis(rep, M, "R08.2")
        search_fold_direction(rep, M, "R08.2")
        variables_left_operand(rep, M, "R08.2")
        r08_2(rep, M, T, "R08.2")
    TO.orbit_closure(rep, T, "R08.3")
    with rep.guard("R08.4"):
        r08_4(rep, M, "R08.4")
    rep.rule("R08.5", "every memoised result of the analyzer is dropped by reset(), which set_system() calls (no answers for a previous structure)")
    with rep.guard("R08.5"):
        from .. import symrules as _SR
        _SR.reset_covers_caches(rep, ctx.model, "R08.5")
    rep.rule("R08.6", "sets are crystallographic orbits read over the right index space (a split orbit cannot regenerate its expressions)")
    with rep.guard("R08.6"):
        from .. import symrules as _SRa
        _SRa.orbit_source(rep, M, "R08.6")
        _SRa.index_spaces(rep, M, "R08.6")
    rep.rule("R08.7", "the sets whose parameters are solved are assembled per orbit with the letter of the chosen normalizer (shared with C06/C07)")
    with rep.guard("R08.7"):
        from . import shared as _sh
        _sh.normal_form(rep, ctx.model, "R08.7", ranking=False)
        # the positions the parameters are solved from are x' = R x + t of the chosen normalizer (R (x + t) puts them on another position
        # than the permuted letters say)
        from . import c05 as _c05a
        _c05a.r05_3(rep, ctx.model, "R08.7")
    rep.rule("R08.8", "positions are matched against the tabulated expressions in the setting the expressions are written in (standard setting)")
    with rep.guard("R08.8"):
        r08_8(rep, M, "R08.8")
        r08_8b(rep, M, "R08.8")
    rep.rule("R08.9", "re-wrapping of the normalised positions snaps coordinates only within numerical noise (a snapped atom no longer satisfies its expressions; shared with C05)")
    with rep.guard("R08.9"):
        from . import c05 as _c05b
        _c05b.r05_6(rep, ctx.model, "R08.9", reduction=True)
    rep.rule("R08.10", "every tabulated position carries the letter the reference Wyckoff database assigns to an orbit placed on it (the analyzer takes the "
             "letter from spglib and the expressions from the table; shared with C14)")
    with rep.guard("R08.10"):
        TO.letter_reference(rep, ctx.tables, "R08.10")
    rep.floor("R08.10", 1700)
    # R08.11 (spglib boundary, borrowed from C05) was removed: C08 speaks about the returned conventional system only, which is
    # self-consistent whatever structure and tolerance spglib was given (see DESIGN section 9, scoping of borrowed rules)
    rep.rule("R08.12", "every tabulated normalizer is an automorphism of its group and an isometry of the lattice (the normalised cell is the same crystal in the same space group; shared with C05/C14)")
    from . import shared as _shn
    _shn.normalizer_tables(rep, ctx.tables, "R08.12", perm=True)
    rep.floor("R08.12", 2400)
    rep.rule("R08.13", "every position comparison of the parameter solver uses the symmetry tolerance the letters were assigned with")
    with rep.guard("R08.13"):
        r08_tol(rep, ctx.model, "R08.13")
    rep.floor("R08.1", 26000)
    rep.floor("R08.2", 1500)
    rep.floor("R08.3", 1700)
    rep.floor("R08.4", 4)


META = {
    "level": "other",
    "text": "exhaustive static obligations over all 1731 tabulated Wyckoff positions (exact arithmetic): the numeric "
            "matrices/constants equal the algebraic expressions, each position is a closed orbit, and the parameter solver "
            "in _get_wyckoff_sets - recognised from its AST - provably inverts the first representative of every position; "
            "plus def-use rules for wrapping/storing. These are necessary for 'asking for the parameters succeeds and "
            "regenerates the atoms' for every (group, letter); tolerance behaviour on noisy input is not decided."
            " The solver statement is recognised in two shapes (guarded scan over components, or a vectorised component selection) and validated algebraically per position; wrap=False calls of the matcher need wrapped arguments; the public getter forwards its flag and the symmetry tolerance; memo coherence with reset()/arguments.",
    "note": "trusted: spglib Hall database (standard setting), fractions/numpy integer arithmetic, CPython ast; the solver is "
            "validated algebraically from its recognised index pattern, never executed.",
    "technique": "exact table obligations + algebraic validation of a recognised solver statement + def-use rules",
}


# ----------------------------------------------------------------------------- the variable vector multiplies the expression matrices from the left
def variables_left_operand(rep, M, rid):
    """_get_wyckoff_sets: positions are x = W . M + C with W the (x, y, z) variable row vector and M[variable][component] (rows = variables): in every
    product W is the left operand - both in the plausibility test of a candidate and in the batched evaluation over all expressions of the set"""
    fq = SA + "._get_wyckoff_sets"
    fn = M.func(fq)
    wv = {s.targets[0].id for s in ast.walk(fn) if isinstance(s, ast.Assign) and isinstance(s.targets[0], ast.Name) and isinstance(s.value, ast.Call)
          and (M.ext_name(fq, s.value.func) or "") == "numpy.zeros" and s.value.args and isinstance(s.value.args[0], ast.Constant) and s.value.args[0].value == 3}
    wv = {w for w in wv if any(isinstance(s, ast.Assign) and isinstance(s.targets[0], ast.Subscript) and norm(s.targets[0].value) == w for s in ast.walk(fn))}
    if not wv:
        raise AnalysisError("_get_wyckoff_sets: the vector of the free variables was not recognised")
    n = 0
    for c in ast.walk(fn):
        if isinstance(c, ast.Call) and (M.ext_name(fq, c.func) or "") in ("numpy.dot", "numpy.matmul") and len(c.args) == 2:
            left, right = c.args
        elif isinstance(c, ast.BinOp) and isinstance(c.op, ast.MatMult):
            left, right = c.left, c.right
        else:
            continue
        lw, rw = isinstance(left, ast.Name) and left.id in wv, isinstance(right, ast.Name) and right.id in wv
        if not (lw or rw):
            continue
        n += 1
        if lw and not rw:
            rep.ok(rid, f"_get_wyckoff_sets: `{norm(c)[:40]}` - variables (row vector) times expression matrix")
        else:
            rep.violation(rid, f"_get_wyckoff_sets: `{norm(c)[:50]}`", "the variable vector is the right operand: M . W contracts the *component* index of the expression "
                          "matrices with the variables, i.e. evaluates the transposed expressions (x of `(-y, x, z)` ends up in the wrong coordinate); the positions of the "
                          "set are not regenerated and the parameter search fails with ValueError", M.where(fq, c))
    if n < 2:
        raise AnalysisError(f"_get_wyckoff_sets: products with the variable vector found at {n} site(s); plausibility test and batched evaluation expected")


def search_fold_direction(rep, M, rid):
    """_search_periodic_positions: a fractional displacement component above +1/2 is lowered by one, a component below -1/2 raised by one (nearest
    image); folding in the other direction doubles the excess instead of removing it"""
    fq = SA + "._search_periodic_positions"
    fn = M.func(fq)
    body = [s2 for s2 in ast.walk(fn) if isinstance(s2, ast.Assign)]
    n = 0
    for k, s2 in enumerate(body):
        if not (isinstance(s2.value, ast.Call) and (M.ext_name(fq, s2.value.func) or "") == "numpy.where" and s2.value.args and isinstance(s2.value.args[0], ast.Compare)):
            continue
        cmp_ = s2.value.args[0]
        mask = norm(s2.targets[0])
        upd = next((u for u in body[k + 1:] if isinstance(u.targets[0], ast.Subscript) and norm(u.targets[0].slice) == mask and isinstance(u.value, ast.BinOp)
                    and isinstance(u.value.right, ast.Constant) and u.value.right.value == 1), None)
        if upd is None:
            continue
        n += 1
        above = isinstance(cmp_.ops[0], (ast.Gt, ast.GtE))
        lowers = isinstance(upd.value.op, ast.Sub)
        if above == lowers:
            rep.ok(rid, f"_search_periodic_positions: `{norm(cmp_)}` -> `{norm(upd)[:50]}`")
        else:
            rep.violation(rid, f"_search_periodic_positions: `{norm(upd)[:60]}`", f"components selected by `{norm(cmp_)}` are moved *away* from zero: the displacement to the "
                          "nearest periodic image grows to more than a lattice vector, an atom across the cell face is never matched and the parameter search fails", M.where(fq, upd))
    if n < 2:
        raise AnalysisError(f"_search_periodic_positions: nearest-image folds recognised at {n} site(s) (2 expected)")


def search_norm_axis(rep, M, rid):
    """_search_periodic_positions: the distance of each candidate is the norm of its displacement row (axis 1); the argmin over these is a candidate number"""
    fq = SA + "._search_periodic_positions"
    fn = M.func(fq)
    norms = [c for c in ast.walk(fn) if isinstance(c, ast.Call) and (M.ext_name(fq, c.func) or "") == "numpy.linalg.norm"]
    if not norms:
        raise AnalysisError("_search_periodic_positions: norm of the displacements not found")
    for c in norms:
        ax = next((k.value for k in c.keywords if k.arg == "axis"), None)
        if isinstance(ax, ast.Constant) and ax.value in (1, -1):
            rep.ok(rid, f"_search_periodic_positions: `{norm(c)[:50]}` is a per-candidate distance")
        else:
            rep.violation(rid, f"_search_periodic_positions: `{norm(c)[:50]}`", "the norm is not taken per candidate (axis 1): the minimum is searched among three column norms, "
                          "so the index returned is not the matched atom and parameters are accepted or rejected at random", M.where(fq, c))
