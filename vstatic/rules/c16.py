"""C16 - periodic neighbour search and position matching (structural clauses)."""
import ast

from .. import cxxrules
from ..dataflow import Flow
from ..model import norm
from ..report import AnalysisError

GEO = "matid.geometry.geometry"
GM = GEO + ".get_matches"
GMS = GEO + ".get_matches_simple"


class Paths:
    """enumerate the paths of a loop body, tracking None-ness of variables and side effects"""

    def __init__(self, tracked):
        self.tracked = tracked
        self.carried = []

    def evalc(self, test, env):
        if isinstance(test, ast.BoolOp):
            vals = [self.evalc(v, env) for v in test.values]
            if isinstance(test.op, ast.And):
                if any(v is False for v in vals):
                    return False
                return True if all(v is True for v in vals) else None
            if any(v is True for v in vals):
                return True
            return False if all(v is False for v in vals) else None
        if isinstance(test, ast.Compare) and len(test.ops) == 1 and isinstance(test.left, ast.Name) and test.left.id in env \
                and isinstance(test.comparators[0], ast.Constant) and test.comparators[0].value is None:
            v = env[test.left.id]
            if v == "CARRIED":
                self.carried.append((test.left.id, test))
            if v in ("None", "NN"):
                isnone = v == "None"
                if isinstance(test.ops[0], ast.Is):
                    return isnone
                if isinstance(test.ops[0], ast.IsNot):
                    return not isnone
        return None

    def run(self, stmts, env, conds, effects):
        if not stmts:
            return [(env, conds, effects)]
        s, rest = stmts[0], stmts[1:]
        if isinstance(s, ast.If):
            v = self.evalc(s.test, env)
            out = []
            for pol, blk in ((True, s.body), (False, s.orelse)):
                if v is not None and v is not pol:
                    continue
                c2 = conds if v is not None else conds + [(s.test, pol)]
                for e2, c3, f2 in self.run(list(blk), dict(env), c2, list(effects)):
                    out += self.run(rest, e2, c3, f2)
            return out
        if isinstance(s, ast.Assign):
            for t in s.targets:
                if isinstance(t, ast.Name):
                    if isinstance(s.value, ast.Constant) and s.value.value is None:
                        env[t.id] = "None"
                    elif isinstance(s.value, ast.Name) and s.value.id in env:
                        env[t.id] = env[s.value.id]
                        env[t.id + "@src"] = env.get(s.value.id + "@src", s.value.id)
                    else:
                        env[t.id] = "NN"
                        env[t.id + "@src"] = norm(s.value)
                elif isinstance(t, ast.Subscript):
                    effects.append(("store", norm(t.value), norm(s.value), env.get(norm(s.value) + "@src")))
            return self.run(rest, env, conds, effects)
        if isinstance(s, ast.Expr) and isinstance(s.value, ast.Call) and isinstance(s.value.func, ast.Attribute) and s.value.func.attr == "append":
            a = s.value.args[0]
            if isinstance(a, ast.Name) and env.get(a.id) == "CARRIED":
                self.carried.append((a.id, s))
            effects.append(("append", norm(s.value.func.value), env.get(a.id, "?") if isinstance(a, ast.Name) else "NN", norm(a)))
            return self.run(rest, env, conds, effects)
        if isinstance(s, (ast.For, ast.While, ast.Try, ast.With)):
            raise AnalysisError("get_matches: nested control statement in the matching loop not modelled")
        return self.run(rest, env, conds, effects)


def classify_cond(test, tol, num):
    t = norm(test)
    if isinstance(test, ast.Compare) and len(test.ops) == 1:
        if isinstance(test.ops[0], (ast.LtE, ast.Lt)) and norm(test.comparators[0]) == tol:
            return "within"
        if isinstance(test.ops[0], (ast.LtE, ast.Lt)) and any(isinstance(x, ast.Name) and x.id == tol for x in ast.walk(test.comparators[0])):
            return "scaled_tolerance"
        if isinstance(test.ops[0], (ast.Gt, ast.GtE)) and norm(test.comparators[0]) == tol:
            return "beyond"
        if isinstance(test.ops[0], ast.Eq) and num in (norm(test.left), norm(test.comparators[0])):
            return "same_species"
        if isinstance(test.ops[0], ast.NotEq) and num in (norm(test.left), norm(test.comparators[0])):
            return "other_species"
        if isinstance(test.ops[0], ast.NotEq) and "len(" in norm(test.left) and norm(test.comparators[0]) == "0":  # emptiness normal form of the model
            return "found_any"
        if isinstance(test.ops[0], ast.Eq) and "len(" in norm(test.left) and norm(test.comparators[0]) == "0":
            return "found_none"
    return None


def ret_names(fn):
    """names of the elements of the (single) returned tuple"""
    rets = [r for r in ast.walk(fn) if isinstance(r, ast.Return) and isinstance(r.value, ast.Tuple)]
    if not rets or not all(isinstance(e, ast.Name) for e in rets[-1].value.elts):
        raise AnalysisError(f"{fn.name}: the returned tuple of result lists was not recognised")
    return [e.id for e in rets[-1].value.elts]


def appended_var(fn, lst):
    args = [c.args[0] for c in ast.walk(fn) if isinstance(c, ast.Call) and isinstance(c.func, ast.Attribute) and c.func.attr == "append"
            and isinstance(c.func.value, ast.Name) and c.func.value.id == lst and c.args]
    names = {a.id for a in args if isinstance(a, ast.Name)}
    if len(names) != 1:
        raise AnalysisError(f"{fn.name}: what is appended to `{lst}` is not a single local")
    return names.pop()


def attr_root(fn, e, depth=0):
    """attribute name a value is read from, following locals and subscripts: closest_factor -> factors[k] -> <res>.factors -> 'factors'"""
    if depth > 6 or e is None:
        return None
    if isinstance(e, ast.Subscript):
        return attr_root(fn, e.value, depth + 1)
    if isinstance(e, ast.Attribute):
        return e.attr
    if isinstance(e, ast.Name):
        vals = [s2.value for s2 in ast.walk(fn) if isinstance(s2, ast.Assign) and len(s2.targets) == 1 and isinstance(s2.targets[0], ast.Name)
                and s2.targets[0].id == e.id and not (isinstance(s2.value, ast.Constant) and s2.value.value is None)]
        roots = {attr_root(fn, v, depth + 1) for v in vals}
        return roots.pop() if len(roots) == 1 else None
    return None


def r16_1(rep, M, rid, region=False):
    """region=True: only what the region search of the periodic finder consumes (who is matched, and the cell offset of a *match*); the
    offsets of substitutions / vacancies and the description of a substitution are not read there"""
    fn = M.func(GM)
    L_MATCH, L_SUB, L_VAC, L_COPY = (ret_names(fn) + [None] * 4)[:4]
    V_MATCH, V_SUB = appended_var(fn, L_MATCH), appended_var(fn, L_SUB)
    loops = [s for s in fn.body if isinstance(s, ast.For)]
    if len(loops) != 1:
        raise AnalysisError("get_matches: the loop over the searched positions not found")
    loop = loops[0]
    tol = M.params(GM)[4]
    tv = [x.id for x in ast.walk(loop.target) if isinstance(x, ast.Name)]
    num = tv[-1]
    # truthiness of a variable that holds an atom index: index 0 is falsy
    idx_vars = {V_MATCH} | {norm(s2.targets[0]) for s2 in ast.walk(loop) if isinstance(s2, ast.Assign) and isinstance(s2.targets[0], ast.Name)
                            and not isinstance(s2.value, ast.Constant) and attr_root(fn, s2.value) in ("indices_original", "indices")}
    truthy = []
    for x in ast.walk(loop):
        operands = []
        if isinstance(x, (ast.If, ast.While, ast.IfExp)):
            operands.append(x.test)
        if isinstance(x, ast.BoolOp):
            operands += x.values
        if isinstance(x, ast.UnaryOp) and isinstance(x.op, ast.Not):
            operands.append(x.operand)
        for o in operands:
            if isinstance(o, ast.Name) and o.id in idx_vars:
                truthy.append((o, x))
    if truthy:
        o, x = truthy[0]
        rep.violation(rid, f"get_matches: truthiness test of `{o.id}`", f"`{norm(x if not isinstance(x, ast.If) else x.test)[:60]}` tests an atom index for truth: index 0 is "
                      "falsy, so a position correctly matched to atom 0 is also reported as a vacancy and its cell offset is overwritten", M.where(GM, o))
        return
    P = Paths({V_MATCH, V_SUB})
    assigned_in_body = {t.id for s2 in ast.walk(loop) if isinstance(s2, ast.Assign) for t in s2.targets if isinstance(t, ast.Name)}
    paths = P.run(list(loop.body), {v: "CARRIED" for v in assigned_in_body}, [], [])
    if P.carried:
        seen_c = set()
        for v, node in P.carried:
            if v in seen_c:
                continue
            seen_c.add(v)
            rep.violation(rid, f"get_matches: `{v}` carried between positions", f"`{v}` is used in the loop over the searched positions before it is "
                          "(re)assigned in the same iteration: a position inherits the match / substitution of the previous position (e.g. a "
                          "position with nothing nearby is reported as the previous substitution instead of a vacancy)", M.where(GM, node))
        return
    rep.count("paths_of_matching_loop", len(paths))
    for env, conds, effects in paths:
        kinds = {}
        for test, pol in conds:
            k = classify_cond(test, tol, num)
            if k == "scaled_tolerance":
                rep.violation(rid, f"get_matches: acceptance test `{norm(test)}`", f"the distance is not compared with the given tolerance `{tol}` itself",
                              M.where(GM, test))
                k = "within"
            if k is None:
                raise AnalysisError(f"get_matches: condition `{norm(test)}` not modelled")
            if k == "beyond":
                k, pol = "within", not pol
            if k == "other_species":
                k, pol = "same_species", not pol
            if k == "found_none":
                k, pol = "found_any", not pol
            kinds[k] = pol
        m = [e for e in effects if e[0] == "append" and e[1] == L_MATCH]
        s = [e for e in effects if e[0] == "append" and e[1] == L_SUB]
        v = [e for e in effects if e[0] == "append" and e[1] == L_VAC]
        ci = [e for e in effects if e[0] == "store" and e[1] == L_COPY]
        desc = ", ".join(f"{k}={p}" for k, p in sorted(kinds.items()))
        if len(m) != 1 or len(s) != 1:
            rep.violation(rid, f"get_matches path [{desc}]", "does not append exactly one entry to matches and to substitutions", M.where(GM, loop))
            continue
        is_match, is_sub, is_vac = m[0][2] == "NN", s[0][2] == "NN", bool(v)
        within = kinds.get("found_any", False) and kinds.get("within", False)
        same = kinds.get("same_species")
        want = ("match" if within and same else "substitution" if within and same is False else "vacancy")
        got = [k for k, b in (("match", is_match), ("substitution", is_sub), ("vacancy", is_vac)) if b]
        if region and is_match == (want == "match"):
            rep.ok(rid, f"get_matches path [{desc}] -> {'match' if is_match else 'no match'}")
            if want != "match":
                continue
        elif got != [want]:
            rep.violation(rid, f"get_matches path [{desc}]", f"classified as {got or ['nothing']}, required exactly [{want}] (match iff within "
                          "tolerance and same species, substitution iff within tolerance and other species, vacancy otherwise)", M.where(GM, loop))
            continue
        # copy index provenance
        if region and want != "match":
            rep.ok(rid, f"get_matches path [{desc}] -> {want}")
            continue
        src = ci[-1][3] or ci[-1][2] if ci else None
        if not ci:
            rep.violation(rid, f"get_matches path [{desc}] copy index", "no copy index stored for this position", M.where(GM, loop))
        elif want == "vacancy" and not ("floor" in (src or "") and "to_scaled" in (src or "")):
            rep.violation(rid, f"get_matches path [{desc}] copy index", f"vacancy copy index comes from `{src}`, required floor of the scaled position",
                          M.where(GM, loop))
        elif want == "vacancy" and any(isinstance(c, ast.Call) and norm(c.func).endswith("to_scaled")
                                       and ((len(c.args) > 2 and not (isinstance(c.args[2], ast.Constant) and c.args[2].value is False))
                                            or any(k.arg == "wrap" and not (isinstance(k.value, ast.Constant) and k.value.value is False) for k in c.keywords))
                                       for c in ast.walk(ast.parse(src, mode="eval"))):
            rep.violation(rid, f"get_matches path [{desc}] copy index", f"vacancy copy index comes from `{src}`: the position is wrapped into the cell before its cell "
                          "number is taken, so every vacancy is reported in cell (0, 0, 0)", M.where(GM, loop))
        elif want != "vacancy" and attr_root(fn, ast.parse(src, mode="eval").body if src else None) != "factors":
            rep.violation(rid, f"get_matches path [{desc}] copy index", f"copy index comes from `{src}`, required the cell offset of the found image",
                          M.where(GM, loop))
        else:
            rep.ok(rid, f"get_matches path [{desc}] -> {want}, copy index from `{src}`")
    # nearest image: argmin over the distances of the same query result
    for fq in (GM, GMS):
        fn2 = M.func(fq)
        am = [s2 for s2 in ast.walk(fn2) if isinstance(s2, ast.Assign) and isinstance(s2.targets[0], ast.Name) and isinstance(s2.value, ast.Call)
              and (M.ext_name(fq, s2.value.func) or "") == "numpy.argmin" and s2.value.args]
        if len(am) != 1:
            rep.violation(rid, f"{fq.split('.')[-1]}: nearest image selection", "no single np.argmin over the distances of the query result", M.where(fq))
            continue
        k = am[0].targets[0].id
        over = attr_root(fn2, am[0].value.args[0])
        picks = {}
        for s2 in ast.walk(fn2):
            if isinstance(s2, ast.Assign) and isinstance(s2.targets[0], ast.Name) and isinstance(s2.value, ast.Subscript) and norm(s2.value.slice) == k:
                picks[attr_root(fn2, s2.value.value)] = s2.targets[0].id
        if over == "distances" and "distances" in picks and "indices_original" in picks:
            rep.ok(rid, f"{fq.split('.')[-1]}: the candidate is the nearest image of the query result (argmin over its distances), original index reported")
        else:
            rep.violation(rid, f"{fq.split('.')[-1]}: nearest image selection", f"argmin is taken over `.{over}` of the query result and the values read at that index are "
                          f"{sorted(str(x) for x in picks)}; required: argmin over .distances, closest distance and .indices_original read at it", M.where(fq))
        if fq == GM:
            if "factors" in picks:
                rep.ok(rid, "get_matches: the reported cell offset is that of the nearest image")
            else:
                rep.violation(rid, "get_matches: cell offset", "the offset is not read at the index of the nearest image", M.where(GM))
    if region:
        return
    # content of a reported substitution: which species was searched, which was found
    ps = M.params(GM)
    p_system, p_numbers = ps[0], ps[3]
    subs = [c for c in ast.walk(fn) if isinstance(c, ast.Call)
            and any(q.endswith(".Substitution") or q.endswith(".Substitution.__init__") for q in M.callees_of_call(GM, c))]
    if not subs:
        raise AnalysisError("get_matches: construction of Substitution not found")
    sub_params = ["index", "position", "original_element", "substitutional_element"]
    init = next((q for q in M.defs if q.endswith(".Substitution.__init__")), None)
    if init is None or [a for a in M.params(init) if a != "self"] != sub_params:
        raise AnalysisError("Substitution.__init__ signature changed")
    defs = {}
    for s2 in ast.walk(fn):
        if isinstance(s2, ast.Assign) and len(s2.targets) == 1 and isinstance(s2.targets[0], ast.Name):
            defs.setdefault(s2.targets[0].id, []).append(s2.value)

    def elems(target, it):
        """pair loop-target names with the sequence each one walks: enumerate(X) -> (index, X), zip(A, B) -> (A, B)"""
        out = {}
        if isinstance(target, ast.Name):
            out[target.id] = it
        elif isinstance(target, ast.Tuple) and isinstance(it, ast.Call) and isinstance(it.func, ast.Name):
            if it.func.id == "enumerate" and len(target.elts) == 2 and it.args:
                out.update(elems(target.elts[1], it.args[0]))
            elif it.func.id == "zip" and len(target.elts) == len(it.args):
                for t2, a2 in zip(target.elts, it.args):
                    out.update(elems(t2, a2))
        return out
    loopvars = elems(loop.target, loop.iter)

    def root(e, depth=0):
        """the container a value is read from (indices are ignored): a parameter name or None"""
        if depth > 10:
            return None
        if isinstance(e, ast.Subscript):
            return root(e.value, depth + 1)
        if isinstance(e, ast.Call) and isinstance(e.func, ast.Attribute) and not e.args:
            return root(e.func.value, depth + 1)
        if isinstance(e, ast.Name):
            if e.id in loopvars:
                return root(loopvars[e.id], depth + 1)
            if e.id in ps and e.id not in defs:
                return e.id
            vs = {root(v, depth + 1) for v in defs.get(e.id, [])}
            return vs.pop() if len(vs) == 1 else None
        return None
    for c in subs:
        bound = dict(zip(sub_params, c.args))
        bound.update({k.arg: k.value for k in c.keywords})
        want = {"original_element": (p_numbers, "the species that was searched for at this position"),
                "substitutional_element": (p_system, "the species of the atom found there"),
                "position": (p_system, "the position of the atom found there")}
        for par, (need, what) in want.items():
            if par not in bound:
                raise AnalysisError(f"get_matches: Substitution argument `{par}` not bound")
            got = root(bound[par])
            if got == need:
                rep.ok(rid, f"get_matches: Substitution.{par} <- `{norm(bound[par])}` read from `{need}` ({what})")
            elif got is None:
                raise AnalysisError(f"get_matches: source of Substitution argument `{norm(bound[par])}` not resolved")
            else:
                rep.violation(rid, f"get_matches: Substitution.{par}", f"bound to `{norm(bound[par])}`, which is read from `{got}`; required {what} "
                              f"(read from `{need}`): the defect is described backwards", M.where(GM, c))


def guards_of_match(M, fq, operator_class=True):
    fn = M.func(fq)
    fl = Flow(fn)
    mv = appended_var(fn, ret_names(fn)[0])
    st = [s for s in ast.walk(fn) if isinstance(s, ast.Assign) and norm(s.targets[0]) == mv and not isinstance(s.value, ast.Constant)]
    if len(st) != 1:
        raise AnalysisError(f"{fq.split('.')[-1]}: the assignment of the matched index not found")
    conds = fl.cfg.branch_conditions(fl.node_of(st[0]))
    # compare the guards by kind, not by the spelling of their locals
    tol = M.params(fq)[4]
    loop = next(lp for lp in fn.body if isinstance(lp, ast.For))
    num = [x.id for x in ast.walk(loop.target) if isinstance(x, ast.Name)][-1]
    kinds = []
    for t, pol in conds:
        if not isinstance(t, ast.If):
            continue
        k = classify_cond(t.test, tol, num) or norm(t.test)
        opc = type(t.test.ops[0]).__name__ if isinstance(t.test, ast.Compare) else ""
        if k == "found_none":          # `len(x) == 0` false  ==  `len(x) != 0` true
            k, pol, opc = "found_any", not pol, "NotEq"
        kinds.append((k + (":" + opc if opc and operator_class else ""), pol))
    kinds.sort()
    return kinds, attr_root(fn, st[0].value)


def r16_2(rep, M, rid, region=False):
    """region=True: `<` against `<=` on the tolerance differs on a set of measure zero and is not compared"""
    ga, va = guards_of_match(M, GM, operator_class=not region)
    gb, vb = guards_of_match(M, GMS, operator_class=not region)
    if ga == gb and va == vb:
        rep.ok(rid, f"get_matches and get_matches_simple accept a match under the same conditions {[g for g, _ in ga]}")
    else:
        rep.violation(rid, "get_matches vs get_matches_simple", f"guards differ: {ga} -> {va} versus {gb} -> {vb}", M.where(GMS))
    # the simple variant wraps the query positions with the system's own cell and pbc
    fn = M.func(GMS)
    w = [c for c in ast.walk(fn) if isinstance(c, ast.Call) and M.ext_name(GMS, c.func) in ("ase.geometry.wrap_positions", "ase.geometry.geometry.wrap_positions")]
    sysp = M.params(GMS)[0]

    def getter_of(e):
        if isinstance(e, ast.Name):
            vals = [s2.value for s2 in ast.walk(fn) if isinstance(s2, ast.Assign) and norm(s2.targets[0]) == e.id]
            e = vals[0] if len(vals) == 1 else e
        return e.func.attr if isinstance(e, ast.Call) and isinstance(e.func, ast.Attribute) and norm(e.func.value) == sysp else None
    if w and len(w[0].args) >= 3 and norm(w[0].args[0]) == M.params(GMS)[2] and getter_of(w[0].args[1]) == "get_cell" and getter_of(w[0].args[2]) == "get_pbc":
        rep.ok(rid, "get_matches_simple wraps the queries with the system's cell and pbc")
    else:
        rep.violation(rid, "get_matches_simple: wrapping", "query positions are not wrapped with the system's own cell and pbc", M.where(GMS))


def r16_4(rep, M, rid):
    """python entry points hand the right quantities to the extension"""
    fq = GEO + ".get_extended_system"
    fn = M.func(fq)
    c = [x for x in ast.walk(fn) if isinstance(x, ast.Call) and norm(x.func).endswith("ext.extend_system")]
    want = ["system.get_positions()", "system.get_atomic_numbers()", "system.get_cell()", "system.get_pbc()", "cutoff"]
    if c and [norm(a) for a in c[0].args] == want:
        rep.ok(rid, "get_extended_system passes (positions, numbers, cell, pbc, cutoff) in the C++ order")
    else:
        rep.violation(rid, "get_extended_system: arguments", f"{[norm(a) for a in c[0].args] if c else None} vs C++ order {want}", M.where(fq))
    fq = GEO + ".get_cell_list"
    fn = M.func(fq)
    fl = Flow(fn)
    c = [x for x in ast.walk(fn) if isinstance(x, ast.Call) and norm(x.func).endswith("ext.get_cell_list")]
    if not c:
        raise AnalysisError("get_cell_list: call of matid.ext.get_cell_list not found")
    at = fl.node_of(c[0])
    ps = M.params(fq)
    for p, a in zip(ps, c[0].args):
        raw = isinstance(a, ast.Name) and a.id == p and fl.rd[at].get(p) == frozenset([fl.cfg.entry])
        if raw:
            rep.ok(rid, f"get_cell_list: `{p}` reaches the extension exactly as given")
        else:
            rep.violation(rid, f"get_cell_list: argument `{p}`", f"the extension receives `{norm(a)}` (redefined inside the wrapper), not the caller's "
                          f"`{p}`: images, offsets and displacements then refer to other coordinates than the caller's atoms (e.g. wrapped ones), so "
                          "a reported image no longer sits at original + offset.cell", M.where(fq, c[0]))
    if len(c[0].args) != len(ps):
        rep.violation(rid, "get_cell_list: arity", f"{len(c[0].args)} arguments for 5 C++ parameters", M.where(fq, c[0]))


def run(rep, ctx):
    M = ctx.model
    rep.explanation = ("per-path None-tracking of the matching loop (three-way classification), sibling agreement of the two matchers, "
                       "clang-AST structural rules for extend_system and the neighbour search")
    rep.assumptions = ["numeric completeness of the image enumeration for arbitrary cells is not decided",
                       "C++ parsed with stub pybind11 headers"]
    rep.trusted_base = ["clang 14 AST", "CPython ast", "stub pybind11 headers"]
    rep.rule("R16.1", "every path of the matching loop yields exactly one of match / substitution / vacancy under the documented predicate, with the right cell offset")
    rep.rule("R16.2", "get_matches and get_matches_simple agree on when a position is matched")
    rep.rule("R16.3", "C++ extend_system: offsets only along periodic axes, ceil(cutoff/height) copies, original cell first, each image once with its record")
    rep.rule("R16.4", "C++ neighbour query: bin layout / clamps / cutoff predicate agree with init(); Python entry points pass arguments in C++ order")
    with rep.guard("R16.1"):
        r16_1(rep, M, "R16.1")
    with rep.guard("R16.2"):
        r16_2(rep, M, "R16.2")
    with rep.guard("R16.3"):
        cxxrules.extend_system(rep, "R16.3")
    with rep.guard("R16.4"):
        cxxrules.bin_search_siblings(rep, "R16.4")
        r16_4(rep, M, "R16.4")
    rep.rule("R16.5", "scaled/cartesian conversion used for the vacancy offsets follows the row-vector convention and wraps only periodic components (shared with C20)")
    with rep.guard("R16.5"):
        from . import shared as _sh
        from ..report import Filtered
        # the vacancy offset is floor(to_scaled(cell, position, wrap=False)): only the convention of the conversion matters here, not its wrapping
        conv_only = Filtered(rep, lambda construct: construct.startswith(("to_scaled =", "to_cartesian =", "to_scaled product", "to_cartesian product")))
        _sh.frames(conv_only, ctx.model, "R16.5")
    rep.rule("R16.6", "no function keeps results in module-level state or functools caches (answers do not depend on what the process analysed before)")
    with rep.guard("R16.6"):
        from .. import symrules as _SRms
        _SRms.module_state(rep, ctx.model, "R16.6", _SRms.GEOMETRY_SIDE)
    rep.floor("R16.1", 5)
    rep.floor("R16.2", 2)
    rep.floor("R16.3", 7)
    rep.floor("R16.4", 20)


META = {
    "level": "other",
    "text": "static rules: all paths of the matching loop are enumerated with None-tracking and each is shown to produce exactly one "
            "of match/substitution/vacancy under (within tolerance, species equal/different, otherwise) with the cell offset taken from "
            "the found image or the floor of the scaled position; the two matchers are siblings with identical guards; extend_system "
            "creates offsets only along periodic axes, lists 0 first and every offset once, and records index/offset/position per "
            "image; the neighbour query uses the bin layout of init() with clamped ranges and a <= cutoff predicate. Numeric "
            "completeness for arbitrary cell shapes is not decided."
            " Also: no variable of the matching loop is carried from one position to the next, the acceptance test uses the given tolerance itself, and the Python entry points hand their arguments to the extension exactly as given (reaching definitions), so images refer to the caller's coordinates.",
    "note": "trusted: clang 14 AST with stub pybind11 headers; CPython ast.",
    "technique": "path enumeration with None-tracking + sibling agreement + clang-AST structural rules",
}
