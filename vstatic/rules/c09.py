"""C09 - dimensionality is the rank of the periodic bonding network, however presented.

R09.1 wrappedness typestate of the positions handed to the minimum-image routine
R09.2 cutoff dominance: cutoff >= threshold + 2 max(radii); clip bound > threshold
R09.3 sibling agreement of the 1x and 2x evaluations and the shape of the rank formula
"""
import ast
from fractions import Fraction as F

from ..cfg import CFG, walk_own
from ..dataflow import Flow
from ..model import norm
from ..report import AnalysisError

GEO = "matid.geometry.geometry"
FQ = GEO + ".get_dimensionality"
DISP = GEO + ".get_displacement_tensor"
CLUST = GEO + ".get_clusters"
UNWRAP_MUT = {"set_positions", "set_scaled_positions", "translate", "center", "rattle", "rotate", "set_cell", "set_pbc",
              "euler_rotate", "append", "extend"}
KEEP_WRAPPED = {"copy", "repeat"}


def ext(M, fq, f):
    r = M.resolve(fq, f)
    return r[1] if isinstance(r, tuple) and r[0] == "ext" else None


# ----------------------------------------------------------------------------- R09.1
def wrapped_states(M, fn, entry_wrapped=()):
    """must-analysis: set of Atoms-valued names known to be wrapped at entry of each CFG node (entry_wrapped: parameters whose caller
    guarantees the state)"""
    cfg = CFG(fn)
    TOP = None
    IN = {n: TOP for n in cfg.g.nodes}
    IN[cfg.entry] = frozenset(entry_wrapped)
    work = [cfg.entry]
    OUT = {}

    def transfer(s, st):
        st = set(st)
        if s is None:
            return frozenset(st)
        if isinstance(s, ast.Expr) and isinstance(s.value, ast.Call) and isinstance(s.value.func, ast.Attribute) \
                and isinstance(s.value.func.value, ast.Name):
            v, m = s.value.func.value.id, s.value.func.attr
            if m == "wrap":
                kws = {k.arg: k.value for k in s.value.keywords}
                if "pbc" not in kws and not s.value.args:          # wrap(pbc=...) overrides the periodicity: not the state we need
                    st.add(v)
                else:
                    st.discard(v)
            elif m in UNWRAP_MUT:
                st.discard(v)
        elif isinstance(s, ast.Assign):
            val = s.value
            newstate = False
            if isinstance(val, ast.Name):
                newstate = val.id in st
            elif isinstance(val, ast.Call) and isinstance(val.func, ast.Attribute) and isinstance(val.func.value, ast.Name) \
                    and val.func.attr in KEEP_WRAPPED:
                newstate = val.func.value.id in st
            for t in s.targets:
                for x in ast.walk(t):
                    if isinstance(x, ast.Name) and isinstance(x.ctx, ast.Store):
                        (st.add if newstate and isinstance(t, ast.Name) else st.discard)(x.id)
        elif isinstance(s, (ast.For, ast.AugAssign)):
            for x in ast.walk(s.target):
                if isinstance(x, ast.Name):
                    st.discard(x.id)
        # any call that receives a wrapped object and may mutate it: be conservative for repo mutators
        for sub in walk_own(s):
            if isinstance(sub, ast.Call) and not (isinstance(sub.func, ast.Attribute) and sub.func.attr.startswith("get_")):
                for a in list(sub.args) + [k.value for k in sub.keywords]:
                    if isinstance(a, ast.Name) and a.id in st and isinstance(sub.func, ast.Attribute) \
                            and sub.func.attr in ("swap_basis", "translate", "make_random_displacement"):
                        st.discard(a.id)
        return frozenset(st)
    while work:
        n = work.pop()
        out = transfer(cfg.stmt(n), IN[n])
        if OUT.get(n) == out:
            continue
        OUT[n] = out
        for s in cfg.g.successors(n):
            new = out if IN[s] is TOP else IN[s] & out
            if new != IN[s]:
                IN[s] = new
                work.append(s)
            elif s not in OUT:
                work.append(s)
    return cfg, IN


def positions_wrapped(M, fl, IN, expr, at, depth=0):
    """is `expr` (evaluated at node `at`) a position array of atoms known to lie inside the cell?
    returns (True, why) / (False, why)"""
    if depth > 5:
        return False, "definition chain too deep"
    if isinstance(expr, ast.Name):
        defs = fl.rd[at].get(expr.id, ())
        if not defs:
            return False, f"`{expr.id}` has no local definition"
        for d in defs:
            if d == fl.cfg.entry:
                return False, f"`{expr.id}` is a raw parameter"
            for kind, *rest in fl.def_value(d, expr.id):
                if kind != "expr":
                    return False, f"`{expr.id}` defined by {kind}"
                ok, why = positions_wrapped(M, fl, IN, rest[0], d, depth + 1)
                if not ok:
                    return False, why
        return True, "all definitions wrapped"
    if isinstance(expr, ast.Call):
        f = expr.func
        if isinstance(f, ast.Attribute) and f.attr == "get_positions":
            kws = {k.arg: k.value for k in expr.keywords}
            if "wrap" in kws and isinstance(kws["wrap"], ast.Constant) and kws["wrap"].value is True:
                return True, "get_positions(wrap=True)"
            if isinstance(f.value, ast.Name):
                if f.value.id in (IN[at] or ()):
                    return True, f"`{f.value.id}` was wrapped"
                return False, f"`{norm(expr)}`: `{f.value.id}` is not known to be wrapped here"
            return False, f"`{norm(expr)}`: receiver not a local name"
        name = ext(M, FQ, f)
        if name in ("ase.geometry.wrap_positions", "ase.geometry.geometry.wrap_positions"):
            return True, "ase.geometry.wrap_positions"
        callees = M.callees_of_call(FQ, expr)
        if GEO + ".to_cartesian" in callees:
            kws = {k.arg: k.value for k in expr.keywords}
            w = kws.get("wrap", expr.args[2] if len(expr.args) > 2 else None)
            if isinstance(w, ast.Constant) and w.value is True:
                return True, "to_cartesian(..., wrap=True)"
        if name in ("numpy.array", "numpy.asarray", "numpy.copy") and expr.args:
            return positions_wrapped(M, fl, IN, expr.args[0], at, depth + 1)
    return False, f"`{norm(expr)[:60]}` is not a recognised wrapped-position source"


def r09_1(rep, M, rid, caller_wraps=False):
    """caller_wraps: the borrowing property's entry point hands in a structure it has wrapped itself (checked there), so only what
    get_dimensionality does to it afterwards matters"""
    fn = M.func(FQ)
    fl = Flow(fn)
    cfg, IN = wrapped_states(M, fn, entry_wrapped=(M.params(FQ)[0],) if caller_wraps else ())
    # map statement -> node ids are identical between the two CFG builds (same deterministic construction)
    calls = [(n, c) for n, d in fl.cfg.g.nodes(data=True) if d["ast"] is not None
             for c in walk_own(d["ast"]) if isinstance(c, ast.Call) and DISP in M.callees_of_call(FQ, c)]
    rep.count("displacement_tensor_calls_in_get_dimensionality", len(calls))
    if len(calls) < 2:
        raise AnalysisError(f"expected the 1x and 2x calls of get_displacement_tensor in get_dimensionality, found {len(calls)}")
    for i, (n, c) in enumerate(calls):
        pos = c.args[0] if c.args else next((k.value for k in c.keywords if k.arg == "positions"), None)
        if pos is None:
            raise AnalysisError("get_displacement_tensor call without positions")
        ok, why = positions_wrapped(M, fl, IN, pos, n)
        construct = f"get_dimensionality: get_displacement_tensor({norm(pos)}, ...) #{i + 1}"
        if ok:
            rep.ok(rid, construct + f" [{why}]")
        else:
            rep.violation(rid, construct, "positions reach the minimum-image routine without being wrapped into the cell "
                          f"({why}); the routine is only exact for atoms inside the cell, so an atom stored a few lattice "
                          "vectors away is seen as disconnected and the dimensionality changes", M.where(FQ, c))


# ----------------------------------------------------------------------------- linear forms
def linform(fl, e, at, atoms, depth=0):
    """expression -> {atom_key: Fraction} (atom '1' = constant); None if not linear in recognised atoms.
    atoms(expr, at) -> key or None recognises leaf quantities."""
    if depth > 10:
        return None
    k = atoms(e, at)
    if k is not None:
        return {k: F(1)}
    if isinstance(e, ast.Constant) and isinstance(e.value, (int, float)) and not isinstance(e.value, bool):
        return {"1": F(str(e.value))}
    if isinstance(e, ast.UnaryOp) and isinstance(e.op, ast.USub):
        a = linform(fl, e.operand, at, atoms, depth + 1)
        return {k: -v for k, v in a.items()} if a is not None else None
    if isinstance(e, ast.BinOp):
        a = linform(fl, e.left, at, atoms, depth + 1)
        b = linform(fl, e.right, at, atoms, depth + 1)
        if a is None or b is None:
            return None
        if isinstance(e.op, (ast.Add, ast.Sub)):
            sg = 1 if isinstance(e.op, ast.Add) else -1
            out = dict(a)
            for k2, v in b.items():
                out[k2] = out.get(k2, 0) + sg * v
            return out
        if isinstance(e.op, ast.Mult):
            if set(a) <= {"1"}:
                return {k2: v * a.get("1", 0) for k2, v in b.items()}
            if set(b) <= {"1"}:
                return {k2: v * b.get("1", 0) for k2, v in a.items()}
            return None
        if isinstance(e.op, ast.Div) and set(b) <= {"1"} and b.get("1"):
            return {k2: v / b["1"] for k2, v in a.items()}
        return None
    if isinstance(e, ast.Name):
        defs = fl.rd[at].get(e.id, ())
        forms = []
        for d in defs:
            if d == fl.cfg.entry:
                return None
            vals = fl.def_value(d, e.id)
            if len(vals) != 1 or vals[0][0] != "expr":
                return None
            forms.append(linform(fl, vals[0][1], d, atoms, depth + 1))
        if forms and all(f is not None for f in forms) and all(f == forms[0] for f in forms):
            return forms[0]
    return None


def _per_definition_forms(fl, e, at, atoms, depth=0):
    """all linear forms `e` can take: like linform, but a name with several reaching definitions (one per branch) contributes one form per
    definition. Returns a list of forms; [None] when some definition is not linear in the recognised atoms"""
    if depth > 10:
        return [None]
    k = atoms(e, at)
    if k is not None:
        return [{k: F(1)}]
    if isinstance(e, ast.Constant) and isinstance(e.value, (int, float)) and not isinstance(e.value, bool):
        return [{"1": F(str(e.value))}]
    if isinstance(e, ast.UnaryOp) and isinstance(e.op, ast.USub):
        return [None if a is None else {k2: -v for k2, v in a.items()} for a in _per_definition_forms(fl, e.operand, at, atoms, depth + 1)]
    if isinstance(e, ast.BinOp):
        out = []
        for a in _per_definition_forms(fl, e.left, at, atoms, depth + 1):
            for b in _per_definition_forms(fl, e.right, at, atoms, depth + 1):
                if a is None or b is None:
                    out.append(None)
                elif isinstance(e.op, (ast.Add, ast.Sub)):
                    sg = 1 if isinstance(e.op, ast.Add) else -1
                    r = dict(a)
                    for k2, v in b.items():
                        r[k2] = r.get(k2, 0) + sg * v
                    out.append(r)
                elif isinstance(e.op, ast.Mult) and set(a) <= {"1"}:
                    out.append({k2: v * a.get("1", 0) for k2, v in b.items()})
                elif isinstance(e.op, ast.Mult) and set(b) <= {"1"}:
                    out.append({k2: v * b.get("1", 0) for k2, v in a.items()})
                elif isinstance(e.op, ast.Div) and set(b) <= {"1"} and b.get("1"):
                    out.append({k2: v / b["1"] for k2, v in a.items()})
                else:
                    out.append(None)
        return out[:16]
    if isinstance(e, ast.Name):
        out = []
        for d in fl.rd[at].get(e.id, ()):
            if d == fl.cfg.entry:
                return [None]
            vals = fl.def_value(d, e.id)
            if len(vals) != 1 or vals[0][0] != "expr":
                return [None]
            out += _per_definition_forms(fl, vals[0][1], d, atoms, depth + 1)
        return out or [None]
    return [None]


def r09_2(rep, M, rid, only_first=False):
    fn = M.func(FQ)
    fl = Flow(fn)
    thr = M.params(FQ)[1]

    def defaulted_param(name, at):
        """the parameter itself, or the parameter after `if name is None: name = <default>` (the caller's value whenever one was given)"""
        defs = fl.rd[at].get(name, frozenset())
        if fl.cfg.entry not in defs:
            return False
        for d in defs - {fl.cfg.entry}:
            conds = fl.cfg.branch_conditions(d)
            if not any(pol and isinstance(getattr(t, "test", None), ast.Compare) and isinstance(t.test.ops[0], ast.Is) and norm(t.test.left) == name
                       and isinstance(t.test.comparators[0], ast.Constant) and t.test.comparators[0].value is None for t, pol in conds):
                return False
        return True

    def atoms(e, at):
        if isinstance(e, ast.Name) and e.id == thr and defaulted_param(e.id, at):
            return "threshold"
        if isinstance(e, ast.Name) and not fl.rd[at].get(e.id):
            # not a local: a module-level constant cannot follow the caller's threshold / radii setting
            return f"module-level `{e.id}`"
        # max of the radii
        inner = None
        if isinstance(e, ast.Call) and isinstance(e.func, ast.Attribute) and e.func.attr == "max" and not e.args:
            inner = e.func.value
        elif isinstance(e, ast.Call) and e.args and (ext(M, FQ, e.func) in ("numpy.max", "numpy.amax")
                                                      or (isinstance(e.func, ast.Name) and e.func.id == "max")):
            inner = e.args[0]
        if inner is not None:
            calls = fl.calls_in_slice(inner, at)
            if any(GEO + ".get_radii" in M.callees_of_call(FQ, c) for c in calls):
                return "max_radii"
            return "max of something else than the resolved radii: " + norm(inner)
        # sum of the two largest entries: an upper bound of r_i + r_j for two *different* atoms only - an atom and its own periodic image need 2 r_i
        if isinstance(e, ast.Call) and isinstance(e.func, ast.Attribute) and e.func.attr == "sum" and not e.args and isinstance(e.func.value, ast.Subscript) \
                and norm(e.func.value.slice).replace(" ", "") == "-2:" and isinstance(e.func.value.value, ast.Call) \
                and norm(e.func.value.value.func).split(".")[-1] in ("sort", "sorted"):
            return "sum of the two largest radii"
        # other reductions of the radii are not an upper bound of r_i + r_j
        if isinstance(e, ast.Call) and isinstance(e.func, ast.Attribute) and e.func.attr in ("min", "mean", "sum") and not e.args:
            return f"{e.func.attr} of {norm(e.func.value)}"
        if isinstance(e, ast.Call) and e.args and ext(M, FQ, e.func) in ("numpy.min", "numpy.mean", "numpy.median", "numpy.amin"):
            return norm(e)
        return None
    calls = [(n, c) for n, d in fl.cfg.g.nodes(data=True) if d["ast"] is not None
             for c in walk_own(d["ast"]) if isinstance(c, ast.Call) and DISP in M.callees_of_call(FQ, c)]
    dparams = M.params(DISP)
    calls.sort(key=lambda nc: (nc[1].lineno, nc[1].col_offset))
    for i, (n, c) in enumerate(calls):
        if only_first and i > 0:
            break
        cut = next((k.value for k in c.keywords if k.arg == "cutoff"), None)
        if cut is None and len(c.args) > dparams.index("cutoff"):
            cut = c.args[dparams.index("cutoff")]
        construct = f"get_dimensionality: cutoff of get_displacement_tensor #{i + 1}"
        if cut is None:
            rep.ok(rid, construct + " [unbounded: default inf]")
            continue
        lfs = [linform(fl, cut, n, atoms)]
        if lfs[0] is None:
            # a name with several reaching definitions (branches): every definition has to satisfy the bound on its own
            lfs = _per_definition_forms(fl, cut, n, atoms)
        if not lfs or any(lf is None for lf in lfs):
            raise AnalysisError(f"cutoff `{norm(cut)}` is not a linear form in threshold and max(radii)")
        bad = None
        for lf in lfs:
            t, r, c0 = lf.get("threshold", 0), lf.get("max_radii", 0), lf.get("1", 0)
            if not (t >= 1 and r >= 2 and c0 >= 0 and set(lf) <= {"threshold", "max_radii", "1"}):
                bad = lf
        shown = " | ".join(" + ".join(f"{v}*{k}" for k, v in sorted(lf.items())) for lf in ([bad] if bad else lfs))
        if bad is None:
            rep.ok(rid, construct + f" = {shown} >= threshold + 2*max(radii)")
        else:
            rep.violation(rid, construct, f"cutoff = {shown}; a bonded pair (d - r_i - r_j <= threshold) can be as far apart as "
                          "threshold + 2*max(radii) - in particular an atom and its own periodic image in the doubled cell -, pairs beyond the cutoff are "
                          "reported infinite, so bonds are lost", M.where(FQ, c))
    if only_first:
        return
    # clip bound and eps in get_clusters
    fn2 = M.func(CLUST)
    fl2 = Flow(fn2)
    thr2 = M.params(CLUST)[1]

    def atoms2(e, at):
        if isinstance(e, ast.Name) and e.id == thr2 and fl2.rd[at].get(e.id) == frozenset([fl2.cfg.entry]):
            return "threshold"
        return None
    clips = [(n, c) for n, d in fl2.cfg.g.nodes(data=True) if d["ast"] is not None for c in walk_own(d["ast"])
             if isinstance(c, ast.Call) and ext(M, CLUST, c.func) == "numpy.clip"]
    for n, c in clips:
        kws = {k.arg: k.value for k in c.keywords}
        amax = kws.get("a_max", c.args[2] if len(c.args) > 2 else None)
        amin = kws.get("a_min", c.args[1] if len(c.args) > 1 else None)
        if amax is None or (isinstance(amax, ast.Constant) and amax.value is None):
            rep.violation(rid, "get_clusters: clip upper bound", "no upper bound: infinite entries reach DBSCAN",
                          M.where(CLUST, c))
            continue
        lf = linform(fl2, amax, n, atoms2)
        if lf is None or set(lf) - {"threshold"}:
            raise AnalysisError(f"clip bound `{norm(amax)}` is not a multiple of the threshold")
        if lf.get("threshold", 0) > 1:
            rep.ok(rid, f"get_clusters: clip upper bound = {lf['threshold']}*threshold > eps")
        else:
            rep.violation(rid, "get_clusters: clip upper bound", f"a_max = {lf.get('threshold', 0)}*threshold <= eps: pairs "
                          "beyond the cutoff (infinite entries) are clipped into bonding range", M.where(CLUST, c))
        if amin is not None and not (isinstance(amin, ast.Constant) and amin.value == 0):
            rep.violation(rid, "get_clusters: clip lower bound", f"a_min = `{norm(amin)}`, expected 0", M.where(CLUST, c))
    if not clips:
        rep.violation(rid, "get_clusters: clip of the distance matrix", "the radii-corrected distances are not clipped: negative entries (overlapping "
                      "atoms) and infinite entries (pairs beyond the cutoff) reach DBSCAN", M.where(CLUST))
    db = [c for c in ast.walk(fn2) if isinstance(c, ast.Call) and (ext(M, CLUST, c.func) or "").endswith("DBSCAN")
          or (isinstance(c, ast.Call) and isinstance(c.func, ast.Name) and c.func.id == "DBSCAN")]
    if not db:
        raise AnalysisError("get_clusters: DBSCAN construction not found")
    kws = {k.arg: k.value for k in db[0].keywords}
    ok = (norm(kws.get("eps", ast.Constant(None))) == thr2 and norm(kws.get("min_samples", ast.Constant(None))) == M.params(CLUST)[2]
          and isinstance(kws.get("metric"), ast.Constant) and kws["metric"].value == "precomputed")
    if ok:
        rep.ok(rid, "get_clusters: DBSCAN(eps=threshold, min_samples=min_samples, metric='precomputed')")
    else:
        rep.violation(rid, "get_clusters: DBSCAN parameters", f"`{norm(db[0])[:90]}` does not cluster the precomputed matrix at the "
                      "given threshold / min_samples", M.where(CLUST, db[0]))


# ----------------------------------------------------------------------------- R09.3
def r09_3(rep, M, rid):
    fn = M.func(FQ)
    fl = Flow(fn)
    calls = [(n, c) for n, d in fl.cfg.g.nodes(data=True) if d["ast"] is not None
             for c in walk_own(d["ast"]) if isinstance(c, ast.Call) and DISP in M.callees_of_call(FQ, c)]
    if len(calls) != 2:
        raise AnalysisError("expected exactly the 1x and 2x get_displacement_tensor calls")
    dparams = M.params(DISP)

    def arg(c, name):
        for k in c.keywords:
            if k.arg == name:
                return k.value
        i = dparams.index(name)
        return c.args[i] if i < len(c.args) else None
    (n1, c1), (n2, c2) = calls
    for name in ("pbc", "cutoff"):
        a, b = arg(c1, name), arg(c2, name)
        same = a is not None and b is not None and norm(a) == norm(b) and isinstance(a, ast.Name) \
            and fl.rd[n1].get(a.id) == fl.rd[n2].get(b.id)
        if same:
            rep.ok(rid, f"1x and 2x evaluations use the same `{name}`")
        else:
            rep.violation(rid, f"get_dimensionality: 1x/2x `{name}`", f"1x passes `{norm(a) if a else None}`, 2x passes "
                          f"`{norm(b) if b else None}`: the two evaluations of the same network disagree", M.where(FQ, c2))
    # 2x system = repeat by 2 exactly on periodic axes
    rep_calls = [c for c in ast.walk(fn) if isinstance(c, ast.Call) and isinstance(c.func, ast.Attribute) and c.func.attr == "repeat"]
    if not rep_calls:
        raise AnalysisError("get_dimensionality: system.repeat(...) not found")
    rexpr = rep_calls[0].args[0] if rep_calls[0].args else None
    if not isinstance(rexpr, ast.Name):
        raise AnalysisError("repeat argument is not a local name")
    rv = rexpr.id
    init = [s for s in ast.walk(fn) if isinstance(s, ast.Assign) and norm(s.targets[0]) == rv]
    stores = [s for s in ast.walk(fn) if isinstance(s, ast.Assign) and isinstance(s.targets[0], ast.Subscript)
              and norm(s.targets[0].value) == rv]
    ones = init and [norm(x) for x in ast.walk(init[0].value) if isinstance(x, ast.List)][:1] == ["[1, 1, 1]"]
    pbcname = norm(arg(c1, "pbc"))
    good_store = len(stores) == 1 and norm(stores[0].targets[0].slice) == pbcname and isinstance(stores[0].value, ast.Constant) \
        and stores[0].value.value == 2
    if ones and good_store:
        rep.ok(rid, f"2x supercell: {rv} = [1,1,1]; {rv}[{pbcname}] = 2")
    else:
        rep.violation(rid, "get_dimensionality: repeats", f"the supercell repeats are not `1` on non-periodic and `2` on periodic axes "
                      f"(init {norm(init[0].value) if init else None}, stores {[norm(s) for s in stores]})", M.where(FQ, rep_calls[0]))
    # positions and cell of the 2x call come from the repeated system
    p2, cell2 = c2.args[0], (c2.args[1] if len(c2.args) > 1 else arg(c2, "cell"))
    for what, e in (("positions", p2), ("cell", cell2)):
        if any(c is rep_calls[0] for c in fl.calls_in_slice(e, n2)):
            rep.ok(rid, f"2x {what} taken from the repeated system")
        else:
            rep.violation(rid, f"get_dimensionality: 2x {what}", f"`{norm(e)}` does not come from system.repeat(...)", M.where(FQ, c2))
    # radii tiled by repeats.prod()
    tiles = [c for c in ast.walk(fn) if isinstance(c, ast.Call) and ext(M, FQ, c.func) == "numpy.tile"]
    if tiles and len(tiles[0].args) == 2 and norm(tiles[0].args[1]) in (f"{rv}.prod()", f"np.prod({rv})", f"numpy.prod({rv})"):
        rep.ok(rid, f"2x radii = tile(radii, {rv}.prod())")
    else:
        rep.violation(rid, "get_dimensionality: 2x radii", "the radii of the supercell are not the 1x radii tiled once per copy",
                      M.where(FQ, tiles[0] if tiles else None))
    # both clusterings identical in parameters
    cl = [c for c in ast.walk(fn) if isinstance(c, ast.Call) and CLUST in M.callees_of_call(FQ, c)]
    if len(cl) != 2:
        raise AnalysisError("expected two get_clusters calls in get_dimensionality")
    cps = M.params(CLUST)
    sig = []
    for c in cl:
        b = M.bind_args(CLUST, c)
        sig.append((norm(b[cps[1]]) if cps[1] in b else None, sorted((k, norm(v)) for k, v in b.items() if k not in cps[:2])))
    if sig[0] == sig[1] and sig[0][0] == M.params(FQ)[1] and ("min_samples", "1") in sig[0][1]:
        rep.ok(rid, "1x and 2x clusterings: same threshold, min_samples=1")
    else:
        rep.violation(rid, "get_dimensionality: clustering parameters", f"1x {sig[0]} vs 2x {sig[1]}: expected (cluster_threshold, "
                      "min_samples=1) in both", M.where(FQ, cl[1]))
    # rank formula: n_pbc - log2(n_clusters_2x); None iff more than one 1x component; 0 without pbc
    logs = [c for c in ast.walk(fn) if isinstance(c, ast.Call) and ext(M, FQ, c.func) in ("math.log", "math.log2", "numpy.log2")]
    ok_log = False
    for c in logs:
        name = ext(M, FQ, c.func)
        base2 = name in ("math.log2", "numpy.log2") or (len(c.args) == 2 and isinstance(c.args[1], ast.Constant) and c.args[1].value == 2)
        arg0 = c.args[0]
        from_len2 = any(isinstance(x, ast.Call) and isinstance(x.func, ast.Name) and x.func.id == "len"
                        and any(cc is cl[1] for cc in fl.calls_in_slice(x.args[0], fl.node_of(c)))
                        for e in fl.slice(arg0, fl.node_of(c))["exprs"] for x in ast.walk(e))
        parent = [b for b in ast.walk(fn) if isinstance(b, ast.BinOp) and isinstance(b.op, ast.Sub) and b.right is c]
        npbc_ok = False
        if parent:
            sl = fl.slice(parent[0].left, fl.node_of(c))
            npbc_ok = any(isinstance(x, ast.Call) and (ext(M, FQ, x.func) in ("numpy.sum", "numpy.count_nonzero") or
                                                       (isinstance(x.func, ast.Name) and x.func.id == "sum") or
                                                       (isinstance(x.func, ast.Attribute) and x.func.attr == "sum"))
                          for e in sl["exprs"] for x in ast.walk(e))
        if base2 and from_len2 and npbc_ok:
            ok_log = True
    if ok_log:
        rep.ok(rid, "dim = n_pbc - log2(number of 2x components)")
    else:
        rep.violation(rid, "get_dimensionality: rank formula", "the result is not n_pbc - log2(#components of the 2x supercell) "
                      "(base must match the repetition factor 2)", M.where(FQ, logs[0] if logs else None))
    none_branch = [t for t in ast.walk(fn) if isinstance(t, ast.If) and isinstance(t.test, ast.Compare)
                   and isinstance(t.test.ops[0], ast.Gt) and isinstance(t.test.comparators[0], ast.Constant)
                   and t.test.comparators[0].value == 1
                   and any(isinstance(s, ast.Assign) and isinstance(s.value, ast.Constant) and s.value.value is None for s in t.body)]
    ok_none = False
    comp_test = None
    for t in none_branch:
        sl = fl.slice(t.test.left, fl.node_of(t))
        if any(cc is cl[0] for e in sl["exprs"] for cc in ast.walk(e)):
            ok_none = True
            comp_test = t
    # ... and nothing may pre-empt it: every assignment of a non-None result lies on the False side of that test
    preempt = []
    if comp_test is not None:
        dim_vars = {norm(s2.targets[0]) for s2 in comp_test.body if isinstance(s2, ast.Assign)}
        for n2, d2 in fl.cfg.g.nodes(data=True):
            s2 = d2["ast"]
            if isinstance(s2, ast.Assign) and norm(s2.targets[0]) in dim_vars and not (isinstance(s2.value, ast.Constant) and s2.value.value is None):
                conds = fl.cfg.branch_conditions(n2)
                if not any(t is comp_test and pol is False for t, pol in conds):
                    preempt.append(s2)
        for r in [cfg_r for cfg_r in fl.cfg.returns]:
            rs = fl.cfg.stmt(r)
            if not any(isinstance(x, ast.Name) and x.id in dim_vars for x in ast.walk(rs)) and rs.value is not None:
                conds = fl.cfg.branch_conditions(r)
                if not any(t is comp_test for t, pol in conds) and not fl.cfg.all_paths_pass(fl.cfg.entry, r, [fl.cfg.node_of[id(comp_test)]]):
                    preempt.append(rs)
    if ok_none and not preempt:
        rep.ok(rid, "None exactly when the 1x bonding graph has more than one component (no other result can pre-empt the test)")
    elif ok_none:
        rep.violation(rid, "get_dimensionality: None branch pre-empted", f"`{norm(preempt[0])[:60]}` assigns a result without passing the test "
                      "`#components(1x) > 1`: a cell with several disconnected components gets a number instead of None", M.where(FQ, preempt[0]))
    else:
        rep.violation(rid, "get_dimensionality: None branch", "`None` is not returned exactly under `#components(1x) > 1`", M.where(FQ))
    zero = [t for t in ast.walk(fn) if isinstance(t, ast.If) and isinstance(t.test, ast.Compare)
            and isinstance(t.test.ops[0], ast.Gt) and isinstance(t.test.comparators[0], ast.Constant) and t.test.comparators[0].value == 0
            and any(isinstance(s, ast.Assign) and isinstance(s.value, ast.Constant) and s.value.value == 0 for s in t.orelse)]
    # ... or no separate branch at all: with no periodic direction the repeats are [1, 1, 1], the "doubled" system is the system itself, a connected
    # system has one component there, and n_pbc - log2(1) = 0 comes out of the general formula
    guards = [t for t in ast.walk(fn) if isinstance(t, ast.If)
              and any(isinstance(c, ast.Call) and norm(c.func).endswith("log") for b2 in t.body for c in ast.walk(b2))]
    general = guards and all(isinstance(t.test, ast.Compare) and "pbc" in norm(t.test) and isinstance(t.test.ops[0], ast.GtE)
                             and isinstance(t.test.comparators[0], ast.Constant) and t.test.comparators[0].value == 0 for t in guards)
    formula_unguarded = not guards
    if zero:
        rep.ok(rid, "0 without periodic directions")
    elif general or formula_unguarded:
        rep.ok(rid, "0 without periodic directions: the general formula n_pbc - log2(#components of the unrepeated system) is used for n_pbc = 0 as well")
    else:
        rep.violation(rid, "get_dimensionality: non-periodic branch", "a connected non-periodic system does not get 0", M.where(FQ))


def r09_6(rep, M, rid, only_first=False):
    """the cell of every minimum-image search is the cell of the very object whose (wrapped) positions are searched, unmodified: the
    atoms were wrapped in that basis, and the search is only exact for atoms inside the cell it is given"""
    fn = M.func(FQ)
    fl = Flow(fn)
    dparams = M.params(DISP)
    calls = [c for c in ast.walk(fn) if isinstance(c, ast.Call) and DISP in M.callees_of_call(FQ, c)]
    if not calls:
        raise AnalysisError("get_dimensionality: get_displacement_tensor not called")

    def source(e, at):
        """(name of the Atoms object, getter, modifiers) of a value defined as <obj>.get_x()<modifiers>"""
        mods = []
        for _ in range(6):
            if isinstance(e, ast.Name):
                vals = [v for d in fl.rd[at].get(e.id, ()) if d != fl.cfg.entry for v in fl.def_value(d, e.id) if v[0] == "expr"]
                ds = [d for d in fl.rd[at].get(e.id, ()) if d != fl.cfg.entry]
                if len(vals) != 1:
                    return None
                e, at = vals[0][1], ds[0]
                continue
            if isinstance(e, ast.Call) and isinstance(e.func, ast.Attribute) and e.func.attr in ("get_cell", "get_positions") and isinstance(e.func.value, ast.Name):
                return e.func.value.id, e.func.attr, mods, at
            if isinstance(e, ast.Call) and isinstance(e.func, ast.Attribute):
                mods.append("." + e.func.attr + "()")
                e = e.func.value
                continue
            if isinstance(e, ast.Call) and (M.ext_name(FQ, e.func) or "") in ("numpy.array", "numpy.asarray") and e.args:
                e = e.args[0]
                continue
            if isinstance(e, (ast.BinOp, ast.Subscript, ast.UnaryOp)):
                mods.append(norm(e)[:30])
                return None if not mods else ("?", "?", mods, at)
            return None
        return None
    calls.sort(key=lambda c: (c.lineno, c.col_offset))
    for i, c in enumerate(calls):
        if only_first and i > 0:
            break
        b = M.bind_args(DISP, c)
        at = fl.node_of(c)
        pc, cc = source(b.get("positions"), at), source(b.get("cell"), at)
        construct = f"get_dimensionality: cell of get_displacement_tensor #{i + 1}"
        if pc is None or cc is None:
            raise AnalysisError(f"{construct}: sources of positions / cell not resolved")

        def related(a, a_at):
            """the name, what it is an alias of, and what it is a .copy() of (a copy keeps the cell; set_cell on either side is checked by the wrapped-state rule)"""
            out = {a}
            for d in fl.rd[a_at].get(a, ()):
                if d == fl.cfg.entry:
                    continue
                for v in fl.def_value(d, a):
                    if v[0] != "expr":
                        continue
                    if isinstance(v[1], ast.Name):
                        out.add(v[1].id)
                    elif isinstance(v[1], ast.Call) and isinstance(v[1].func, ast.Attribute) and v[1].func.attr == "copy" and not v[1].args \
                            and isinstance(v[1].func.value, ast.Name):
                        out.add(v[1].func.value.id)
            return out

        def same_obj(a, a_at, b2, b_at):
            return bool(related(a, a_at) & related(b2, b_at))
        if cc[2]:
            rep.violation(rid, construct, f"the cell is `{cc[0]}.get_cell()` changed by {cc[2]}: the atoms were wrapped in the basis of the full cell, with another cell "
                          "(e.g. non-periodic vectors dropped, reduced basis) they are no longer inside the cell the search is given and minimum images of bonded pairs are missed",
                          M.where(FQ, c))
        elif cc[1] != "get_cell" or pc[1] != "get_positions":
            rep.violation(rid, construct, f"positions come from `{pc[0]}.{pc[1]}`, the cell from `{cc[0]}.{cc[1]}`", M.where(FQ, c))
        elif not same_obj(pc[0], pc[3], cc[0], cc[3]):
            rep.violation(rid, construct, f"positions of `{pc[0]}` are searched in the cell of `{cc[0]}`", M.where(FQ, c))
        else:
            rep.ok(rid, construct + f" = `{cc[0]}.get_cell()` of the object whose positions are searched")


def run(rep, ctx):
    M = ctx.model
    rep.explanation = ("typestate of the position arrays reaching the minimum-image routine, symbolic linear forms for the "
                       "cutoff and clip bounds, sibling agreement of the 1x/2x evaluations and the shape of the rank formula")
    rep.assumptions = ["get_displacement_tensor is exact for atoms inside the cell (C10)",
                       "ASE Atoms.wrap() puts atoms inside the cell along periodic directions; repeat() of wrapped atoms stays wrapped"]
    rep.rule("R09.1", "positions handed to get_displacement_tensor inside get_dimensionality are wrapped")
    rep.rule("R09.2", "cutoff >= threshold + 2*max(radii); clip bound > eps; DBSCAN on the precomputed matrix at the threshold")
    rep.rule("R09.3", "1x and 2x evaluations agree (pbc, cutoff, radii tiling, repeats, clustering); rank formula shape")
    with rep.guard("R09.1"):
        r09_1(rep, M, "R09.1")
    with rep.guard("R09.2"):
        r09_2(rep, M, "R09.2")
        from . import c01 as _c01
        _c01.r01_8_components(rep, M, "R09.2", shortcut=False)
    with rep.guard("R09.3"):
        r09_3(rep, M, "R09.3")
    rep.rule("R09.4", "the displacement-tensor wrapper hands cutoff, positions and cell to the minimum-image search unreduced")
    with rep.guard("R09.4"):
        from . import c10
        c10.r10_1(rep, M, "R09.4")
    rep.rule("R09.5", "radii presets and custom arrays are resolved as documented (shared with C19)")
    with rep.guard("R09.5"):
        from . import shared as _sh
        _sh.radii(rep, ctx.model, "R09.5")
    rep.rule("R09.6", "each minimum-image search uses the unmodified cell of the object whose wrapped positions it searches")
    with rep.guard("R09.6"):
        r09_6(rep, M, "R09.6")
    rep.floor("R09.6", 2)
    rep.rule("R09.7", "no function keeps results in module-level state or functools caches (answers do not depend on what the process analysed before)")
    with rep.guard("R09.7"):
        from .. import symrules as _SRms
        _SRms.module_state(rep, ctx.model, "R09.7", _SRms.GEOMETRY_SIDE)
    rep.floor("R09.1", 2)
    rep.floor("R09.2", 4)
    rep.floor("R09.3", 9)


META = {
    "level": "other",
    "text": "static rules on get_dimensionality / get_clusters: the minimum-image routine only ever sees wrapped positions "
            "(typestate; the clause behind invariance under lattice shifts of single atoms), the cutoff dominates every "
            "bondable pair (exact linear form), the clip bound exceeds eps, the 1x and 2x evaluations are siblings that "
            "agree on pbc/cutoff/radii/clustering, and the rank formula has base 2 matching the 2x repetition. Equality "
            "with the union-find oracle on concrete inputs is not decided."
            " Also: no result can pre-empt the `more than one component -> None` test, reductions other than max(resolved radii) in the cutoff are violations, and the displacement-tensor wrapper hands cutoff/positions/cell to the search unreduced.",
    "note": "trusted: ASE wrap()/repeat()/get_positions semantics as tabulated in the rule; C10 for the exactness of the "
            "displacement tensor on wrapped input; CPython ast.",
    "technique": "typestate (wrappedness) on the CFG + symbolic linear forms + sibling agreement",
}
