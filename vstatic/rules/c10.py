"""C10 - the displacement tensor is a sound minimum-image table (wrapper contract + C++ structure).

The numeric core (copy counts, bin sizing for skewed cells, minimality over all images) is NOT
decided; note that the C++ extension cannot even be rebuilt in this sandbox (pybind11 headers are
absent), so the C++ rules are structural rules over clang's AST parsed with stub headers.
"""
import ast

from .. import cxx, cxxrules
from ..cfg import walk_own
from ..dataflow import Flow
from ..model import norm
from ..report import AnalysisError

GEO = "matid.geometry.geometry"
FQ = GEO + ".get_displacement_tensor"


def r10_1(rep, M, rid):
    fn = M.func(FQ)
    fl = Flow(fn)
    # buffers
    bufs = {}
    for s in ast.walk(fn):
        if isinstance(s, ast.Assign) and isinstance(s.targets[0], ast.Name) and isinstance(s.value, ast.Call) \
                and M.ext_name(FQ, s.value.func) == "numpy.full":
            shape, fill = s.value.args[0], s.value.args[1] if len(s.value.args) > 1 else None
            dims = len(shape.elts) if isinstance(shape, ast.Tuple) else None
            inf = fill is not None and norm(fill) in ("float('inf')", "np.inf", "numpy.inf", "math.inf")
            bufs[s.targets[0].id] = (dims, inf, s)
    ext = [c for c in ast.walk(fn) if isinstance(c, ast.Call) and norm(c.func).endswith("ext.get_displacement_tensor")]
    if len(ext) != 1:
        raise AnalysisError("wrapper: call of matid.ext.get_displacement_tensor not found")
    call = ext[0]
    # cross-language signature: names of the C++ parameters
    u = cxx.Unit(cxxrules.GEOM)
    cparams = cxx.params(u.function("get_displacement_tensor"))
    want = ["displacements", "distances", "factors", "positions", "cell", "pbc", "cutoff", "return_factors", "return_distances"]
    if cparams != want:
        raise AnalysisError(f"geometry.cpp get_displacement_tensor parameters changed: {cparams}")
    if len(call.args) != len(cparams):
        rep.violation(rid, "wrapper: ext call arity", f"{len(call.args)} arguments for {len(cparams)} C++ parameters", M.where(FQ, call))
        return
    a = {p: x for p, x in zip(cparams, call.args)}
    for p, dims in (("displacements", 3), ("distances", 2), ("factors", 3)):
        nm = norm(a[p])
        b = bufs.get(nm)
        if b and b[0] == dims and b[1]:
            rep.ok(rid, f"wrapper: `{nm}` ({dims}-d, filled with inf) is the C++ `{p}` buffer")
        elif b and not b[1]:
            rep.violation(rid, f"wrapper: initial value of `{nm}`", "the buffer is not initialised to infinity: pairs the search never visits "
                          "(beyond the cutoff) are reported as finite", M.where(FQ, b[2]))
        else:
            rep.violation(rid, f"wrapper: buffer for C++ `{p}`", f"`{nm}` is not a {dims}-dimensional np.full(..., inf) buffer", M.where(FQ, call))
    at = fl.node_of(call)
    for p in ("positions", "cell", "cutoff", "return_factors", "return_distances"):
        if norm(a[p]) != p:
            rep.violation(rid, f"wrapper: argument `{p}`", f"C++ parameter `{p}` receives `{norm(a[p])}`", M.where(FQ, call))
            continue
        # the value reaching the extension is the caller's, or the documented default substituted under `is None`
        bad = None
        for d in fl.rd[at].get(p, ()):
            if d == fl.cfg.entry:
                continue
            st = fl.cfg.stmt(d)
            conds = fl.cfg.branch_conditions(d)
            under_none = any(pol is True and isinstance(t, ast.If) and norm(t.test) == f"{p} is None" for t, pol in conds)
            if not under_none:
                bad = st
        if bad is None:
            rep.ok(rid, f"wrapper: `{p}` reaches the extension as given (or its documented default when None)")
        else:
            rep.violation(rid, f"wrapper: `{p}` rewritten before the extension", f"`{norm(bad)[:70]}` changes the caller's `{p}` inside the wrapper: "
                          + ("pairs within the requested cutoff are reported infinite" if p == "cutoff" else "the tables no longer refer to the caller's geometry"),
                          M.where(FQ, bad))
    if isinstance(a["pbc"], ast.Call) and (GEO + ".expand_pbc") in M.callees_of_call(FQ, a["pbc"]) and norm(a["pbc"].args[0]) == "pbc":
        rep.ok(rid, "wrapper: pbc normalised by expand_pbc")
    else:
        rep.violation(rid, "wrapper: pbc", f"`{norm(a['pbc'])}` is not expand_pbc(pbc): scalar True/False would reach the C++ array view", M.where(FQ, call))
    # None -> inf
    nn = [t for t in ast.walk(fn) if isinstance(t, ast.If) and norm(t.test) == "cutoff is None"
          and any(isinstance(s, ast.Assign) and norm(s.targets[0]) == "cutoff" and "inf" in norm(s.value) for s in t.body)]
    if nn:
        rep.ok(rid, "wrapper: cutoff None -> inf")
    else:
        rep.violation(rid, "wrapper: cutoff None", "None is not mapped to an infinite cutoff", M.where(FQ))
    # return order
    # the result list: a local initialised with a list literal that the returns are built from (whatever it is called)
    ret_names = {x.id for r0 in ast.walk(fn) if isinstance(r0, ast.Return) and r0.value is not None for x in ast.walk(r0.value) if isinstance(x, ast.Name)}
    cand = [s for s in ast.walk(fn) if isinstance(s, ast.Assign) and isinstance(s.value, ast.List) and isinstance(s.targets[0], ast.Name) and s.targets[0].id in ret_names]
    if not cand:
        raise AnalysisError("wrapper: the list the results are collected in was not found")
    RES = cand[0].targets[0].id
    init = [s for s in cand if s.targets[0].id == RES]
    apps = []
    for t in ast.walk(fn):
        if isinstance(t, ast.If) and isinstance(t.test, ast.Name):
            for s in t.body:
                if isinstance(s, ast.Expr) and isinstance(s.value, ast.Call) and norm(s.value.func) == RES + ".append":
                    apps.append((t.test.id, norm(s.value.args[0]), t.lineno))
    apps.sort(key=lambda x: x[2])
    ok = init and [norm(e) for e in init[0].value.elts] == [norm(a["displacements"])] and \
        [(f, v) for f, v, _ in apps] == [("return_factors", norm(a["factors"])), ("return_distances", norm(a["distances"]))]
    if ok:
        rep.ok(rid, "wrapper: returns (displacements[, factors][, distances]) in this order")
    else:
        rep.violation(rid, "wrapper: return order", f"result starts with {[norm(e) for e in init[0].value.elts] if init else None} and appends "
                      f"{[(f, v) for f, v, _ in apps]}; documented order is displacements, factors (if requested), distances (if requested)", M.where(FQ))
    single = [t for t in ast.walk(fn) if isinstance(t, ast.If) and norm(t.test) == f"len({RES}) == 1"
              and any(isinstance(s, ast.Return) and norm(s.value) == f"{RES}[0]" for s in t.body)]
    if single:
        rep.ok(rid, "wrapper: a single table is returned bare, several as a tuple")
    else:
        rep.violation(rid, "wrapper: single result", "a single requested table is not returned bare", M.where(FQ))
    # call sites: unpacking arity agrees with the constant flags
    M.callgraph()
    sites = [(cfq, c) for cfq, lst in M.call_sites.items() for c, cs in lst if FQ in cs]
    rep.count("call_sites_of_get_displacement_tensor", len(sites))
    ps = M.params(FQ)
    for cfq, c in sites:
        b = M.bind_args(FQ, c)
        flags = []
        unknown = False
        for f in ("return_factors", "return_distances"):
            v = b.get(f)
            if v is None:
                flags.append(False)
            elif isinstance(v, ast.Constant) and isinstance(v.value, bool):
                flags.append(v.value)
            else:
                unknown = True
        n = 1 + sum(flags)
        stmt = None
        for s in ast.walk(M.defs[cfq]):
            if isinstance(s, ast.Assign) and s.value is c:
                stmt = s
        construct = f"{cfq.replace('matid.', '')}: {norm(c)[:60]}"
        if unknown or stmt is None:
            rep.ok(rid, construct + " [result not unpacked / flags not constant]")
            continue
        t = stmt.targets[0]
        arity = len(t.elts) if isinstance(t, (ast.Tuple, ast.List)) else 1
        if arity == n:
            rep.ok(rid, construct + f" unpacks {arity} value(s) for flags {flags}")
        else:
            rep.violation(rid, construct, f"unpacks {arity} value(s) but with return_factors={flags[0]}, return_distances={flags[1]} the "
                          f"wrapper returns {n}", M.where(cfq, c))
        # order at 3-tuples: (disp, factors, distances); the last one feeds a distance matrix
        if arity == 2 and flags == [False, True] and isinstance(t, ast.Tuple):
            pass
    if len(sites) < 4:
        raise AnalysisError(f"only {len(sites)} call sites of get_displacement_tensor resolved (4 confirmed by hand)")


def r10_5(rep, M, rid):
    """get_distances: the record handed to SBC / classifier holds the tables under their own names"""
    from .. import sigs
    from ..effects import Effects
    fq = GEO + ".get_distances"
    fn = M.func(fq)
    sigs.run(rep, M, rid, scope={fq})
    E = Effects(M)
    st = E.states(fq)
    fl = Flow(fn)
    # the radii-corrected matrix must not alias the raw distance matrix (it is modified in place)
    subs = [s for s in ast.walk(fn) if isinstance(s, ast.AugAssign) and isinstance(s.op, ast.Sub) and isinstance(s.target, ast.Name)]
    if not subs:
        raise AnalysisError("get_distances: in-place subtraction of the radii matrix not found")
    for s in subs:
        tgt = s.target.id
        defs = [d for d in ast.walk(fn) if isinstance(d, ast.Assign) and norm(d.targets[0]) == tgt]
        fresh = defs and all(isinstance(d.value, ast.Call) and M.ext_name(fq, d.value.func) in ("numpy.array", "numpy.copy") or
                             (isinstance(d.value, ast.Call) and isinstance(d.value.func, ast.Attribute) and d.value.func.attr == "copy") for d in defs)
        rsl = fl.slice(s.value, fl.node_of(s))
        sym = any(isinstance(b, ast.BinOp) and isinstance(b.op, ast.Add) and {"[:, None]", "[None, :]"} <=
                  {norm(x)[len(norm(x.value)):] for x in ast.walk(b) if isinstance(x, ast.Subscript)} for e in rsl["exprs"] for b in ast.walk(e))
        from_radii = any(GEO + ".get_radii" in M.callees_of_call(fq, c) for c in fl.calls_in_slice(s.value, fl.node_of(s)))
        if fresh and sym and from_radii:
            rep.ok(rid, f"get_distances: `{tgt}` is a copy of the raw matrix minus r_i + r_j of the resolved radii")
        elif not fresh:
            rep.violation(rid, f"get_distances: `{norm(s)}`", f"`{tgt}` is not a copy: subtracting the radii in place also changes the raw "
                          "minimum-image distance matrix stored in the same record", M.where(fq, s))
        else:
            rep.violation(rid, f"get_distances: form of the radii correction `{norm(s)}`", f"the subtracted matrix is not r_i + r_j of get_radii (symmetric: {sym}, from get_radii: {from_radii})",
                          M.where(fq, s))
    # the tables are double precision: no narrowing conversion anywhere in get_distances
    narrow = []
    for x in ast.walk(fn):
        if isinstance(x, ast.keyword) and x.arg == "dtype" and norm(x.value).replace("numpy.", "np.").strip("'\"") not in ("float", "np.float64", "np.double", "float64"):
            narrow.append(x.value)
        if isinstance(x, ast.Call) and isinstance(x.func, ast.Attribute) and x.func.attr == "astype" and x.args \
                and norm(x.args[0]).replace("numpy.", "np.").strip("'\"") not in ("float", "np.float64", "np.double", "float64"):
            narrow.append(x)
    if narrow:
        rep.violation(rid, f"get_distances: `{norm(narrow[0])[:50]}`", "a distance table is converted to a narrower type: bonding decisions taken from this table (clustering, "
                      "cluster shortcut) then differ from those taken from freshly computed double-precision distances for pairs within ~1e-7 A of a threshold",
                      M.where(fq, narrow[0]))
    else:
        rep.ok(rid, "get_distances keeps every table in double precision (no dtype= / astype narrowing)")
    # the plain (non minimum-image) fallback may only be taken when *no* direction is periodic
    DISPQ = GEO + ".get_displacement_tensor"
    for t in [t for t in ast.walk(fn) if isinstance(t, ast.If) and "pbc" in norm(t.test) and t.orelse]:
        def with_pbc(stmts):
            return any(isinstance(c, ast.Call) and DISPQ in M.callees_of_call(fq, c) and
                       (len(c.args) >= 3 or any(k.arg in ("pbc", "cell") for k in c.keywords)) for s2 in stmts for c in ast.walk(s2))
        def without_pbc(stmts):
            return any(isinstance(c, ast.Call) and DISPQ in M.callees_of_call(fq, c) and
                       len(c.args) < 3 and not any(k.arg in ("pbc", "cell") for k in c.keywords) for s2 in stmts for c in ast.walk(s2))
        if not (with_pbc(t.body) and without_pbc(t.orelse)) and not (with_pbc(t.orelse) and without_pbc(t.body)):
            continue
        test, neg = t.test, with_pbc(t.orelse)
        while isinstance(test, ast.UnaryOp) and isinstance(test.op, ast.Not):
            test, neg = test.operand, not neg
        red = None
        if isinstance(test, ast.Call) and isinstance(test.func, ast.Attribute) and test.func.attr in ("any", "all") and not test.args:
            red, subj = test.func.attr, test.func.value
        elif isinstance(test, ast.Call) and test.args and (M.ext_name(fq, test.func) in ("numpy.any", "numpy.all") or
                                                         (isinstance(test.func, ast.Name) and test.func.id in ("any", "all"))):
            red, subj = (M.ext_name(fq, test.func) or test.func.id).split(".")[-1], test.args[0]
        if red is None:
            raise AnalysisError(f"get_distances: periodicity dispatch `{norm(t.test)}` not recognised")
        from_pbc = any(isinstance(c, ast.Call) and isinstance(c.func, ast.Attribute) and c.func.attr == "get_pbc"
                       for e in fl.slice(subj, fl.node_of(t))["exprs"] for c in ast.walk(e))
        if red == "any" and not neg and from_pbc:
            rep.ok(rid, "get_distances: the plain-difference fallback is taken only when no direction is periodic (`pbc.any()` selects the minimum-image call)")
        else:
            rep.violation(rid, f"get_distances: periodicity dispatch `{norm(t.test)}`", "the minimum-image call is selected by "
                          f"`{'not ' if neg else ''}{red}` of the flags: systems periodic in only some directions (slabs, wires) take the "
                          "plain-difference branch, so every table handed to the classifier / SBC ignores the periodic images", M.where(fq, t))
    # finite systems: zero factors of the right shape
    orelse = [t for t in ast.walk(fn) if isinstance(t, ast.If) and "pbc" in norm(t.test) and t.orelse]
    if orelse and any(isinstance(s2, ast.Assign) and "zeros" in norm(s2.value) for s2 in orelse[0].orelse):
        rep.ok(rid, "get_distances: non-periodic systems get zero offset factors")
    else:
        rep.violation(rid, "get_distances: non-periodic branch", "offset factors of a finite system are not zero", M.where(fq))


def run(rep, ctx):
    M = ctx.model
    rep.explanation = ("contract of the Python wrapper checked against the C++ parameter list (clang AST), unpacking arity of every "
                       "call site against its constant flags, pair-fill / diagonal / per-pair-minimum structure of the C++ tensor fill, "
                       "sibling agreement of the two copies of the 27-bin search")
    rep.assumptions = ["numeric correctness of copy counts / bin sizing for skewed cells is not decided",
                       "the C++ sources are parsed with stub pybind11 headers (the real headers are not installed)"]
    rep.trusted_base = ["clang 14 AST", "CPython ast", "stub pybind11 headers in /verif/stubs"]
    rep.rule("R10.1", "wrapper: inf-filled buffers bound to the right C++ parameters, None->inf, expand_pbc, documented return order; call sites unpack what their flags produce")
    rep.rule("R10.2", "C++: zero diagonal, (i,j)/(j,i) written with +/-/- signs, closest image kept, only within the cutoff")
    rep.rule("R10.3", "C++: both copies of the 27-bin search use the bin layout of init() with identical clamps and cutoff predicate")
    rep.rule("R10.4", "C++: an infinite cutoff becomes an extension by the longest periodic cell vector")
    rep.rule("R10.5", "get_distances stores each table under its own name; the radii-corrected matrix is a copy minus r_i + r_j")
    with rep.guard("R10.1"):
        r10_1(rep, M, "R10.1")
    with rep.guard("R10.2"):
        cxxrules.pair_fill(rep, "R10.2")
    with rep.guard("R10.3"):
        cxxrules.bin_search_siblings(rep, "R10.3")
    with rep.guard("R10.4"):
        cxxrules.infinite_cutoff(rep, "R10.4")
    with rep.guard("R10.5"):
        from ..report import Filtered
        # the exact arithmetic form of the radii correction matters to the consumers of the radii-corrected matrix (C01/C13/C17), not to the minimum-image tables
        r10_5(Filtered(rep, lambda construct: "form of the radii correction" not in construct), M, "R10.5")
    rep.rule("R10.6", "no function keeps results in module-level state or functools caches (answers do not depend on what the process analysed before)")
    with rep.guard("R10.6"):
        from .. import symrules as _SRms
        _SRms.module_state(rep, ctx.model, "R10.6", _SRms.GEOMETRY_SIDE)
    rep.floor("R10.5", 7)
    rep.floor("R10.1", 14)
    rep.floor("R10.2", 10)
    rep.floor("R10.3", 20)
    rep.floor("R10.4", 2)


META = {
    "level": "other",
    "text": "static structural rules: the wrapper's buffers are inf-initialised and bound to the matching C++ parameters (so unvisited "
            "pairs stay infinite), every call site unpacks exactly what its flags return, the C++ fill writes a zero diagonal and "
            "mirrored entries with the right signs (symmetry/antisymmetry by construction), keeps the closest image per pair and only "
            "pairs within the cutoff, and the two copies of the neighbour search agree with the bin layout. Exactness of the minimum "
            "over all images for arbitrary cells is numeric and is not decided."
            " Also: cutoff / positions / cell reach the extension as given (reaching definitions; only the documented None defaults may be substituted), get_distances stores each table under its own name with the radii-corrected matrix a copy, infinite cutoff -> longest periodic vector.",
    "note": "trusted: clang 14's AST of the sources parsed with stub pybind11 headers; CPython ast. The extension cannot be rebuilt in "
            "this sandbox, so nothing here executes C++.",
    "technique": "cross-language signature agreement + clang-AST structural rules (pair fill, sibling agreement)",
}
