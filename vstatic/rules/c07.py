"""C07 - Wyckoff sets are exactly the symmetry orbits of the conventional cell (structural clauses)."""
import ast

from .. import symrules as SR
from .. import tableobl as TO
from ..dataflow import Flow
from ..model import norm
from ..report import AnalysisError

SA = SR.SA
GS = SR.GS


def r07_2(rep, M, rid):
    """letters and positions come from the same candidate"""
    fn = M.func(GS)
    fl = Flow(fn)
    env = {}
    for s in ast.walk(fn):
        if isinstance(s, ast.Assign) and isinstance(s.targets[0], ast.Name):
            env.setdefault(s.targets[0].id, []).append(s)
    # representation dict built from one `transform`
    reps = [s for s in ast.walk(fn) if isinstance(s, ast.Assign) and isinstance(s.value, ast.Dict)
            and {k.value for k in s.value.keys if isinstance(k, ast.Constant)} >= {"transformation", "permutations"}
            and not any(isinstance(k, ast.Constant) and k.value == "identity" for k in s.value.keys)]
    if not reps:
        raise AnalysisError("_find_wyckoff_ground_state: candidate dict {transformation, permutations} not found")
    d = dict(zip([k.value for k in reps[0].value.keys], reps[0].value.values))
    at = fl.node_of(reps[0])
    tsrc = [norm(x.value) for e in fl.slice(d["transformation"], at)["exprs"] for x in ast.walk(e)
            if isinstance(x, ast.Subscript) and isinstance(x.slice, ast.Constant) and x.slice.value == "transformation"]
    psrc = [norm(x.value) for e in fl.slice(d["permutations"], at)["exprs"] for x in ast.walk(e)
            if isinstance(x, ast.Subscript) and isinstance(x.slice, ast.Constant) and x.slice.value == "permutations"]
    if tsrc and psrc and set(tsrc) == set(psrc) and len(set(tsrc)) == 1:
        rep.ok(rid, f"candidate = (transformation, permutations) of the same normalizer `{tsrc[0]}`")
    else:
        rep.violation(rid, "candidate construction", f"transformation comes from {sorted(set(tsrc))}, permutation from {sorted(set(psrc))}: "
                      "letters and positions of a candidate belong to different normalizers", M.where(GS, reps[0]))
    # the letter counts of the candidate use the same permutation
    cnt = [s for s in ast.walk(fn) if isinstance(s, ast.Assign) and isinstance(s.targets[0], ast.Subscript)
           and isinstance(s.targets[0].slice, ast.Constant) and s.targets[0].slice.value == "wyckoff_positions"]
    if cnt:
        sl = fl.slice(cnt[0].value, fl.node_of(cnt[0]))
        if any(isinstance(c, ast.Call) and isinstance(c.func, ast.Attribute) and c.func.attr == "get" and norm(c.func.value) == norm(d["permutations"])
               for e in sl["exprs"] for c in ast.walk(e)) or any(isinstance(x, ast.Subscript) and norm(x.value) == norm(d["permutations"])
                                                                 for e in sl["exprs"] for x in ast.walk(e)):
            rep.ok(rid, "ranking counts are computed with the candidate's own permutation")
        else:
            rep.violation(rid, "candidate ranking data", "the (letter, element) counts used for ranking are not computed with the candidate's "
                          "permutation", M.where(GS, cnt[0]))
    # application: matrix and permutation read from the same chosen representation, which is recorded as _best_transform
    def src_of(name, key, depth=4, seen=None):
        """owners `d` of `d[key]` that a local is derived from, through chains of plain assignments (rotation = T[0:3, 0:3]; T = d["transformation"])"""
        seen = seen if seen is not None else set()
        out = set()
        if name in seen or depth < 0:
            return out
        seen.add(name)
        for s in env.get(name, []):
            hit = False
            for x in ast.walk(s.value):
                if isinstance(x, ast.Subscript) and isinstance(x.slice, ast.Constant) and x.slice.value == key:
                    out.add(norm(x.value))
                    hit = True
            if not hit:
                for x in ast.walk(s.value):
                    if isinstance(x, ast.Name) and x.id in env:
                        out |= src_of(x.id, key, depth - 1, seen)
        return out
    tm = [c for c in ast.walk(fn) if isinstance(c, ast.Call) and SR.resolver(M, GS)(c.func) in ("numpy.dot", "numpy.matmul")]
    tnames = {x.id for c in tm for a in c.args for x in ast.walk(a) if isinstance(x, ast.Name)}
    tnames |= {x.id for b in ast.walk(fn) if isinstance(b, ast.BinOp) and isinstance(b.op, ast.MatMult) for a in (b.left, b.right) for x in ast.walk(a) if isinstance(x, ast.Name)}
    t_owner = set().union(*[src_of(n, "transformation") for n in tnames]) if tnames else set()
    letter_loop = [s for s in ast.walk(fn) if isinstance(s, ast.Assign) and isinstance(s.targets[0], ast.Name)
                   and isinstance(s.value, ast.Call) and isinstance(s.value.func, ast.Attribute) and s.value.func.attr == "get"
                   and isinstance(s.value.func.value, ast.Name) and src_of(s.value.func.value.id, "permutations")]
    ident = {norm(s2.targets[0]) for s2 in ast.walk(fn) if isinstance(s2, ast.Assign) and isinstance(s2.value, ast.Dict)
             and any(isinstance(k, ast.Constant) and k.value == "identity" for k in s2.value.keys)}
    best = [s for s in ast.walk(fn) if isinstance(s, ast.Assign) and norm(s.targets[0]) == "self._best_transform"
            and not (isinstance(s.value, ast.Name) and s.value.id in ident)]
    b_owner = {norm(s.value) for s in best}
    # only the relabelling that produces the *returned* letters counts (candidates are relabelled too while they are ranked): it follows
    # the recording of the chosen candidate
    if best:
        letter_loop = [s for s in letter_loop if fl.cfg.reaches(fl.node_of(best[0]), fl.node_of(s))]
    p_owner = set().union(*[src_of(s.value.func.value.id, "permutations") for s in letter_loop]) if letter_loop else set()
    if t_owner and t_owner == p_owner == b_owner and len(t_owner) == 1:
        rep.ok(rid, f"applied matrix, applied letter permutation and recorded _best_transform are all `{sorted(t_owner)[0]}`")
    else:
        rep.violation(rid, "application of the chosen normalizer", f"matrix from {sorted(t_owner)}, letters from {sorted(p_owner)}, "
                      f"_best_transform = {sorted(b_owner)}: the returned letters do not belong to the returned positions", M.where(GS))
    # both results are returned together in the non-identity branch
    rets = [r for r in ast.walk(fn) if isinstance(r, ast.Return) and isinstance(r.value, ast.Tuple) and len(r.value.elts) == 2]
    # the return of the branch that records the chosen (non-identity) candidate
    after_best = [r for r in rets if best and fl.cfg.reaches(fl.node_of(best[0]), fl.node_of(r))]
    last = (after_best[-1] if after_best else (max(rets, key=lambda r: r.lineno) if rets else None))
    if last is not None:
        at = fl.node_of(last)
        s0 = fl.slice(last.value.elts[0], at)
        s1 = fl.slice(last.value.elts[1], at)
        pos_applied = any(isinstance(c, ast.Call) and isinstance(c.func, ast.Attribute) and c.func.attr == "set_scaled_positions"
                          for c in ast.walk(fn))
        perm_applied = any(s in letter_loop for s in ast.walk(fn) if s in letter_loop) and any(
            isinstance(x, ast.Name) and x.id in {norm(s.targets[0]) for s in letter_loop} for e in s1["exprs"] for x in ast.walk(e))
        if pos_applied and perm_applied:
            rep.ok(rid, "non-identity branch returns transformed positions together with permuted letters")
        else:
            rep.violation(rid, "non-identity return", f"positions transformed: {pos_applied}; letters permuted: {perm_applied}: the permutation "
                          "is applied without the transformation or vice versa", M.where(GS, last))


def _src_kind(M, fq, fn, names):
    """what a per-atom array is: 'param:<name>' or the getter of the system parameter it was read with"""
    if not names or len(names) != 1:
        return None
    nm = next(iter(names))
    if nm in M.params(fq):
        return "param:" + nm
    vals = [s2.value for s2 in ast.walk(fn) if isinstance(s2, ast.Assign) and norm(s2.targets[0]) == nm]
    if len(vals) == 1 and isinstance(vals[0], ast.Call) and isinstance(vals[0].func, ast.Attribute) and norm(vals[0].func.value) in M.params(fq):
        return vals[0].func.attr
    return None


def r07_3(rep, M, rid, representative=False):
    """set assembly in _get_wyckoff_sets"""
    fq = SA + "._get_wyckoff_sets"
    fn = M.func(fq)
    fl = Flow(fn)
    appends = [c for c in ast.walk(fn) if isinstance(c, ast.Call) and isinstance(c.func, ast.Attribute) and c.func.attr == "append"
               and isinstance(c.func.value, ast.Attribute) and c.func.value.attr == "indices"]
    if len(appends) != 1:
        raise AnalysisError(f"_get_wyckoff_sets: expected one `<set>.indices.append(i_atom)`, found {len(appends)}")
    a = appends[0]
    at = fl.node_of(a)
    loops = [t for t, pol in fl.cfg.branch_conditions(at) if isinstance(t, ast.For) and pol is True]
    ok = False
    if loops:
        lp = loops[-1]
        enum = isinstance(lp.iter, ast.Call) and isinstance(lp.iter.func, ast.Name) and lp.iter.func.id == "enumerate"
        over_equiv = enum and norm(lp.iter.args[0]) == "equivalent_atoms"
        tv = [x.id for x in ast.walk(lp.target) if isinstance(x, ast.Name)]
        keyed = isinstance(a.func.value.value, ast.Subscript) and norm(a.func.value.value.slice) == (tv[1] if len(tv) > 1 else "")
        appended = norm(a.args[0]) == (tv[0] if tv else "")
        ok = over_equiv and keyed and appended and not [t for t, pol in fl.cfg.branch_conditions(at) if isinstance(t, ast.If)]
    if ok:
        rep.ok(rid, "every atom is appended exactly once to the set keyed by its orbit id")
    else:
        rep.violation(rid, "_get_wyckoff_sets: index assembly", "atoms are not appended one-per-atom to the set of their own orbit id: the "
                      "sets do not partition the atoms", M.where(fq, a))
    mult = [s for s in ast.walk(fn) if isinstance(s, ast.Assign) and isinstance(s.targets[0], ast.Attribute) and s.targets[0].attr == "multiplicity"]
    if mult and all(norm(s.value) == f"len({norm(s.targets[0].value)}.indices)" for s in mult):
        rep.ok(rid, "multiplicity = len(indices) of the same set")
    else:
        rep.violation(rid, "_get_wyckoff_sets: multiplicity", "multiplicity is not the size of the set's own index list", M.where(fq))
    # one set per orbit id, letter/element of the first atom of that orbit
    ctor = [c for c in ast.walk(fn) if isinstance(c, ast.Call) and M.resolve(fq, c.func) == "matid.symmetry.wyckoffset.WyckoffSet"]
    if not ctor:
        raise AnalysisError("_get_wyckoff_sets: WyckoffSet(...) not found")
    init = M.find_method("matid.symmetry.wyckoffset.WyckoffSet", "__init__")
    kw = M.bind_args(init, ctor[0]) if init else {k.arg: k.value for k in ctor[0].keywords}      # by parameter name, however the call passes them
    idxs = {norm(x.slice) for k in ("wyckoff_letter", "element", "atomic_number") if k in kw for x in ast.walk(kw[k]) if isinstance(x, ast.Subscript)}
    srcs = {k: {norm(x.value) for x in ast.walk(kw[k]) if isinstance(x, ast.Subscript)} for k in ("wyckoff_letter", "element", "atomic_number") if k in kw}
    # the index must be the *position of the orbit's first atom* (second output of np.unique(..., return_index=True)),
    # not the orbit label (first output) and not the running number of the set
    first_pos_var = None
    for a2 in ast.walk(fn):
        if isinstance(a2, ast.Assign) and isinstance(a2.targets[0], ast.Tuple) and len(a2.targets[0].elts) == 2 and isinstance(a2.value, ast.Call) \
                and norm(a2.value.func).endswith("unique") and any(k.arg == "return_index" for k in a2.value.keywords):
            second = norm(a2.targets[0].elts[1])
            for lp in ast.walk(fn):
                if isinstance(lp, ast.For) and isinstance(lp.iter, ast.Call) and isinstance(lp.iter.func, ast.Name) and lp.iter.func.id == "enumerate" \
                        and norm(lp.iter.args[0]) == second and isinstance(lp.target, ast.Tuple):
                    first_pos_var = norm(lp.target.elts[1])
                elif isinstance(lp, ast.For) and norm(lp.iter) == second and isinstance(lp.target, ast.Name):
                    first_pos_var = lp.target.id
    # every per-atom array read inside WyckoffSet(...) - including the lookup of the representative expression - uses that position
    per_atom_names = set().union(*srcs.values()) if srcs else set()
    all_idx = {norm(x.slice) for k0, v0 in kw.items() for x in ast.walk(v0) if isinstance(x, ast.Subscript) and norm(x.value) in per_atom_names}
    stray = sorted(all_idx - {first_pos_var}) if first_pos_var is not None else []
    if representative and stray and idxs == {first_pos_var}:
        bad_kw = sorted(k0 for k0, v0 in kw.items() if any(isinstance(x, ast.Subscript) and norm(x.value) in per_atom_names and norm(x.slice) in stray for x in ast.walk(v0)))
        rep.violation(rid, f"_get_wyckoff_sets: WyckoffSet({', '.join(bad_kw)}=...) index", f"a per-atom array is read at `{stray[0]}` inside `{bad_kw[0]}=`, while letter and element of the "
                      f"same set are read at the position of the orbit's first atom `{first_pos_var}`: `{stray[0]}` is an orbit label (an atom index of the *original* cell), so for "
                      "centred lattices, supercells and reordered inputs the set carries the expression of another position (or the lookup runs out of range)", M.where(fq, ctor[0]))
    right_index = first_pos_var is not None and idxs == {first_pos_var}
    if len(idxs) == 1 and not right_index:
        rep.violation(rid, "_get_wyckoff_sets: set attributes index", f"letter/element/number of a set are read at `{sorted(idxs)[0]}`, which is not the position of "
                      f"the orbit's first atom (`{first_pos_var}` from np.unique(..., return_index=True)): orbit labels / running numbers are not positions in "
                      "the conventional cell, so the reported letter and element depend on atom order", M.where(fq, ctor[0]))
    elif len(idxs) == 1 and _src_kind(M, fq, fn, srcs.get("wyckoff_letter")) == "param:wyckoff_letters" \
            and _src_kind(M, fq, fn, srcs.get("element")) == "get_chemical_symbols" and _src_kind(M, fq, fn, srcs.get("atomic_number")) == "get_atomic_numbers":
        rep.ok(rid, f"letter, element and atomic number of a set are read at the position of the orbit's first atom `{sorted(idxs)[0]}`")
    else:
        rep.violation(rid, "_get_wyckoff_sets: set attributes", f"letter/element/number are read at {sorted(idxs)} from {srcs}", M.where(fq, ctor[0]))
    # inputs: conventional system with conventional letters and conventional equivalence
    fq2 = SA + ".get_wyckoff_sets_conventional"
    calls = M.calls_to(fq2, fq)
    if not calls:
        raise AnalysisError("get_wyckoff_sets_conventional: call of _get_wyckoff_sets not found")
    fl2 = Flow(M.func(fq2))
    b = M.bind_args(fq, calls[0])
    want = {"system": "get_conventional_system", "wyckoff_letters": "get_wyckoff_letters_conventional",
            "equivalent_atoms": "get_equivalent_atoms_conventional", "space_group": "get_space_group_number"}
    for p, g in want.items():
        got = [c.func.attr for c in fl2.calls_in_slice(b[p], fl2.node_of(calls[0])) if isinstance(c.func, ast.Attribute)] if p in b else []
        if g in got:
            rep.ok(rid, f"get_wyckoff_sets_conventional: {p} <- self.{g}()")
        else:
            rep.violation(rid, f"get_wyckoff_sets_conventional: {p}", f"fed by {got or None}, not self.{g}()", M.where(fq2, calls[0]))


def run(rep, ctx):
    M, T = ctx.model, ctx.tables
    rep.exhaustive = True
    rep.explanation = ("exhaustive exact check that every tabulated letter permutation is the one its normalizer induces on the "
                       "Wyckoff positions (affine-subspace matching modulo the lattice); def-use rules tying letters and positions "
                       "to one candidate; shape of the set assembly; index-space typing of the letter/orbit getters")
    rep.assumptions = ["orbit closure of the structure returned for a concrete crystal is decided by spglib at run time"]
    rep.rule("R07.1", "tabulated letter permutation = permutation induced by the normalizer (all normalizers, all letters)")
    rep.rule("R07.2", "letters and positions come from the same candidate normalizer, which is recorded as _best_transform")
    rep.rule("R07.3", "sets partition the atoms by orbit id; multiplicity = size; attributes read at one atom")
    rep.rule("R07.4", "letter / orbit getters are typed over the right index space")
    TO.norm_perm(rep, T, "R07.1")
    with rep.guard("R07.2"):
        r07_2(rep, M, "R07.2")
        from .. import symrules as _SRg
        _SRg.ground_state_consistency_raises(rep, M, "R07.2")
    with rep.guard("R07.3"):
        r07_3(rep, M, "R07.3")
    with rep.guard("R07.4"):
        SR.index_spaces(rep, M, "R07.4")
        SR.orbit_source(rep, M, "R07.4")
    rep.rule("R07.5", "every memoised result of the analyzer is dropped by reset(), which set_system() calls (no answers for a previous structure)")
    with rep.guard("R07.5"):
        from .. import symrules as _SR
        _SR.reset_covers_caches(rep, ctx.model, "R07.5")
    rep.rule("R07.6", "the chosen normalizer is applied to the positions in the convention of the table (letters and positions stay in step)")
    with rep.guard("R07.6"):
        from . import c05 as _c05
        _c05.r05_3(rep, ctx.model, "R07.6")
    rep.rule("R07.7", "re-wrapping of the normalised positions snaps coordinates only within numerical noise (an atom moved onto a cell face leaves its orbit; shared with C05)")
    with rep.guard("R07.7"):
        from . import c05 as _c05b
        _c05b.r05_6(rep, M, "R07.7")
    rep.rule("R07.8", "spglib's standardised lattice / positions / types are turned into the conventional system without a change of convention "
                      "(the returned cell is the one whose orbits are reported; what spglib was given does not matter here; shared with C05)")
    with rep.guard("R07.8"):
        from . import c05 as _c05r
        _c05r.r05_5b(rep, ctx.model, "R07.8")
    rep.floor("R07.8", 2)
    rep.rule("R07.9", "every tabulated normalizer is an automorphism of its group and an isometry of the lattice (the normalised cell is the same crystal in the same space group; shared with C05/C14)")
    from . import shared as _shn
    _shn.normalizer_tables(rep, ctx.tables, "R07.9", perm=False)
    rep.floor("R07.9", 2400)
    rep.floor("R07.1", 6000)
    rep.floor("R07.2", 4)
    rep.floor("R07.3", 7)
    rep.floor("R07.4", 8)


META = {
    "level": "other",
    "text": "static rules: all tabulated letter permutations are proved (exact arithmetic, exhaustive) to be the permutations "
            "their transformations induce, the code is shown to apply permutation and transformation of one and the same "
            "candidate, the sets are a partition by construction with multiplicity = size, and the getters are typed over "
            "the original/primitive/conventional index spaces. Orbit closure of the returned structure for a concrete "
            "crystal depends on spglib at run time and is not decided."
            " Also: orbits are read from crystallographic_orbits (not the input cell's equivalent_atoms), the normalizer is applied in the table's convention, memo attributes are cleared by reset() and keyed by the arguments they depend on.",
    "note": "trusted: spglib Hall database; WYCKOFF_SETS positions (themselves proved closed orbits under C14); CPython ast.",
    "technique": "exact table obligations (induced permutations) + def-use same-candidate rule + index-space typing",
}
